"""C14 -- peers converge on one shared live connection; lookups never hang."""
import json, os, glob
from harness import common
from harness.common import coq_list, coq_Z

REQ = ["Verif.lib.PyLite", "Verif.gen.ConvergeGen", "Verif.lib.Converge"]
P61 = 16777213


def tail(s, n=2500):
    return s[-n:]


def run(ctx):
    ctx.rule = ("(a) decision function: all combinations of offer/existing fields over small code sets, run on the real "
                "Negotiation.compareOfferAndExisting and on the translated function; (b) traces: 29 scripted + seeded schedules of two real "
                "Tubs (lookups with 1-3 hints, lookups whose FURL has no usable hint / whose endpoints refuse at once = the connector fails "
                "synchronously inside getBrokerForTubRef (7 kinds of such hints; the model's derived operation nohints_ops), block deliveries, asynchronous cuts, close notifications, restarts, forced connector "
                "time-outs, passage of virtual time up to the next armed timer (connector timers and the listening ends' negotiation "
                "timers fire), instant retries armed for the next errback, handle-old set on the master); after every step the real "
                "state is compared with the Coq model: clock, brokers, master/slave tables, connector and its deadline, Broker creation "
                "time, WHICH lookups wait (by number, with the time they were made) and which were answered when and how, link states "
                "and queues; non-trivial = a connection was established and (a cut, a restart, a time-out, a retry or a rejection) happened; "
                "(c) oracle runs: a fixed battery (independent of the seed), the corpus and seeded runs: byte- and block-granular "
                "schedules to quiescence with cross-connects, parallel hints, cuts, restarts, black holes, one-sided cuts with redial "
                "from the side that noticed (both dial directions, several rounds, with and without a concurrent outbound negotiation to "
                "a third Tub set up just before / within the first round trip of the redial), lookups issued re-entrantly from "
                "callbacks/errbacks, lookups queued before Tub.startService() (1-5, same Tub and a third Tub) followed by the start and "
                "the same races; lookups whose connector fails synchronously (no hints, unknown type, malformed, handler raises, refused at once, "
                "mixtures; 1-3 in a row; fresh / after a lost connection / after a peer restart / queued before the start; peer or third "
                "Tub) followed by a good lookup (fault-free: must succeed; black hole: must fail at its own time-out), an inbound "
                "connection, both, or a good lookup from inside the errback; an exception raised inside a timer callback is logged and the loop goes on, as in a reactor; "
                "connection-hint handlers whose hint_to_endpoint returns a DEFERRED (10 fixed plans x both Tubs x fault-free / black hole, alone and "
                "mixed with ordinary and unusable hints, a second lookup 0 / 30 / 100 s later; seeded mixtures): never fires, fires 0-300 s "
                "later with a working endpoint / a refusing endpoint / a failure -- every lookup must fire once within CONNECTION_TIMEOUT of "
                "being MADE, succeed when an endpoint was there in time, not fail early while an attempt is open; "
                "an OLD-STYLE peer (hello without my-incarnation) against a deciding Tub with handle-old-duplicate-connections = 30 / 60 "
                "(seeded: 1-200): the existing connection accepted INBOUND or dialled by the decider, aged 0 / th-1 / th / th+1 / 5 th, then the "
                "peer restarts or a one-sided cut is noticed by the peer, which dials 1-3 hints: age >= th must displace (exactly one offer), "
                "age < th must keep; parallel hints of an old-style peer: exactly one accepted; "
                "(d) SECOND LEG of getReference: either Tub dials (1-2 hints), blocks are delivered until the dialler / both hold a Broker, the "
                "network then drops every link SILENTLY (no close notification), 20 x 130 s pass, then the dialler's end is told: the "
                "getReference must fire exactly once, with DeadReferenceError, when told (oracle); while silent it stays pending (NOTE, "
                "known limitation, C14_every_getReference_fires_within_timeout_refuted); the model's composed run is compared with the real Tubs")
    ctx.assumptions = [
        "TLS is a no-op startTLS; peerFromTransport returns the peer Tub's certificate",
        "the model delivers whole negotiation blocks; the GET/101 exchange and the TCP connect are folded into the dial step "
        "(byte-granular interleavings of all phases are exercised by the oracle runs only)",
        "incarnation strings are abstracted to integers compared for equality (the literal 'none' is 0)",
        "vocabulary/version negotiation always succeeds here (C13 covers it)",
        "the model folds hint resolution into the dial step (synchronous handlers); handlers that answer with a Deferred are exercised "
        "on the real TubConnector by the oracle runs only (slow-hints family); that connect() arms the timer before any hint is looked "
        "at is a translated shape fact",
        "an old-style peer is emulated the way foolscap's own tests do (Tub.incarnation_string = ''); the handle_old decision itself is "
        "translated and proved (accept iff age >= threshold, age measured from Broker.creation_timestamp), the old-peer oracle family runs "
        "it end to end on real Tubs for inbound and outbound existing connections",
        "virtual time is integer seconds; the model lets time pass only up to the next armed timer (timed-automaton semantics: a "
        "timer fires AT its deadline), the harness advances the real clock in the same way; the model's Timeout step is a forced "
        "early firing of the connector's timer (DelayedCall.reset(0))",
        "handle-old-duplicate-connections is an input of the model's master step (passed with the age of the existing Broker to "
        "the translated decision function); it is PROVED unreachable between two modern Tubs (C14_handle_old_unreachable); the "
        "translated function's old-peer theorems cover pre-0.2.0 peers",
        "quiescence requires both ends to have seen every loss (a half-open connection is not quiescent)",
        "a third Tub / several concurrent outbound negotiations, and the lookups queued before Tub.startService(), are two small "
        "layered models (lib/ConvergeLayers.v) with translated flags (offer dict built per Negotiation; relay bound to the Deferred of "
        "its own iteration), compared with real Negotiation objects / real Tubs; they are composed with the two-Tub model through "
        "their statements (the hello carries the dialler's record of THAT peer; a queued Deferred has exactly one lookup, made at the "
        "start), not as one product state",
        "second leg of getReference: the request table is C03's model (lib/Requests.v) driven by the two-Tub model for ONE Broker "
        "(lib/ConvergeRef.v: Broker.finish exactly when that end stops being a live Broker; one callRemote per lookup answered with it); "
        "what travels on the established connection (the call, its answer) is not in the two-Tub model: answers arrive as events of "
        "their own (PWire); TCP's own retransmission time-out (which would eventually turn an unanswered keepalive PING into a "
        "connectionLost, far beyond CONNECTION_TIMEOUT and outside foolscap) is not modelled; Tub.disconnectTimeout = None by "
        "default is a translated shape fact",
    ]
    ok, log = ctx.coq_build(["props/C14.vo"])
    from harness import c14_impl as impl
    oracle = impl
    before = len(ctx.failures)
    model_ok = ok
    if not ok:
        model_ok, _ = ctx.coq_build(["lib/Converge.vo"])
    # corpus first (regression witnesses and minimised past failures)
    oracle.run_corpus(ctx)
    # (a) translated decision function vs the real method
    if model_ok:
        correspond_compare(ctx, impl)
    # (b) trace validation
    if model_ok:
        correspond_traces(ctx, impl)
    # (b') the layered models: offers of concurrent outbound negotiations; relays of queued lookups
    layers_ok = model_ok
    if model_ok:
        layers_ok, _ = ctx.coq_build(["lib/ConvergeLayers.vo"])
    correspond_layers(ctx, impl, layers_ok)
    # (b'') the second leg of getReference (lib/RefLeg.v + lib/ConvergeRef.v): black-holed established connection
    ref_ok = model_ok
    if model_ok and not ok:
        ref_ok, _ = ctx.coq_build(["lib/ConvergeRef.vo"])
    second_leg(ctx, impl, ref_ok)
    # (c) direct oracle
    oracle.run_all(ctx)
    if not ok:
        # a failing input explains a broken proof only if it is a NEW one: the finding already present on the
        # unchanged tree (and anything listed as known) must not mask a broken proof / tie
        known = common.load_known()
        fresh = [f for f in ctx.failures[before:] if f["has_input"] and f["sig"] not in FINDINGS_ON_PINNED_TREE
                 and known.get((ctx.pid, f["sig"]), {}).get("status") != "known"]
        if not fresh:
            ctx.fail("proof-broken", "theorem closure props/C14.vo no longer builds against the regenerated gen/ConvergeGen.v:\n"
                     + tail(log), replay=dict(log=tail(log, 6000)), has_input=False)
        else:
            ctx.note("proof broken AND a new failing input was found (reported above)")


FINDINGS_ON_PINNED_TREE = {"oracle/redundant-attempt-displaces-established/peer-restarted"}


# ------------------------------------------------------------------------------------------------
def correspond_compare(ctx, impl):
    """every combination of small field values: real compareOfferAndExisting == translated compare_offer"""
    irs = {None: None, 0: "none", 1: "aaaa1111", 2: "bbbb2222", 3: "cccc3333"}
    cases = []
    for o_inc in (None, 1, 2):
        for o_last in (None, (0, 0), (1, 1), (1, 2), (1, 3), (3, 2), (2, 2)):
            for e_ir in (None, 1, 2):
                for e_seq in (1, 2, 3):
                    for my_ir in (1, 3):
                        for ho, age in ((None, 0), (60, 10), (60, 60), (60, 61)):
                            cases.append((o_inc, o_last, e_ir, e_seq, my_ir, ho, age))
    # empty-string incarnation (how the unit tests simulate an old peer) behaves like a missing one
    exp = []
    for (o_inc, o_last, e_ir, e_seq, my_ir, ho, age) in cases:
        r = impl.real_compare(irs[o_inc], None if o_last is None else (irs[o_last[0]], o_last[1]), irs[e_ir], e_seq,
                              irs[my_ir], False if ho is None else ho, age)
        exp.append(r)
        ctx.case(["cmp", o_inc, o_last, e_ir, e_seq, my_ir, ho, age], nontrivial=True)
        ctx.hist("compare_result", r)
    for v in ("", None):
        r1 = impl.real_compare(v, ("aaaa1111", 1), "aaaa1111", 1, "aaaa1111", False, 0)
        if r1 is not False:
            ctx.fail("oracle/old-peer-accepted", "an offer without my-incarnation (%r) was accepted with handle-old off" % (v,),
                     replay=dict(o_inc=v))
    optz = lambda v: "None" if v is None else "(Some %s)" % coq_Z(v)
    lines = []
    for (o_inc, o_last, e_ir, e_seq, my_ir, ho, age) in cases:
        last = "None" if o_last is None else "(Some (%s, %s))" % (coq_Z(o_last[0]), coq_Z(o_last[1]))
        lines.append("compare_offer %s %s %s %s %s %s %s" % (optz(o_inc), last, optz(e_ir), coq_Z(e_seq), coq_Z(my_ir),
                                                             optz(ho), coq_Z(age)))
    body = "Definition code (r : res bool) : Z := match r with Ok true => 1 | Ok false => 0 | Exc _ => 2 end%Z.\n"
    vals = []
    try:
        for i in range(0, len(lines), 400):
            (v,) = ctx.coq_eval("C14_cmp_%d" % (i // 400), body + "Eval vm_compute in map code " + coq_list(lines[i:i + 400]) + ".\n",
                                requires=REQ)
            vals += v
    except common.CoqEvalError as e:
        ctx.fail("correspondence-broken", "compare_offer could not be evaluated: " + str(e)[-1500:], has_input=False)
        return
    nbad = 0
    for c, r, m in zip(cases, exp, vals):
        want = 1 if r is True else 0 if r is False else 2
        ctx.traces += 1
        if want != m:
            nbad += 1
            if nbad <= 3:
                ctx.fail("correspondence/compare-offer", "translated compare_offer and the real compareOfferAndExisting disagree on "
                         "(o_inc, o_last, e_ir, e_seq, my_ir, handle_old, age)=%r: model %r, implementation %r" % (c, m, r),
                         replay=dict(case=c, model=m, impl=r), has_input=False)
    ctx.extra["compare_cases"] = len(cases)
    ctx.extra["compare_disagreements"] = nbad


# ------------------------------------------------------------------------------------------------
def hobs(obs):
    a = 17
    for row in obs:
        a = (a * 7 + 3) % P61
        for z in row:
            a = (a * 257 + z + 11) % P61
    return a


def coq_op(o):
    """a schedule element of the harness (Converge.hop): a model operation, or a lookup whose connector fails synchronously"""
    t = {"M": "TM", "S": "TS"}
    if o[0] == "GetRefNoHints":
        return "GetRefNoHints %s" % t[o[1]]
    return "Plain (%s)" % coq_plain_op(o)


def coq_plain_op(o):
    t = {"M": "TM", "S": "TS"}
    if o[0] in ("GetRef", "DialHint", "Restart", "Timeout", "ArmRetry"):
        return "%s %s" % (o[0], t[o[1]])
    if o[0] == "Cut":
        return "Cut %d" % o[1]
    if o[0] == "Advance":
        return "Advance %s" % coq_Z(o[1])
    if o[0] == "SetHandleOld":
        return "SetHandleOld %s" % ("None" if o[1] is None else "(Some %s)" % coq_Z(o[1]))
    return "%s %d %s" % (o[0], o[1], t[o[2]])


HASHDEF = """
Definition hrow (a : Z) (row : list Z) : Z :=
  fold_left (fun a z => (a * 257 + z + 11) mod 16777213)%Z row ((a * 7 + 3) mod 16777213)%Z.
Definition hobs (o : list (list Z)) : Z := fold_left hrow o 17%Z.
Fixpoint trace_h (s : state) (ops : list hop) : list Z :=
  match ops with [] => [] | o :: r => let s' := hstep s o in hobs (obs s') :: trace_h s' r end.
"""


def correspond_traces(ctx, impl):
    from harness.implenv import quiet
    ntr = ctx.n(150, 3000)
    traces = []
    with quiet():
        for i in range(ntr):
            n = ctx.rng.choice([12, 25, 40, 60])
            style = ctx.rng.choice(["calm", "faulty", "restarts"])
            kw = dict(calm=dict(p_restart=0.0, p_cut=0.02, p_timeout=0.02), faulty=dict(p_restart=0.02, p_cut=0.1, p_timeout=0.06),
                      restarts=dict(p_restart=0.08, p_cut=0.04, p_timeout=0.03))[style]
            try:
                w, groups = impl.random_trace(ctx.rng, n, **kw)
            except Exception as e:
                import traceback
                ctx.fail("oracle/exception-escaped", "an exception escaped from the real Tubs while running a schedule: %r" % (e,),
                         replay=dict(tb=traceback.format_exc()))
                continue
            w.stop()
            traces.append(groups)
            ctx.hist("trace_reentrant_lookups", min(w.reentered, 3))
            kinds = [g[2][0] for g in groups]
            established = any(row[0] >= 0 for g in groups for row in g[1][:2])
            eventful = any(k in ("cut", "restart", "timeout", "armretry", "lookupbad") for k in kinds) or \
                any(3 in row[4:] for g in groups for row in g[1][2:])
            ctx.case([[g[0] for g in groups]], nontrivial=established and eventful)
            ctx.hist("trace_len", n)
            ctx.hist("trace_style", style)
            for k in kinds:
                ctx.hist("trace_op", k)
    with quiet():
        try:
            fixed = impl.scripted_traces()
        except Exception as e:
            import traceback
            ctx.fail("oracle/exception-escaped", "an exception escaped from the real Tubs while running a scripted schedule: %r" % (e,),
                     replay=dict(tb=traceback.format_exc()))
            fixed = []
    ctx.extra["model_witness_displaced_on_real_tubs"] = repr(impl.WITNESS_DISPLACED)
    for groups in fixed:
        ctx.case([[g[0] for g in groups]], nontrivial=True)
        ctx.hist("trace_style", "scripted")
    traces = fixed + traces
    if traces:
        ctx.sample(dict(kind="trace", ops=[g[0] for g in traces[0]][:12]))
    nbad = 0
    B = 50
    for b0 in range(0, len(traces), B):
        chunk = traces[b0:b0 + B]
        lines = []
        for groups in chunk:
            ops = [o for g in groups for o in g[0]]
            lines.append(coq_list([coq_op(o) for o in ops]))
        body = HASHDEF + "Eval vm_compute in map (trace_h init) " + coq_list(lines) + ".\n"
        try:
            (vals,) = ctx.coq_eval("C14_tr_%d" % (b0 // B), body, requires=REQ)
        except common.CoqEvalError as e:
            ctx.fail("correspondence-broken", "the model could not be evaluated: " + str(e)[-1500:], has_input=False)
            return
        for groups, hs in zip(chunk, vals):
            ctx.traces += 1
            pos = -1
            for gi, (ops, obs, desc) in enumerate(groups):
                pos += len(ops)
                if hs[pos] != hobs(obs):
                    nbad += 1
                    if nbad <= 2:
                        report_trace_mismatch(ctx, groups, gi)
                    break
    ctx.extra["trace_count"] = len(traces)
    ctx.extra["trace_disagreements"] = nbad


def report_trace_mismatch(ctx, groups, gi):
    ops = [o for g in groups[:gi + 1] for o in g[0]]
    body = "Eval vm_compute in obs (fold_left hstep %s init).\n" % coq_list([coq_op(o) for o in ops])
    try:
        (mobs,) = ctx.coq_eval("C14_tr_diag", body, requires=REQ)
    except common.CoqEvalError as e:
        mobs = "model evaluation failed: " + str(e)[-500:]
    ctx.fail("correspondence/trace", "model (lib/Converge.v) and the real Tubs disagree after step %d (%r) of a schedule: "
             "real state %r, model state %r; schedule so far %r" % (gi, groups[gi][2], groups[gi][1], mobs, [g[0] for g in groups[:gi + 1]]),
             replay=dict(ops=[g[0] for g in groups[:gi + 1]], real=groups[gi][1], model=mobs), has_input=False)


# ------------------------------------------------------------------------------------------------
LREQ = ["Verif.lib.PyLite", "Verif.gen.ConvergeGen", "Verif.lib.ConvergeLayers"]


def correspond_layers(ctx, impl, model_ok):
    """lib/ConvergeLayers.v against the real code.
    (a) offers: real Negotiation objects of one real Tub, created for 2-3 targets (the peer over several hints, a third
        Tub with another / no history) and asked for their hello in every interleaving of a random script; ORACLE (with
        input): every hello carries the last-connection record of ITS OWN target; correspondence: = the model's o_out.
    (b) prestart: k lookups queued before startService, the start, late lookups, everything delivered: which Deferreds
        fired = the model's p_fired (the oracle for this path is the prestart family of run_all)."""
    from harness.implenv import quiet
    rng = ctx.rng
    irs = {"none": 0, "irAAAA": 1, "irBBBB": 2, "irCCCC": 3}
    scripts = [([("new", 0), ("new", 1), ("send", 0), ("send", 1)], {0: ("irAAAA", 3)}),
               ([("new", 0), ("new", 0), ("new", 1), ("send", 1), ("send", 0), ("send", 1)], {0: ("irAAAA", 2), 1: ("irBBBB", 7)}),
               ([("new", 1), ("new", 0), ("send", 1), ("new", 2), ("send", 0), ("send", 2)], {0: ("irCCCC", 1)})]
    for i in range(ctx.n(40, 600)):
        nt = rng.randint(2, 3)
        recs = {t: (rng.choice(["irAAAA", "irBBBB", "irCCCC"]), rng.randint(1, 9)) for t in range(nt) if rng.random() < 0.6}
        evs, made = [], 0
        for j in range(rng.randint(3, 9)):
            if made == 0 or rng.random() < 0.45:
                evs.append(("new", rng.randrange(nt)))
                made += 1
            else:
                evs.append(("send", rng.randrange(made)))
        scripts.append((evs, recs))
    lines, reals = [], []
    for evs, recs in scripts:
        with quiet():
            try:
                out = impl.offers_case(evs, recs)
            except Exception as e:
                import traceback
                ctx.fail("oracle/exception-escaped", "driving real Negotiation objects %r raised %r" % (evs, e),
                         replay=dict(events=evs, records=recs, tb=traceback.format_exc()))
                continue
        ctx.case(["offers", evs, sorted(recs.items())], nontrivial=len({e[1] for e in evs if e[0] == "new"}) > 1)
        ctx.hist("layer", "offers")
        tgts = [e[1] for e in evs if e[0] == "new"]
        for (n, got) in out:
            want = recs.get(tgts[n], ("none", 0))
            if got != want:
                ctx.fail("oracle/hello-carries-another-targets-record",
                         "one Tub, outbound negotiations set up for targets %r (slave_table records %r): the hello of negotiation #%d "
                         "(target %d) carries last-connection %r, the record of its own target is %r; script %r"
                         % (tgts, recs, n, tgts[n], got, want, evs), replay=dict(events=evs, records=recs, sent=out))
                break
        reals.append([[n, irs.get(g[0], 9), g[1]] if g else [n, -1, -1] for (n, g) in out])
        nt = max(tgts) + 1
        rec = "(fun t => nth t %s (0, 0)%%Z)" % coq_list(["(%s, %s)" % (coq_Z(irs[recs[t][0]]), coq_Z(recs[t][1])) if t in recs
                                                          else "(0%Z, 0%Z)" for t in range(nt)])
        cevs = coq_list([("ONew %d" % e[1]) if e[0] == "new" else ("OSend %d" % e[1]) for e in evs])
        lines.append("map (fun p => [Z.of_nat (fst p); fst (snd p); snd (snd p)]) (o_out (orun offer_dict_fresh %s %s))" % (rec, cevs))
    # (b)
    pcases, preal = [], []
    for who in ("M", "S"):
        for k in (1, 2, 3, 4):
            for late in (0, 1):
                with quiet():
                    try:
                        counts, detail = impl.prestart_relay_case(who, k, late)
                    except Exception as e:
                        import traceback
                        ctx.fail("oracle/exception-escaped", "prestart relay case %r raised %r" % ((who, k, late), e),
                                 replay=dict(case=(who, k, late), tb=traceback.format_exc()))
                        continue
                ctx.case(["prestart-relay", who, k, late], nontrivial=k > 1)
                ctx.hist("layer", "prestart")
                pcases.append((who, k, late))
                preal.append(counts)
    if not model_ok:
        return
    try:
        vals = ctx.coq_eval("C14_layers_offers", "\n".join("Eval vm_compute in %s." % l for l in lines) + "\n", requires=LREQ) if lines else []
        plines = []
        for (who, k, late) in pcases:
            evs = ["PGet"] * k + ["PStart"] + ["PGet"] * late + ["PAnswer %d" % i for i in range(k + late)]
            plines.append("(let s := prun relay_binds_own_deferred %s in map (fun o => if nin o (p_fired s) then 1 else 0)%%Z (seq 0 (p_no s)))"
                          % coq_list(evs))
        pvals = ctx.coq_eval("C14_layers_prestart", "\n".join("Eval vm_compute in %s." % l for l in plines) + "\n", requires=LREQ) if plines else []
    except common.CoqEvalError as e:
        ctx.fail("correspondence-broken", "lib/ConvergeLayers.v could not be evaluated: " + str(e)[-1500:], has_input=False)
        return
    nbad = 0
    for (evs, recs), real, mv in zip(scripts, reals, vals):
        ctx.traces += 1
        if [list(r) for r in real] != [list(m) for m in mv]:
            nbad += 1
            if nbad <= 2:
                ctx.fail("correspondence/offers", "model (lib/ConvergeLayers.v, offers) and the real Negotiation objects disagree on script %r "
                         "with records %r: real hellos %r, model %r" % (evs, recs, real, mv),
                         replay=dict(events=evs, records=recs, real=real, model=mv), has_input=False)
    for case, real, mv in zip(pcases, preal, pvals):
        ctx.traces += 1
        if list(real) != list(mv):
            nbad += 1
            if nbad <= 4:
                ctx.fail("correspondence/prestart-relay", "model (lib/ConvergeLayers.v, prestart) and the real Tub disagree on (who, queued, "
                         "late)=%r: each caller's Deferred fired %r times on the real Tub, the model says %r" % (case, real, mv),
                         replay=dict(case=case, real=real, model=mv), has_input=False)
    ctx.extra["layer_cases"] = len(scripts) + len(pcases)
    ctx.extra["layer_disagreements"] = nbad


# ------------------------------------------------------------------------------------------------
RREQ = ["Verif.lib.PyLite", "Verif.gen.ConvergeGen", "Verif.lib.Converge", "Verif.lib.ConvergeRef"]
NOTE_BLACK_HOLE = "lookup pending on a black-holed established connection"


def second_leg(ctx, impl, model_ok):
    """Tub.getReference = Broker lookup + b.getYourReferenceByName over the new Broker.  The connection is established, then
    silently dropped.  ORACLE (with input): once the dialler's end is told of the loss the getReference fires exactly once,
    with DeadReferenceError, and the request table is empty.  NOTE (not a failure; the property's 'within the connection
    timeout' is about connection establishment): while nobody is told, it stays pending.  CORRESPONDENCE: the composed
    model's run ConvergeRef.silent_pops (S dials) says the same as the real Tubs at both moments."""
    from harness.implenv import quiet
    cases = [(d, st, h) for d in ("S", "M") for st in ("dialer", "both") for h in (1, 2)]
    pending_seen = 0
    real = {}
    for (d, st, h) in cases:
        with quiet():
            try:
                f = impl.second_leg_case(d, st, h)
            except Exception as e:
                import traceback
                ctx.fail("oracle/exception-escaped", "second-leg case %r raised %r" % ((d, st, h), e),
                         replay=dict(case=(d, st, h), tb=traceback.format_exc()))
                continue
        ctx.case(["second-leg", d, st, h], nontrivial=True)
        ctx.hist("oracle_kind", "second-leg")
        if "harness" in f:
            ctx.fail("oracle/no-connection-without-faults", "second-leg case %r: %s" % ((d, st, h), f["harness"]), replay=f)
            continue
        real[(d, st, h)] = f
        if not f["fired_while_silent"]:
            pending_seen += 1
        elif len(f["fired_while_silent"]) > 1:
            ctx.fail("oracle/lookup", "a getReference of %s fired %d times on a silently dropped connection: %r"
                     % (d, len(f["fired_while_silent"]), f["fired_while_silent"]), replay=f)
            continue
        after = f["fired_after_notification"]
        if len(after) != 1 or f["requests_after"] or f["dialer_broker_after"]:
            ctx.fail("oracle/lookup-pending-after-connection-lost",
                     "%s called getReference (%d hints); blocks were delivered until %s held a Broker (requests pending on it: %r); the "
                     "network then dropped the link silently and %d s passed (fired meanwhile: %r); then %s's end was told "
                     "(connectionLost): the getReference Deferred fired %d times (%r), requests still in the table %r, Broker still "
                     "registered: %r -- it must fire exactly once when the connection is lost"
                     % (d, h, "it" if st == "dialer" else "both Tubs", f["requests_before"], f["waited"], f["fired_while_silent"], d,
                        len(after), after, f["requests_after"], f["dialer_broker_after"]), replay=f)
        elif after != ["DeadReferenceError"] and not f["fired_while_silent"]:
            ctx.fail("oracle/lookup-lost-connection-not-DeadReferenceError",
                     "%s's getReference on a lost connection failed with %r instead of DeadReferenceError (case %r)" % (d, after, (d, st, h)),
                     replay=f)
    if pending_seen:
        f = next(v for v in real.values() if not v["fired_while_silent"])
        ctx.note("%s: in %d of %d cases the getReference Deferred was still pending %d virtual seconds after the network silently "
                 "dropped an established connection (no FIN/RST; timers left: %r; Tub.disconnectTimeout is None by default, the "
                 "keepalive timer only writes a PING); it fired (DeadReferenceError) as soon as the end was told. Known limitation, "
                 "not a failure: C14_every_getReference_fires_within_timeout_refuted / C14_second_leg_fires_iff_answer_or_loss"
                 % (NOTE_BLACK_HOLE, pending_seen, len(cases), f["waited"], f["timers"]))
    ctx.extra["second_leg_cases"] = len(cases)
    ctx.extra["second_leg_pending_while_silent"] = pending_seen
    if not model_ok:
        return
    # correspondence: the composed model on the schedule of real case (S, both, 1)
    f = real.get(("S", "both", 1))
    if f is None:
        return
    why = "(Requests.RListed RequestsGen.ConnectionLostC)"
    dts = coq_list([coq_Z(impl.SECOND_LEG_STEP)] * impl.SECOND_LEG_ROUNDS)
    body = ("Definition bcode (b : bool) : Z := if b then 1%%Z else 0%%Z.\n"
            "Definition look (l : list pop) := ([bcode (live TS 0 (pnet l)); bcode (live TM 0 (pnet l)); now (pnet l); "
            "optnat_code (t_broker (ts (pnet l)))], Requests.snapshot (broker_requests TS 0 l)).\n"
            "Eval vm_compute in look (silent_pops %s %s).\n"
            "Eval vm_compute in look (silent_pops %s %s ++ [PNet (CloseSeen 0 TS) %s; PWire Requests.Turn]).\n" % (why, dts, why, dts, why))
    try:
        m1, m2 = ctx.coq_eval("C14_second_leg", body, requires=RREQ + ["Verif.gen.RequestsGen"])
    except common.CoqEvalError as e:
        ctx.fail("correspondence-broken", "lib/ConvergeRef.v could not be evaluated: " + str(e)[-1500:], has_input=False)
        return
    ctx.traces += 1

    def canon(m):
        (flags, (table, fires, (disc, evq, raised))) = m
        return dict(dialer_broker=bool(flags[0]), peer_broker=bool(flags[1]), now=flags[2], registered=flags[3] >= 0,
                    requests=list(table), fired=[list(x) for x in fires], disconnected=bool(disc))
    code = {"ok": 1, "DeadReferenceError": 4}
    r1 = dict(dialer_broker=f["dialer_broker_silent"], peer_broker=f["peer_broker_silent"], now=f["waited"],
              registered=f["dialer_broker_silent"], requests=f["requests_silent"],
              fired=[[code.get(k, 9) for k in f["fired_while_silent"]]], disconnected=f["disconnected_silent"])
    r2 = dict(dialer_broker=f["dialer_broker_after"], peer_broker=f["peer_broker_silent"], now=f["waited"],
              registered=f["dialer_broker_after"], requests=f["requests_after"],
              fired=[[code.get(k, 9) for k in f["fired_after_notification"]]], disconnected=f["disconnected_after"])
    for tag, r, m in (("silent", r1, canon(m1)), ("notified", r2, canon(m2))):
        if r != m:
            ctx.fail("correspondence/second-leg", "composed model (lib/ConvergeRef.v) and the real Tubs disagree on the black-holed "
                     "getReference (%s): real %r, model %r" % (tag, r, m), replay=dict(real=r, model=m, facts=f), has_input=False)
