"""C03: drives real Broker pairs (and real Tubs) and records the abstract request-table trace.

Nothing in /repo is edited: PendingRequest.__init__/complete/fail, broker.eventually and three methods of
the calling Broker instance are wrapped for the duration of one scenario and restored afterwards.
"""
import contextlib
from twisted.internet import defer
from twisted.python import failure
from twisted.internet.error import ConnectionDone, ConnectionLost

from harness import implenv as E
from harness.implenv import quiet, Referenceable
from foolscap import broker as broker_mod, call as call_mod, slicer
from foolscap.referenceable import TubRef
from foolscap.ipb import DeadReferenceError
from foolscap.tokens import Violation
from foolscap.api import RemoteInterface
from foolscap.remoteinterface import RemoteInterfaceRegistry

# outcome codes, same numbering as Requests.ocode
O_RESULT, O_REMOTE, O_VIOL, O_DEAD, O_SEND, O_LOCAL, O_OTHER = 1, 2, 3, 4, 5, 6, 7
ONAME = {1: "OResult", 2: "ORemoteError", 3: "OViolation", 4: "ODeadRef", 5: "OSendFail", 6: "OLocal", 7: "OOther"}


# ------------------------------------------------------------------ reasons a connection can end with
# The specification the oracle judges against is written out here and NOT read from foolscap.broker: "all connection-lost
# errors are mapped to DeadReferenceError" = ConnectionLost, ConnectionDone, OpenSSL's SSL.Error and every subclass of them;
# any other reason handed to shutdown()/connectionLost() reaches the caller unchanged.
def _lost_bases():
    from twisted.internet import error
    out = [("ConnectionLostC", error.ConnectionLost), ("ConnectionDoneC", error.ConnectionDone)]
    try:
        from OpenSSL import SSL
        out.append(("SSLErrorC", SSL.Error))
    except ImportError:
        pass
    return out


LOST_BASES = _lost_bases()


class AdHocLost(LOST_BASES[0][1]):
    """a transport-specific subclass, e.g. ConnectionResetByPeer"""


class AdHocDone(LOST_BASES[1][1]):
    pass


class AdHocDeep(AdHocLost):
    """subclass of a subclass"""


class AdHocUnrelated(Exception):
    pass


def _family():
    """name -> (class, kind, base name);  kind in listed / sub / unrelated"""
    import inspect
    from twisted.internet import error
    fam = {}
    for bname, base in LOST_BASES:
        fam[base.__name__ if bname != "SSLErrorC" else "SSL.Error"] = (base, "listed", bname)
    mods = [error]
    try:
        from OpenSSL import SSL
        mods.append(SSL)

        class AdHocSSL(SSL.Error):
            pass
        fam["AdHocSSL"] = (AdHocSSL, "sub", "SSLErrorC")
    except ImportError:
        pass
    for m in mods:
        for n, c in sorted(vars(m).items()):
            if inspect.isclass(c) and issubclass(c, BaseException):
                for bname, base in LOST_BASES:
                    if issubclass(c, base) and c is not base:
                        try:
                            c()
                        except Exception:
                            continue
                        fam.setdefault(("SSL." if m is not error else "") + n, (c, "sub", bname))
                        break
    fam["AdHocLost"] = (AdHocLost, "sub", "ConnectionLostC")
    fam["AdHocDone"] = (AdHocDone, "sub", "ConnectionDoneC")
    fam["AdHocDeep"] = (AdHocDeep, "sub", "ConnectionLostC")
    for c in (RuntimeError, ValueError, KeyError, error.ConnectionRefusedError, error.TimeoutError, error.ConnectError,
              error.ConnectionClosed, AdHocUnrelated):
        if not any(issubclass(c, b) for _, b in LOST_BASES):
            fam[c.__name__] = (c, "unrelated", None)
    return fam


REASONS = _family()
REASON_NAMES = sorted(REASONS)


def reason_failure(name):
    return failure.Failure(REASONS[name][0]())


def classify_reason(why):
    """-> (kind, base) of an arbitrary Failure, by the written-out specification (issubclass, independent of the code)"""
    t = why.type
    for bname, base in LOST_BASES:
        if t is base:
            return ("listed", bname)
    for bname, base in LOST_BASES:
        if isinstance(t, type) and issubclass(t, base):
            return ("sub", bname)
    return ("unrelated", None)


def delivered(f):
    """what the caller can tell apart on the real Deferred without knowing the context: the CLASS of what was delivered.
    callback -> 1; the remote failure (a CopiedFailure, or RemoteException wrapping one) -> 2, whatever class name it
    carries (a remote Violation / DeadReferenceError IS the remote failure); local Violation -> 3; DeadReferenceError -> 4;
    anything else -> 7.  The model's OViolation / OSendFail / OLocal are all delivered as foolscap.tokens.Violation
    (they differ by the path that produced them, which the operation label records): lib/Requests.v `ocode` modulo that."""
    if f is None:
        return O_OTHER
    from foolscap.tokens import RemoteException
    if isinstance(f, call_mod.CopiedFailure) or f.check(RemoteException):
        return O_REMOTE
    if f.check(DeadReferenceError):
        return O_DEAD
    if f.check(Violation):
        return O_VIOL
    return O_OTHER


def copied_failure():
    """what ErrorUnslicer.receiveClose hands to request.fail(): the shadow of a remote Failure"""
    cf = call_mod.CopiedFailure()
    cf.setCopyableState(dict(type=b"builtins.ValueError", value=b"remote", traceback=b"Traceback unavailable\n",
                             parents=[b"builtins.ValueError", b"builtins.Exception"]))
    return cf


class QT:
    """transport that only accumulates what was written"""

    def __init__(self):
        self.out = bytearray()
        self.closed = False
        self.marks = []          # offsets at which a write ended (token boundaries)

    def write(self, d):
        if not self.closed:
            self.out += d
            self.marks.append(len(self.out))

    def loseConnection(self, why=None):
        self.closed = True

    def getPeer(self):
        return broker_mod.LoopbackAddress()

    def getHost(self):
        return broker_mod.LoopbackAddress()


class Unsendable:
    pass


class Stall(slicer.BaseSlicer):
    """an argument whose serialization pauses on a Deferred (streaming slicer)"""
    opentype = ('list',)

    def __init__(self):
        self.d = defer.Deferred()

    def sliceBody(self, streamable, banana):
        yield 1
        yield self.d
        yield 2


class T(Referenceable):
    def __init__(self):
        self.pending = []

    def remote_ok(self, x):
        return x

    def remote_boom(self):
        raise ValueError("boom")

    def remote_late(self):
        d = defer.Deferred()
        self.pending.append(d)
        return d

    def remote_badresult(self):
        return Unsendable()

    def remote_typed(self, a):
        return a

    def remote_text(self):
        return "some text that is not an int"


class TI(Referenceable):
    """declares RIC03b: the CALLEE checks the arguments against it"""

    def remote_short(self, a):
        return len(a)


try:
    from foolscap.schema import ByteStringConstraint as _BSC

    class RIC03b(RemoteInterface):
        def short(a=_BSC(10)):
            return int
except Exception:
    RIC03b = RemoteInterfaceRegistry["RIC03b"]
from zope.interface import implementer as _implementer
TI = _implementer(RIC03b)(TI)


try:
    class RIC03(RemoteInterface):
        def typed(a=int):
            return int

        def text():
            return int
except Exception:      # registered twice (module reloaded)
    RIC03 = RemoteInterfaceRegistry["RIC03"]


# ------------------------------------------------------------------ recorder
class Recorder:
    """abstract trace of the calling broker A: list of (op, snapshot)"""

    def __init__(self, A):
        self.A = A
        self.trace = []          # [ [op, snap] ]
        self.open = []           # indices of events whose snapshot is not taken yet
        self.handle = {}         # id(req) -> handle
        self.keep = []           # keeps every PendingRequest alive (ids stay unique)
        self.fires = []          # per handle: outcome codes observed on the Deferred
        self.window = None       # handle being issued
        self.window_added = False
        self.evq = []            # handles queued through eventually(req.fail, ..)
        self.raised = 0
        self.lookup = {}         # handle -> (reqID, event count at lookup, kind of unslicer)
        self.in_turn = None
        self.errors = []         # harness-level inconsistencies
        self.foreigns = []       # harness callables handed to the eventual queue
        self.is_twoway = []      # per handle
        self.fire_types = []     # per handle: exception class of every errback (None for a callback)
        self.fire_cls = []       # per handle: delivered(...) of every firing: the class code compared with the models
        self.finish_why = None   # the Failure given to the finish() that disconnected the broker
        self.via_turn = []       # handles failed by a queued abandonAllRequests entry
        self.data_sig = None
        self.data_snap = None
        self.in_data = False     # inside A.dataReceived: what happens there is what the byte-level model has to predict
        self.joint = []          # ("op", trace index) / ("data", bytes, snapshot, connectionAbandoned): the caller's history
                                 # with every dataReceived as ONE item (lib/AnswerRecv.v: jop)

    # -- snapshots
    def snap(self):
        A = self.A
        return (list(A.waitingForAnswers.keys()), [list(f) for f in self.fire_cls], bool(A.disconnected),
                list(self.evq), self.raised)

    def begin(self, op):
        self.flush_open()
        self.trace.append([op, None])
        self.open.append(len(self.trace) - 1)
        if not self.in_data and RECORD_JOINT:
            self.joint.append(("op", len(self.trace) - 1))
        return len(self.trace) - 1

    def tasters(self):
        """per handle: the taster table of the real result constraint of the PendingRequest (None: no constraint / no request)"""
        out = [None] * len(self.fires)
        for r in self.keep:
            c = getattr(r, "constraint", None)
            if c is not None:
                out[self.handle[id(r)]] = sorted((t[0] if isinstance(t, bytes) else int(t), lim)
                                                 for t, lim in getattr(c, "taster", {}).items())
        return out

    def joint_trace(self):
        """-> list of ("op", op, flat snapshot) / ("data", bytes, flat snapshot, abandoned)"""
        out = []
        for it in self.joint:
            if it[0] == "op":
                op, snap = self.trace[it[1]]
                out.append(("op", tuple(op), snap))
            else:
                out.append(it)
        return out

    def flush_open(self):
        if self.open:
            s = self.snap()
            for i in self.open:
                if self.trace[i][1] is None:
                    self.trace[i][1] = s
            self.open = []

    def end(self, idx):
        if self.trace[idx][1] is None:
            self.trace[idx][1] = self.snap()
        if idx in self.open:
            self.open.remove(idx)

    # -- other users of the process-wide eventual-send queue
    def foreign(self, raises):
        """a callable for eventually() / notifyOnDisconnect(): recorded as `Enqueue raises` when it is queued (by the wrapper
        of broker.eventually) and as `Turn` when it runs; then it raises or not"""
        rec = self
        code = -4 if raises else -3

        def cb(*a, **kw):
            if not rec.evq or rec.evq[0] != code:
                rec.errors.append("queued callable ran out of order: %r vs queue %r" % (code, rec.evq))
            else:
                rec.evq.pop(0)
            idx = rec.begin(("Turn", None))
            rec.end(idx)
            cb.ran += 1
            if raises:
                raise RuntimeError("a callable in the eventual-send queue raises")
        cb._c03_foreign = raises
        cb.ran = 0
        self.foreigns.append(cb)
        return cb

    def enqueue(self, raises):
        broker_mod.eventually(self.foreign(raises))

    # -- issuing calls
    def issue(self, twoway, thunk):
        idx = self.begin(None)
        h = len(self.fires)
        self.fires.append([])
        self.fire_types.append([])
        self.fire_cls.append([])
        self.is_twoway.append(twoway)
        self.window, self.window_added = h, False
        try:
            d = thunk()
        finally:
            self.window = None
        if twoway:
            kind = "KTwoWay" if self.window_added else "KLocalReject"
            if not any(r.deferred is d for r in self.keep):
                self.watch(d, h)
            d.addErrback(lambda f: None)
        else:
            kind = "KOneWay"
        self.trace[idx][0] = ("Call", kind)
        self.end(idx)
        return h

    def watch(self, d, h):
        """record every firing of an already created Deferred (maybeDeferred's) without consuming the result"""
        fl, ft, fc = self.fires[h], self.fire_types[h], self.fire_cls[h]

        def cb(r):
            fl.append(O_RESULT)
            ft.append(None)
            fc.append(O_RESULT)
            return r

        def eb(f):
            fl.append(classify(f))
            ft.append(f.type)
            fc.append(delivered(f))
            return f
        d.addCallbacks(cb, eb)

    def watch_attempts(self, d, h):
        """record every *invocation* of d.callback / d.errback (a second one would raise AlreadyCalledError inside
        Twisted and would otherwise be invisible), at the moment it happens"""
        fl, ft, fc = self.fires[h], self.fire_types[h], self.fire_cls[h]
        o_cb, o_eb = d.callback, d.errback

        def callback(res):
            fl.append(O_RESULT)
            ft.append(None)
            fc.append(O_RESULT)
            return o_cb(res)

        def errback(f=None):
            fl.append(classify(f) if f is not None else O_OTHER)
            ft.append(f.type if f is not None else None)
            fc.append(delivered(f))
            return o_eb(f)
        d.callback, d.errback = callback, errback


def classify(f):
    if f.check(DeadReferenceError):
        return O_DEAD
    if f.check(Violation):
        return O_VIOL
    return O_OTHER


RECORD_JOINT = True      # record the byte-level history (every dataReceived with its snapshot) of the next scenario


@contextlib.contextmanager
def recording(A):
    rec = Recorder(A)
    joint_on = RECORD_JOINT
    PR = call_mod.PendingRequest
    o_init, o_complete, o_fail = PR.__init__, PR.complete, PR.fail
    o_eventually = broker_mod.eventually
    o_add, o_get, o_finish = A.addRequest, A.getRequest, A.finish
    o_data = A.dataReceived

    def dataReceived(chunk):
        if not joint_on:
            return o_data(chunk)
        rec.flush_open()
        nested = rec.in_data
        rec.in_data = True
        try:
            return o_data(chunk)
        finally:
            if not nested:
                rec.in_data = False
                rec.flush_open()
                # cheap signature of the snapshot: within dataReceived entries only leave the table and firings only grow
                sig = (tuple(A.waitingForAnswers), sum(map(len, rec.fires)), bool(A.disconnected), len(rec.evq), rec.raised,
                       len(rec.trace))
                if sig != rec.data_sig:
                    rec.data_sig = sig
                    rec.data_snap = rec.snap()
                rec.joint.append(("data", bytes(chunk), rec.data_snap, bool(A.connectionAbandoned)))

    def init(self, reqID, *a, **kw):
        o_init(self, reqID, *a, **kw)
        if rec.window is not None and id(self) not in rec.handle and not any(r is self for r in rec.keep):
            if rec.window in rec.handle.values():
                rec.errors.append("two PendingRequests created by one callRemote")
                return
            rec.handle[id(self)] = rec.window
            rec.keep.append(self)
            rec.watch_attempts(self.deferred, rec.window)
            if not rec.is_twoway[rec.window]:
                self.deferred.addErrback(lambda f: None)

    def which(self):
        h = rec.handle.get(id(self))
        if h is not None and any(r is self for r in rec.keep):
            return h
        return None

    def complete(self, res):
        h = which(self)
        if h is None:
            return o_complete(self, res)
        lk = rec.lookup.get(h)
        if lk and lk[1] == len(rec.trace) and lk[2] == "AnswerUnslicer":
            op = ("Answer", lk[0])
        else:
            op = ("Complete", h)
        idx = rec.begin(op)
        try:
            return o_complete(self, res)
        except KeyError:
            rec.raised += 1
            raise
        finally:
            rec.end(idx)

    def fail(self, why):
        h = which(self)
        if h is None:
            return o_fail(self, why)
        lk = rec.lookup.get(h)
        if rec.in_turn == h:
            op = ("Turn", h)
            rec.in_turn = None
            if not rec.evq or rec.evq[0] != h:
                rec.errors.append("queued fail ran out of order: %r vs queue %r" % (h, rec.evq))
            else:
                rec.evq.pop(0)
        elif lk and lk[1] == len(rec.trace) and lk[2] in ("AnswerUnslicer", "ErrorUnslicer") and delivered(why) == O_VIOL:
            # reportViolation of either unslicer: a LOCAL Violation while the answer / the error is being received (a remote
            # Violation arriving as the CopiedFailure of an error sequence is the remote failure, below)
            op = ("AnswerViolation", lk[0])
        elif lk and lk[1] == len(rec.trace) and lk[2] == "ErrorUnslicer":
            op = ("Error", lk[0])
        else:
            op = ("Fail", h, {O_DEAD: O_DEAD, O_VIOL: O_SEND, O_REMOTE: O_REMOTE, O_OTHER: O_OTHER}[delivered(why)])
        idx = rec.begin(op)
        n0 = len(rec.fires[h])
        try:
            return o_fail(self, why)
        except KeyError:
            rec.raised += 1
            raise
        finally:
            if op[0] == "Turn" and len(rec.fires[h]) > n0:
                rec.via_turn.append(h)      # this request was really retired by abandonAllRequests
            rec.end(idx)

    def eventually(cb, *a, **kw):
        me = getattr(cb, "__self__", None)
        if isinstance(me, PR) and getattr(cb, "__name__", "") == "fail" and which(me) is not None:
            h = which(me)
            rec.evq.append(h)

            def run(*a2, **kw2):
                rec.in_turn = h
                try:
                    return cb(*a2, **kw2)
                finally:
                    rec.in_turn = None
            return o_eventually(run, *a, **kw)
        if hasattr(cb, "_c03_foreign"):
            idx = rec.begin(("Enqueue", bool(cb._c03_foreign)))
            rec.evq.append(-4 if cb._c03_foreign else -3)
            try:
                return o_eventually(cb, *a, **kw)
            finally:
                rec.end(idx)
        return o_eventually(cb, *a, **kw)

    def addRequest(req):
        if rec.window is not None and which(req) == rec.window:
            rec.window_added = True
        else:
            rec.errors.append("addRequest outside a callRemote window")
        return o_add(req)

    def getRequest(reqID):
        import sys
        caller = sys._getframe(1).f_locals.get("self")
        kind = type(caller).__name__
        try:
            req = o_get(reqID)
        except Violation:
            # lookup of an id that is not in the table: the model must agree (op is a no-op there)
            idx = rec.begin(("Error" if kind == "ErrorUnslicer" else "Answer", reqID))
            rec.end(idx)
            raise
        h = which(req)
        if h is not None:
            rec.lookup[h] = (reqID, len(rec.trace), kind)
        return req

    def finish(why):
        kind, base = classify_reason(why)
        if not A.disconnected and rec.finish_why is None:
            rec.finish_why = why
        idx = rec.begin(("Finish", kind, base))
        try:
            return o_finish(why)
        finally:
            rec.end(idx)

    complete.__name__ = "complete"
    fail.__name__ = "fail"
    PR.__init__, PR.complete, PR.fail = init, complete, fail
    broker_mod.eventually = eventually
    A.addRequest, A.getRequest, A.finish = addRequest, getRequest, finish
    A.dataReceived = dataReceived
    try:
        yield rec
    finally:
        PR.__init__, PR.complete, PR.fail = o_init, o_complete, o_fail
        broker_mod.eventually = o_eventually
        for n in ("addRequest", "getRequest", "finish", "dataReceived"):
            try:
                delattr(A, n)
            except AttributeError:
                pass
        rec.flush_open()


# ------------------------------------------------------------------ broker pair
def make_pair(reset=True, keepalive=None, disconnect=None):
    if reset:
        E.reset_clock()
    # keepalive / disconnect: the Tub options keepaliveTimeout / disconnectTimeout as Tub.brokerAttached-time parameters
    A = broker_mod.Broker(TubRef("callee"), keepaliveTimeout=keepalive, disconnectTimeout=disconnect)
    B = broker_mod.Broker(TubRef("caller"))
    tA, tB = QT(), QT()
    A.transport, B.transport = tA, tB
    A.connectionMade()
    B.connectionMade()
    t = T()
    tr = B.getTrackerForMyReference(t.processUniqueID(), t)
    tr.send()
    rr = A.getTrackerForYourReference(tr.clid, None).getRef()
    t2 = T()
    tr2 = B.getTrackerForMyReference(t2.processUniqueID(), t2)
    tr2.send()
    rr_typed = A.getTrackerForYourReference(tr2.clid, "RIC03").getRef()
    t3 = TI()
    tr3 = B.getTrackerForMyReference(t3.processUniqueID(), t3)
    tr3.send()
    rr.rr3 = A.getTrackerForYourReference(tr3.clid, None).getRef()      # no interface on the caller's side
    return A, B, tA, tB, t, t2, rr, rr_typed


# kind -> (twoway, description); the thunk is built in `thunk_for`
CALL_KINDS = ["ok", "boom", "late", "unsendable_arg", "badresult", "oneway", "big", "nomethod",
              "local_reject", "result_violation", "stall", "oneway_unsendable", "typed_ok", "mixed_dict",
              "bytes_rejected", "float_rejected", "longint_rejected", "arg_rejected", "list_rejected",
              "obj_tuple_short", "obj_bytes_short", "obj_list_short"]


def thunk_for(kind, rr, rr_typed, stalls):
    # tokens that the receiver's constraint rejects (STRING / FLOAT / LONGINT bodies must then be skipped exactly)
    if kind == "bytes_rejected":
        from foolscap.schema import ByteStringConstraint
        return True, lambda: rr.callRemote("ok", b"q" * 40, _resultConstraint=ByteStringConstraint(10))
    if kind == "float_rejected":
        return True, lambda: rr.callRemote("ok", 1.5, _resultConstraint=int)
    if kind == "longint_rejected":
        from foolscap.schema import IntegerConstraint
        return True, lambda: rr.callRemote("ok", 2 ** 200, _resultConstraint=IntegerConstraint(maxBytes=4))
    if kind == "list_rejected":
        return True, lambda: rr.callRemote("ok", [b"a" * 30, b"b" * 30], _resultConstraint=int)
    if kind == "arg_rejected":          # rejected by the CALLEE's schema while the call is being received
        r3 = getattr(rr, "rr3", None) or rr
        return True, lambda: r3.callRemote("short", a=b"y" * 40)
    # results that pass every per-token check of the caller's result constraint but not its whole-object check
    if kind == "obj_tuple_short":
        from foolscap.schema import TupleOf
        return True, lambda: rr.callRemote("ok", (1,), _resultConstraint=TupleOf(int, int))
    if kind == "obj_bytes_short":
        from foolscap.schema import ByteStringConstraint
        return True, lambda: rr.callRemote("ok", b"bbb", _resultConstraint=ByteStringConstraint(10, minLength=5))
    if kind == "obj_list_short":
        from foolscap.schema import ListOf
        return True, lambda: rr.callRemote("ok", [1], _resultConstraint=ListOf(int, 5, minLength=2))
    if kind == "ok":
        return True, lambda: rr.callRemote("ok", [1, 2, 3])
    if kind == "boom":
        return True, lambda: rr.callRemote("boom")
    if kind == "late":
        return True, lambda: rr.callRemote("late")
    if kind == "unsendable_arg":
        return True, lambda: rr.callRemote("ok", Unsendable())
    if kind == "badresult":
        return True, lambda: rr.callRemote("badresult")
    if kind == "oneway":
        return False, lambda: rr.callRemoteOnly("ok", 5)
    if kind == "oneway_unsendable":
        return False, lambda: rr.callRemoteOnly("ok", Unsendable())
    if kind == "big":
        return True, lambda: rr.callRemote("ok", b"x" * 50)
    if kind == "nomethod":
        return True, lambda: rr.callRemote("nosuchmethod", 1)
    if kind == "local_reject":
        return True, lambda: rr_typed.callRemote("typed", a="not an int")
    if kind == "typed_ok":
        return True, lambda: rr_typed.callRemote("typed", a=12)
    if kind == "result_violation":
        return True, lambda: rr_typed.callRemote("text")
    if kind == "mixed_dict":      # regression witness of the repaired D4 (dict with unorderable keys)
        return True, lambda: rr.callRemote("ok", {1: 2, 'a': 3})
    if kind == "stall":
        def f():
            s = Stall()
            stalls.append(s)
            return rr.callRemote("ok", s)
        return True, f
    raise KeyError(kind)


LOSS_MODES = ["lost", "lost-A-only", "shutdown-then-lost", "shutdown-other-then-data", "timeout", "lost-twice",
              "garbage-then-lost", "silence", "silence-ping"]
# ways of ending in which FOOLSCAP decides that the connection is gone and chooses the reason itself (nobody hands it a
# Failure): the inactivity timer.  "timeout" calls Broker.connectionTimedOut directly, "silence" / "silence-ping" create the
# caller's Broker with disconnectTimeout (and keepaliveTimeout) and let the peer say nothing while the virtual clock runs,
# so the whole chain Banana.disconnectTimerFired -> connectionTimedOut -> shutdown -> finish runs.  Whatever reason foolscap
# picks there, "the connection is gone": every outstanding callRemote must get DeadReferenceError.
SELF_ENDED = {"timeout": None, "silence": (None, 30), "silence-ping": (10, 30)}
# traffic in the OTHER direction (the calling Broker is also a callee): what B sends to an object of A right before the
# connection ends, and how far that got when it ends
REVERSE_DELIVER = ["queued", "partial", "ran", "ran-then-queued", "unsent"]


def scenario(calls, cutA, cutB, chunkA=7, chunkB=7, loss="lost", stall_release="after", after_calls=("ok", "oneway"),
             reason=None, probe=None, bystanders=(), other=None, reverse=None, timers=None):
    """A = caller, B = callee.  Issue `calls`, deliver at most cutA bytes A->B and cutB bytes B->A in the given
    chunk sizes (alternating), then lose the connection in mode `loss`; afterwards the callee's late Deferreds fire,
    stalled arguments are released / failed and `after_calls` are issued on the dead reference.
    `reverse` = dict(calls=[kinds], deliver=one of REVERSE_DELIVER): after the pump, B issues these calls on an object of A;
    "queued": all their bytes (and whatever of B's stream was still undelivered) reach A in the SAME reactor turn in which
    the connection ends (parsed, waiting in inboundDeliveryQueue, doNextCall has not run); "partial": all but the last 3
    bytes; "ran": delivered and the eventual queue turned (the methods ran, late ones hang, answers were written and
    delivered); "ran-then-queued": the calls are issued twice, first batch ran, second batch queued; "unsent": never delivered.
    `timers` = dict(ka=keepaliveTimeout or None, dt=disconnectTimeout or None, pre=[seconds..], mid=[seconds..]): the caller's
    Broker is created with these Tub options; the virtual clock advances by the `pre` amounts after the traffic and before the
    ending begins, and by the `mid` amounts between the first and the second step of a two-step ending (after the garbage
    that abandons the connection / after shutdown / after connectionTimedOut / between the two reports of lost-twice) -- the
    transport takes that long to close.  foolscap's own timers (keepalive PINGs, the disconnect timer) fire in between.
    -> dict(trace, fires, twoway, waiting, totalA, totalB, errors)"""
    ka, dt = SELF_ENDED.get(loss) or (None, None)
    if timers and loss not in ("silence", "silence-ping"):
        ka, dt = timers.get("ka"), timers.get("dt")

    def tick(which):
        for a in (timers or {}).get(which, ()):
            E.clock.advance(a)
            E.turn()
    A, B, tA, tB, t, t2, rr, rr_typed = make_pair(keepalive=ka, disconnect=dt)
    stalls = []
    twoway = []
    RW = Watch()
    ta = None
    # `other`: a second, independent connection X in the same process (same eventual queue) with calls outstanding and
    # possibly a notifyOnDisconnect handler; it is lost in the same reactor turn as A, before or after it
    X = None
    if other:
        XA, XB, xtA, xtB, xt, xt2, xrr, xrr_typed = make_pair(reset=False)
        X = dict(A=XA, B=XB, watch=Watch(), cfg=other)
    with recording(A) as rec:
        if X:
            for k in other.get("calls", ("late", "ok")):
                tw, th = thunk_for(k, xrr, xrr_typed, stalls)
                d = th()
                if tw:
                    X["watch"].add(d)
            if other.get("watcher"):
                XA.notifyOnDisconnect(rec.foreign(other["watcher"] == "raise"))
        for wkind in [b[1] for b in bystanders if b[0] == "watcher"]:
            A.notifyOnDisconnect(rec.foreign(wkind == "raise"))

        def issue(kind):
            tw, th = thunk_for(kind, rr, rr_typed, stalls)
            rec.issue(tw, th)
            twoway.append(tw)
        for k in calls:
            issue(k)
        E.turn()
        if stall_release == "before":
            for s in stalls:
                if not s.d.called:
                    s.d.callback(None)
            E.turn()
        elif stall_release == "fail-before":
            for s in stalls:
                if not s.d.called:
                    s.d.errback(failure.Failure(RuntimeError("slicer failed")))
            E.turn()
        sent = [0, 0]
        nch = [0, 0]

        def size(spec, i):
            # an int = fixed chunk size; a list = that schedule of sizes, then everything that is left in one piece
            if isinstance(spec, (list, tuple)):
                return spec[i] if i < len(spec) else 10 ** 9
            return spec

        def pump(cA, cB, specA, specB):
            progress = True
            while progress:
                progress = False
                lim = min(cA, len(tA.out))
                if sent[0] < lim:
                    n = max(1, min(size(specA, nch[0]), lim - sent[0]))
                    nch[0] += 1
                    B.dataReceived(bytes(tA.out[sent[0]:sent[0] + n]))
                    sent[0] += n
                    progress = True
                    E.turn()
                lim = min(cB, len(tB.out))
                if sent[1] < lim:
                    n = max(1, min(size(specB, nch[1]), lim - sent[1]))
                    nch[1] += 1
                    A.dataReceived(bytes(tB.out[sent[1]:sent[1] + n]))
                    sent[1] += n
                    progress = True
                    E.turn()
        pump(cutA, cutB, chunkA, chunkB)
        sentA, sentB = sent
        totalA, totalB = len(tA.out), len(tB.out)
        if probe and sentA == totalA and sentB == totalB:
            # the connection is still up and everything was delivered: it must still be usable
            for k in probe:
                issue(k)
            E.turn()
            pump(10 ** 9, 10 ** 9, 10 ** 9, 10 ** 9)
            sentA, sentB = sent
        delivered_all = (sentA == len(tA.out) and sentB == len(tB.out))
        # what every caller has seen while the connection is still up
        pre_fires = [list(f) for f in rec.fires]
        pre_types = [[getattr(x, "__name__", None) for x in ft] for ft in rec.fire_types]
        if reverse:
            ta = T()
            tra = A.getTrackerForMyReference(ta.processUniqueID(), ta)
            tra.send()
            rra = B.getTrackerForYourReference(tra.clid, None).getRef()

            def batch():
                for k in reverse["calls"]:
                    tw, th = thunk_for(k, rra, rra, stalls)
                    d = th()
                    if tw:
                        RW.add(d)
                E.turn()
            mode = reverse.get("deliver", "queued")
            batch()
            if mode in ("ran", "ran-then-queued"):
                pump(10 ** 9, 10 ** 9, 10 ** 9, 10 ** 9)      # B's stream arrives, the calls run, A's answers go back
                if mode == "ran-then-queued":
                    batch()
            if mode in ("queued", "partial", "ran-then-queued"):
                upto = len(tB.out) - (3 if mode == "partial" else 0)
                if sent[1] < upto:
                    A.dataReceived(bytes(tB.out[sent[1]:upto]))      # and NO turn of the eventual queue before the end
                    sent[1] = upto
            sentA, sentB = sent
        done = failure.Failure(ConnectionDone())
        # `why` is the reason of the event that ends the connection for the caller: any member of REASONS
        if reason is None:
            reason = {"lost-A-only": "ConnectionLost", "shutdown-then-lost": "ConnectionLost",
                      "shutdown-other-then-data": "RuntimeError"}.get(loss, "ConnectionDone")
        why = reason_failure(reason)
        tick("pre")
        for when, kind in bystanders:
            if when == "before-loss":
                rec.enqueue(kind == "raise")
        if X and other.get("order", "first") == "first":
            X["A"].connectionLost(failure.Failure(ConnectionLost()))
            X["B"].connectionLost(done)
        if loss == "lost":
            A.connectionLost(why)
            B.connectionLost(done)
        elif loss == "lost-A-only":
            A.connectionLost(why)
        elif loss == "lost-twice":
            A.connectionLost(why)
            tick("mid")
            A.finish(done)
            B.connectionLost(done)
        elif loss == "shutdown-then-lost":
            A.shutdown(why)
            tick("mid")
            A.connectionLost(done)
            B.connectionLost(done)
        elif loss == "timeout":
            A.connectionTimedOut()
            tick("mid")
            A.connectionLost(done)
            B.connectionLost(done)
        elif loss in ("silence", "silence-ping"):
            # the peer says nothing any more; the virtual clock passes the inactivity limit several times over
            for i in range(4):
                E.clock.advance(dt + 1)
            if not A.disconnected or not tA.closed:
                rec.errors.append("protocol violation: silent peer, but the disconnect timer did not drop the connection")
            A.connectionLost(done)
            B.connectionLost(done)
        elif loss == "garbage-then-lost":
            # the peer sends a protocol violation (over-long header, witness of the repaired D2): the caller must drop
            # the connection by itself -- no exception may escape dataReceived -- and then sees connectionLost
            A.dataReceived(b"\x00" * 370)
            if not tA.closed and sentB in (0, len(tB.out)):      # only at a token boundary is it certainly a violation
                rec.errors.append("protocol violation did not make the broker close its transport")
            tick("mid")
            A.connectionLost(why)
            B.connectionLost(done)
        elif loss == "shutdown-other-then-data":
            # local shutdown with a reason that is not a lost connection; whatever the peer had already sent
            # is still delivered before the queued failures run
            A.shutdown(why)
            rest = bytes(tB.out[sentB:])
            if rest:
                A.dataReceived(rest)
            tick("mid")
            A.connectionLost(done)
            B.connectionLost(done)
        else:
            raise KeyError(loss)
        if X and other.get("order", "first") != "first":
            X["A"].connectionLost(failure.Failure(ConnectionLost()))
            X["B"].connectionLost(done)
        for when, kind in bystanders:
            if when == "after-loss":
                rec.enqueue(kind == "raise")
        E.turn()
        for d in t.pending + t2.pending + (ta.pending if ta else []):
            if not d.called:
                d.callback("late-result")
        for s in stalls:
            if not s.d.called:
                if stall_release == "fail-after":
                    s.d.errback(failure.Failure(RuntimeError("slicer failed")))
                else:
                    s.d.callback(None)
        E.turn()
        for k in after_calls:
            issue(k)
        E.turn()
        if reverse and not B.disconnected:
            B.connectionLost(done)          # (lost-A-only: the callee hears of it at last)
            E.turn()
        rec.flush_open()
        waiting = list(A.waitingForAnswers.keys())
    return dict(trace=rec.trace, fires=rec.fires, twoway=twoway, waiting=waiting, totalA=totalA, totalB=totalB,
                self_ended=loss in SELF_ENDED, reverse_fires=[list(f) for f in RW.fires],
                reverse_waiting=list(B.waitingForAnswers.keys()) if reverse else [],
                errors=rec.errors, evq=list(rec.evq), raised=rec.raised, marksA=list(tA.marks), marksB=list(tB.marks),
                fire_types=rec.fire_types, via_turn=list(rec.via_turn), finish_why=rec.finish_why,
                pre_fires=pre_fires, pre_types=pre_types, delivered_all=delivered_all,
                foreign_ran=[(bool(c._c03_foreign), c.ran) for c in rec.foreigns],
                other_fires=[list(f) for f in X["watch"].fires] if X else [],
                other_waiting=list(X["A"].waitingForAnswers.keys()) if X else [],
                joint=rec.joint_trace(), tasters=rec.tasters(), max_index=(A.rootUnslicer.maxIndexLength, max_copyable_name()),
                vocab=dict(A.incomingVocabulary), registries=registries(A))


def max_copyable_name():
    from foolscap import copyable
    return max(len(n) for n in copyable.CopyableRegistry.keys())


def registries(A):
    """-> (one-token opentypes of the real open registries, names of the real CopyableRegistry), as byte strings"""
    from foolscap import copyable
    known = sorted({k[0].encode() for reg in A.rootUnslicer.openRegistries for k in reg.keys() if len(k) == 1})
    return known, sorted(n.encode() for n in copyable.CopyableRegistry.keys())


# ---- handcrafted answer streams: the rare clauses of the receive path (ABORT / CLOSE in the index phase, two results, CLOSE
# without a result, error closed early, wrong CLOSE count, primitives / unknown sequences at top level, NEG as request id,
# VOCAB without a table, PING in the middle), each followed by a well-formed answer for the second request
def _edge_streams():
    O = lambda n: [n, 0x88]
    C = lambda n: [n, 0x89]
    AB = lambda n: [n, 0x8a]
    I = lambda n: [n, 0x81]
    S = lambda b: [len(b), 0x82] + list(b)
    ans = lambda oc, rid, body: O(oc) + S(b"answer") + I(rid) + body + C(oc)
    tail = ans(2, 2, I(7))
    return {
        "abort_in_index": O(0) + S(b"answer") + I(1) + O(1) + AB(1) + C(1) + C(0) + tail,
        "close_in_index": O(0) + S(b"answer") + I(1) + O(1) + C(1) + C(0) + tail,
        "abort_before_id": O(0) + S(b"answer") + AB(0) + C(0) + tail,
        "abort_in_child": O(0) + S(b"answer") + I(1) + O(1) + S(b"list") + I(3) + AB(1) + I(4) + C(1) + C(0) + tail,
        "two_results": O(0) + S(b"answer") + I(1) + I(5) + I(6) + C(0) + tail,
        "close_without_result": O(0) + S(b"answer") + I(1) + C(0) + tail,
        "error_close_early": O(0) + S(b"error") + I(1) + C(0) + tail,
        "unknown_opentype": O(0) + S(b"answer") + I(1) + O(1) + S(b"nosuch") + I(3) + C(1) + C(0) + tail,
        "unknown_copyable": O(0) + S(b"answer") + I(1) + O(1) + S(b"copyable") + S(b"no.such.Class") + I(3) + C(1) + C(0) + tail,
        "wrong_close_count": O(0) + S(b"answer") + I(1) + I(5) + C(3) + tail,
        "toplevel_int": I(5) + tail,
        "unknown_top": O(0) + S(b"bogus") + I(1) + O(1) + S(b"list") + C(1) + C(0) + tail,
        "neg_reqid": O(0) + S(b"answer") + [1, 0x83] + I(5) + C(0) + tail,
        "vocab_token": O(0) + [3, 0x87] + I(1) + I(5) + C(0) + tail,
        "ping_mid": O(0) + S(b"answer") + [0x8e] + I(1) + [5, 0x8e] + I(5) + C(0) + tail,
        "unknown_id_then_known": ans(0, 9, I(5)) + ans(1, 1, O(3) + S(b"list") + I(1) + O(4) + S(b"list") + C(4) + C(3)) + tail,
        "nested_wrong_count": O(0) + S(b"answer") + I(1) + O(1) + S(b"list") + I(3) + C(0) + tail,
        "long_index_token": O(0) + S(b"answer") + I(1) + O(1) + S(b"x" * 40) + C(1) + C(0) + tail,
        "int_as_index_token": O(0) + S(b"answer") + I(1) + O(1) + I(4) + C(1) + C(0) + tail,
    }


EDGE_STREAMS = _edge_streams()


def edge_scenario(name, chunk):
    """two pending callRemotes, then the handcrafted byte stream `name` delivered to the caller in chunks of `chunk` bytes,
    then connectionLost.  -> the same dictionary as scenario()"""
    A, B, tA, tB, t, t2, rr, rr_typed = make_pair()
    bs = bytes(EDGE_STREAMS[name])
    twoway = []
    with recording(A) as rec:
        for i in range(2):
            tw, th = thunk_for("late", rr, rr_typed, [])
            rec.issue(tw, th)
            twoway.append(tw)
        E.turn()
        for i in range(0, len(bs), chunk):
            A.dataReceived(bs[i:i + chunk])
            E.turn()
        pre_fires = [list(f) for f in rec.fires]
        A.connectionLost(failure.Failure(ConnectionDone()))
        E.turn()
        rec.flush_open()
        waiting = list(A.waitingForAnswers.keys())
    return dict(trace=rec.trace, fires=rec.fires, twoway=twoway, waiting=waiting, errors=rec.errors, evq=list(rec.evq),
                raised=rec.raised, fire_types=rec.fire_types, via_turn=list(rec.via_turn), finish_why=rec.finish_why,
                pre_fires=pre_fires, joint=rec.joint_trace(), tasters=rec.tasters(),
                max_index=(A.rootUnslicer.maxIndexLength, max_copyable_name()), vocab=dict(A.incomingVocabulary),
                registries=registries(A))


RETURNS = ("ok", "big", "typed_ok", "mixed_dict")


def judge_full(calls, r):
    """a run in which everything was delivered before the connection ended: calls whose method simply returns must have
    fired with the result (not with DeadReferenceError at the end)"""
    if "stall" in calls:
        return None
    for h, k in enumerate(calls):
        if k in RETURNS and r["fires"][h] != [O_RESULT]:
            return "result-not-delivered", "call #%d (%s) fired %r although its answer was fully delivered" % (
                h, k, [ONAME.get(c, c) for c in r["fires"][h]])
    return None


def judge(r):
    """the property, on what the real code did: -> None or (signature suffix, text)"""
    for h, (tw, f) in enumerate(zip(r["twoway"], r["fires"])):
        if len(f) > 1:
            return "fired-twice", "call #%d fired %d times: %s" % (h, len(f), [ONAME.get(c, c) for c in f])
        if tw and len(f) == 0:
            return "never-fired", "callRemote #%d never fired although the connection is gone" % h
    if r["waiting"]:
        return "table-not-empty", "waitingForAnswers still holds %r after connection loss and quiescence" % (r["waiting"],)
    if r["evq"]:
        return "queued-fail-never-ran", "entries of the eventual-send queue never ran (handles; -3/-4 = other callables): %r" % (r["evq"],)
    for i, f in enumerate(r.get("other_fires", [])):
        if len(f) != 1:
            return ("other-connection-never-fired" if not f else "fired-twice",
                    "callRemote #%d on a second connection that was lost in the same turn fired %d times" % (i, len(f)))
    if r.get("other_waiting"):
        return "table-not-empty", "the second connection's waitingForAnswers still holds %r" % (r["other_waiting"],)
    for i, f in enumerate(r.get("reverse_fires", [])):
        if len(f) != 1:
            return ("reverse-call-never-fired" if not f else "fired-twice",
                    "callRemote #%d made by the PEER on an object of the calling Broker right before the connection ended "
                    "fired %d times" % (i, len(f)))
    if r.get("reverse_waiting"):
        return "table-not-empty", "the peer's waitingForAnswers still holds %r" % (r["reverse_waiting"],)
    # the permitted outcomes are: the result, the remote failure, a Violation, DeadReferenceError (or the serialization error
    # of the call's own arguments).  A transport-level "connection lost" exception must never reach a caller as such,
    # whichever path retires the request (abandonAllRequests, the send queue, a Deferred chained in _callRemote ...)
    for h, ft in enumerate(r.get("fire_types", [])):
        for t in ft:
            if isinstance(t, type) and any(issubclass(t, b) for _, b in LOST_BASES):
                return ("raw-connection-error-reaches-caller",
                        "callRemote #%d errbacked with the transport's %s instead of DeadReferenceError (its request was "
                        "retired by something other than abandonAllRequests' mapping of lost-connection reasons)"
                        % (h, t.__name__))
    for raises, ran in r.get("foreign_ran", []):
        if ran != 1:
            return "eventual-callable-not-run-once", "a %s callable handed to eventually()/notifyOnDisconnect ran %d times" % (
                "raising" if raises else "well-behaved", ran)
    return judge_reason(r)


def judge_reason(r):
    """requests abandoned by finish(why): DeadReferenceError for every lost-connection reason (listed classes and all their
    subclasses), the unchanged reason otherwise"""
    why = r.get("finish_why")
    if why is None:
        return None
    kind, base = classify_reason(why)
    for h in r["via_turn"]:
        ft = r["fire_types"][h]
        if len(ft) != 1:
            continue
        got = ft[0]
        if r.get("self_ended"):
            # nobody handed foolscap a reason: its own inactivity timer decided that the connection is gone
            if got is not DeadReferenceError:
                return ("timed-out-connection-not-DeadReferenceError",
                        "the connection was dropped by foolscap's own inactivity timer (Broker.connectionTimedOut, which "
                        "chose the reason %s itself) but the pending callRemote #%d errbacked with %s instead of "
                        "DeadReferenceError" % (why.type.__name__, h, getattr(got, "__name__", got)))
        elif kind in ("listed", "sub"):
            if got is not DeadReferenceError:
                return ("lost-reason-not-DeadReferenceError",
                        "the connection ended with %s (%s of %s, a lost-connection reason) but the pending callRemote #%d "
                        "errbacked with %s instead of DeadReferenceError"
                        % (why.type.__name__, "subclass" if kind == "sub" else "exactly", base[:-1], h,
                           getattr(got, "__name__", got)))
        elif got is not why.type:
            return ("other-reason-not-passed-through",
                    "the connection was shut down with %s (not a lost-connection reason) but the pending callRemote #%d "
                    "errbacked with %s" % (why.type.__name__, h, getattr(got, "__name__", got)))
    return None


# ------------------------------------------------------------------ API-level random op sequences
def api_sequence(ops):
    """Executes an abstract op list directly against a real Broker / real PendingRequests:
       ("Call", kind) -> callRemote / callRemoteOnly;  ("Answer", rid) / ("Error", rid) / ("AnswerViolation", rid) ->
       what the unslicers do (getRequest then complete / fail);  ("Complete", h) / ("Fail", h, o) on the request
       object;  ("Finish", reason name);  ("Turn",) runs the oldest queued eventual-send.
       -> (trace actually recorded, fires, final table)"""
    A, B, tA, tB, t, t2, rr, rr_typed = make_pair()
    q = E.ev._theSimpleQueue
    stalls = []
    with recording(A) as rec:
        for op in ops:
            if op[0] == "Call":
                kind = {"KTwoWay": "ok", "KOneWay": "oneway", "KLocalReject": "local_reject"}[op[1]]
                tw, th = thunk_for(kind, rr, rr_typed, stalls)
                rec.issue(tw, th)
            elif op[0] in ("Answer", "Error", "AnswerViolation"):
                # mimic AnswerUnslicer / ErrorUnslicer: receiveChild(reqID) then receiveClose / reportViolation
                class AnswerUnslicer:
                    def go(self, rid):
                        return A.getRequest(rid)

                class ErrorUnslicer(AnswerUnslicer):
                    def go(self, rid):
                        return A.getRequest(rid)
                u = ErrorUnslicer() if op[0] == "Error" else AnswerUnslicer()
                try:
                    req = u.go(op[1])
                except Violation:
                    req = None
                if req is not None:
                    try:
                        if op[0] == "Answer":
                            req.complete("result")
                        elif op[0] == "Error":
                            req.fail(copied_failure())
                        else:
                            req.fail(failure.Failure(Violation("in inbound method results")))
                    except Exception:       # the real callers are Deferred chains / the eventual queue: they log it
                        pass
            elif op[0] in ("Complete", "Fail"):
                h = op[1]
                # a PendingRequest that was created and then abandoned by _callRemote before commitment point 1
                # (two-way id but never registered) is garbage in the real program: nobody can invoke it
                reqs = [r for r in rec.keep if rec.handle[id(r)] == h and (r.broker is not None or not rec.is_twoway[h])]
                if not reqs:
                    # no PendingRequest object exists for this handle (dead / rejected call): nothing to invoke;
                    # the model treats the op as a no-op on an inactive record -- record it as such
                    idx = rec.begin(op)
                    rec.end(idx)
                    continue
                try:
                    if op[0] == "Complete":
                        reqs[0].complete("late result")
                    else:
                        exc = {O_DEAD: DeadReferenceError("late"), O_SEND: Violation("cannot serialize")}.get(
                            op[2], RuntimeError("late failure"))
                        reqs[0].fail(copied_failure() if op[2] == O_REMOTE else failure.Failure(exc))
                except Exception:
                    pass
            elif op[0] == "Enqueue":
                rec.enqueue(bool(op[1]))
            elif op[0] == "Finish":
                why = reason_failure(op[1])
                if len(rec.trace) % 2:
                    A.finish(why)
                else:
                    A.shutdown(why)
            elif op[0] == "Turn":
                # run queued events up to and including the first queued req.fail of a recorded request
                n0 = len(rec.evq)
                ran = False
                while q._events:
                    cb, a, kw = q._events.pop(0)
                    try:
                        cb(*a, **kw)
                    except Exception:
                        pass
                    if len(rec.evq) < n0:
                        ran = True
                        break
                if not ran:
                    idx = rec.begin(("Turn", None))
                    rec.end(idx)
            else:
                raise KeyError(op)
        rec.flush_open()
        waiting = list(A.waitingForAnswers.keys())
    return dict(trace=rec.trace, fires=rec.fires, waiting=waiting, errors=rec.errors, evq=list(rec.evq), raised=rec.raised,
                fire_types=rec.fire_types, via_turn=list(rec.via_turn), finish_why=rec.finish_why)


# ------------------------------------------------------------------ real Tubs on the in-memory network
class Watch:
    def __init__(self):
        self.fires = []

    def add(self, d):
        f = []
        self.fires.append(f)
        d.addCallbacks(lambda r: f.append(O_RESULT), lambda x: f.append(classify(x)))


def tub_scenario(rng, event, nsteps, log_remote=False, mix=("ok", "boom", "late", "unsendable_arg", "oneway", "big", "late"),
                 watchers=None):
    """two real Tubs, real negotiation; calls in both directions; after `nsteps` random delivery steps `event` happens.
    -> (problem or None, details)"""
    from harness.implenv import Net, make_tub, pems_sorted
    E.reset_clock()
    net = Net()
    (ida, pa), (idb, pb_) = pems_sorted(2)
    A = make_tub(net, "a", pa)
    B = make_tub(net, "b", pb_)
    if log_remote:
        A.setOption("logRemoteFailures", True)
        B.setOption("logRemoteFailures", True)
    ta, tb = T(), T()
    fa, fb = A.registerReference(ta), B.registerReference(tb)
    got = {}
    A.getReference(fb).addBoth(lambda r: got.__setitem__("a", r))
    E.turn()
    net.run()
    B.getReference(fa).addBoth(lambda r: got.__setitem__("b", r))
    E.turn()
    net.run()
    if not (hasattr(got.get("a"), "callRemote") and hasattr(got.get("b"), "callRemote")):
        return "setup", "could not connect: %r" % (got,)
    rrb, rra = got["a"], got["b"]        # A holds rrb (object of B), B holds rra
    w = Watch()
    stalls = []
    ran = []
    if watchers:
        # application handlers for the loss of the connection, on both Tubs; "raise": they raise
        def handler(tag):
            ran.append(tag)
            if watchers == "raise":
                raise RuntimeError("notifyOnDisconnect handler raises")
        rrb.notifyOnDisconnect(handler, "a")
        rra.notifyOnDisconnect(handler, "b")
    for rr in (rrb, rra):
        for k in mix:
            tw, th = thunk_for(k, rr, rr, stalls)
            d = th()
            if tw:
                w.add(d)
    E.turn()
    brokers = set(A.brokers.values()) | set(B.brokers.values())
    for i in range(nsteps):
        c = net.deliverable()
        if not c:
            break
        net.step(rng.choice(c), rng.choice([1, 5, 20, 200, None]))
    if event == "stop-a":
        A.stopService()
    elif event == "stop-b":
        B.stopService()
    elif event == "cut":
        for l in list(net.links):
            l.cut()
    elif event == "replace":
        # A's end dies silently (B is not told); A dials again, B has to replace its old connection
        for l in list(net.links):
            for e in l.ends:
                mine = (l.client_tub is A and e.side == 0) or (l.server_tub is A and e.side == 1)
                if mine and not e.lost:
                    e.lost = True
                    e.closed = True
                    e.protocol.connectionLost(reason_failure(rng.choice(REASON_NAMES)))
        E.turn()
        A.getReference(fb).addBoth(lambda r: got.__setitem__("a2", r))
    elif event == "none":
        pass
    else:
        raise KeyError(event)
    E.turn()
    for rnd in range(4):
        net.run(rng=rng)
        brokers |= set(A.brokers.values()) | set(B.brokers.values())
        for d in ta.pending + tb.pending:
            if not d.called:
                d.callback("late")
        E.turn()
        net.run(rng=rng)
        E.clock.advance(130)
        E.turn()
    if event in ("none", "replace"):
        # whatever is still connected is now taken down
        brokers |= set(A.brokers.values()) | set(B.brokers.values())
        A.stopService()
        B.stopService()
        E.turn()
        net.run(rng=rng)
        E.turn()
    else:
        for t in (A, B):
            if t.running:
                t.stopService()
        E.turn()
        net.run(rng=rng)
        E.turn()
    for i, f in enumerate(w.fires):
        if len(f) != 1:
            return ("fired-twice" if len(f) > 1 else "never-fired"), \
                "call #%d (of %s, both directions) fired %d times" % (i, list(mix), len(f))
    for b in brokers:
        if b.waitingForAnswers:
            return "table-not-empty", "a broker still has %r pending after everything was shut down" % (list(b.waitingForAnswers),)
    return None, [f[0] for f in w.fires]


class GiftTarget(Referenceable):
    def remote_hello(self):
        return "hello"


class GiftTaker(T):
    def remote_one(self, gift):
        return gift.callRemote("hello")


GIFT_FOLLOWERS = [["ok"], ["ok", "ok"], ["ok", "ok", "ok"], ["boom", "ok", "late", "ok"], ["oneway", "ok", "big", "unsendable_arg", "ok"]]


def gift_scenario(rng, followers, event, nsteps, second_gift_at=None):
    """three real Tubs: the caller holds references to objects of B and of C and sends C a call whose argument is its reference
    to B's object (a third-party reference: C has to connect to B before the argument is usable, the delivery waits on its
    ready_deferred), then `followers` more calls that arrive while it waits (optionally one of them carries a gift too).
    `event`: "none" = everything stays up: every call must be answered;  "cut" / "stop-c" after nsteps random delivery steps:
    every call must still fire exactly once.  -> (problem or None, details)"""
    from harness.implenv import Net, make_tub, pems_sorted
    E.reset_clock()
    net = Net()
    ps = pems_sorted(3)
    A = make_tub(net, "a", ps[0][1])
    B = make_tub(net, "b", ps[1][1])
    Cc = make_tub(net, "c", ps[2][1])
    taker = GiftTaker()
    fb, fc = B.registerReference(GiftTarget()), Cc.registerReference(taker)
    got = {}
    A.getReference(fb).addBoth(lambda r: got.__setitem__("b", r))
    A.getReference(fc).addBoth(lambda r: got.__setitem__("c", r))
    for i in range(3):
        E.turn()
        net.run()
    rb, rc = got.get("b"), got.get("c")
    if not (hasattr(rb, "callRemote") and hasattr(rc, "callRemote")):
        return "setup", "could not connect: %r" % (got,)
    w = Watch()
    kinds = ["gift"]
    w.add(rc.callRemote("one", gift=rb))
    stalls = []
    for i, k in enumerate(followers):
        if second_gift_at is not None and i == second_gift_at:
            w.add(rc.callRemote("one", gift=rb))
            kinds.append("gift")
        tw, th = thunk_for(k, rc, rc, stalls)
        d = th()
        if tw:
            w.add(d)
            kinds.append(k)
    E.turn()
    if event != "none":
        for i in range(nsteps):
            c = net.deliverable()
            if not c:
                break
            net.step(rng.choice(c), rng.choice([1, 5, 20, 200, None]))
        if event == "cut":
            for l in list(net.links):
                l.cut()
        elif event == "stop-c":
            Cc.stopService()
        elif event == "stop-b":
            B.stopService()
        else:
            raise KeyError(event)
    for rnd in range(6):
        net.run(rng=rng)
        E.turn()
        for d in taker.pending:
            if not d.called:
                d.callback("late")
        E.turn()
    healthy = None
    if event == "none":
        # nothing was lost: every call has to be answered by now
        for i, (k, f) in enumerate(zip(kinds, w.fires)):
            if len(f) != 1:
                healthy = ("gift-healthy-connection-" + ("never-fired" if not f else "fired-twice"),
                           "with every connection up, call #%d (%s) of [gift-call%s] fired %d times: a call that arrived while "
                           "an earlier delivery was waiting for its third-party reference was never run / answered"
                           % (i, k, "".join(", " + x for x in followers), len(f)))
                break
            if (k in RETURNS or k == "gift" or k == "late") and f != [O_RESULT]:
                healthy = ("gift-healthy-connection-result-not-delivered",
                           "with every connection up, call #%d (%s) fired %r instead of its result" % (i, k, [ONAME.get(c, c) for c in f]))
                break
    brokers = set(A.brokers.values()) | set(B.brokers.values()) | set(Cc.brokers.values())
    for t in (A, B, Cc):
        if t.running:
            t.stopService()
    E.turn()
    net.run(rng=rng)
    E.turn()
    if healthy:
        return healthy
    for i, f in enumerate(w.fires):
        if len(f) != 1:
            return ("gift-" + ("fired-twice" if len(f) > 1 else "never-fired"),
                    "call #%d (%s) of [gift-call%s] fired %d times after everything was shut down" % (i, kinds[i], "".join(", " + x for x in followers), len(f)))
    for b in brokers:
        if b.waitingForAnswers:
            return "gift-table-not-empty", "a broker still has %r pending after everything was shut down" % (list(b.waitingForAnswers),)
    return None, [f[0] for f in w.fires]


def gift_level(ctx):
    """calls queued behind a delivery that waits for a third-party reference (ready_deferred): 0..5 followers of every kind,
    a second gift among them; everything stays up (all must be answered) or the connection / a Tub goes away meanwhile"""
    import random
    cases = [(f, "none", 0, None) for f in GIFT_FOLLOWERS]
    cases += [(["ok", "ok", "ok", "ok"], "none", 0, 2)]
    for i in range(ctx.n(3, 150)):
        f = [ctx.rng.choice(["ok", "ok", "boom", "late", "oneway", "big", "nomethod"]) for _ in range(ctx.rng.randint(0, 5))]
        ev_ = ctx.rng.choice(["none", "none", "cut", "stop-c", "stop-b"])
        cases.append((f, ev_, ctx.rng.choice([0, 1, 2, 3, 5, 8, 13, 21, 40, 80]),
                      ctx.rng.choice([None, None, ctx.rng.randint(0, len(f))]) if f else None))
    for f, ev_, nsteps, sg in cases:
        seed = ctx.rng.randint(0, 10 ** 9)
        cfg = dict(gift_followers=f, event=ev_, nsteps=nsteps, second_gift_at=sg, seed=seed)
        import gc
        gc.collect()
        try:
            with quiet():
                bad, info = gift_scenario(random.Random(seed), f, ev_, nsteps, sg)
        except Exception as e:
            import traceback
            ctx.fail("oracle/tub-exception", "exception escaped in gift scenario %r: %r" % (cfg, e),
                     replay=dict(cfg=cfg, tb=traceback.format_exc()))
            continue
        if bad == "setup":
            ctx.fail("harness/tub-setup", info, replay=dict(cfg=cfg), has_input=False)
            continue
        if bad:
            ctx.fail("oracle/" + bad, "%s; gift scenario %r" % (info, cfg), replay=dict(cfg=cfg))
        ctx.case(["gift", f, ev_, nsteps, sg, seed], nontrivial=len(f) >= 1)
        ctx.hist("gift_followers", len(f))
        ctx.hist("gift_event", ev_)
    ctx.sample(dict(kind="gift", cfg=cfg))


def tub_level(ctx):
    gift_level(ctx)
    events = ["stop-a", "stop-b", "cut", "replace", "none"]
    n = ctx.n(80, 600)
    for i in range(n):
        ev_ = events[i % len(events)]
        nsteps = ctx.rng.choice([0, 1, 2, 3, 5, 8, 13, 21, 40, 80, 200])
        lr = (i // len(events)) % 2 == 1
        seed = ctx.rng.randint(0, 10 ** 9)
        import random
        wt = [None, "raise", "ok"][(i // (2 * len(events))) % 3] if i >= 2 * len(events) else ("raise" if i < len(events) else None)
        cfg = dict(event=ev_, nsteps=nsteps, logRemoteFailures=lr, seed=seed, watchers=wt)
        import gc
        gc.collect()        # safe point (see harness/c03.py run)
        try:
            with quiet():
                bad, info = tub_scenario(random.Random(seed), ev_, nsteps, lr, watchers=wt)
        except Exception as e:
            import traceback
            ctx.fail("oracle/tub-exception", "exception escaped in Tub-level scenario %r: %r" % (cfg, e),
                     replay=dict(cfg=cfg, tb=traceback.format_exc()))
            continue
        if bad == "setup":
            ctx.fail("harness/tub-setup", info, replay=dict(cfg=cfg), has_input=False)
            continue
        if bad:
            ctx.fail("oracle/tub-" + bad, "%s; Tub-level scenario %r" % (info, cfg), replay=dict(cfg=cfg))
        ctx.case(["tub", ev_, nsteps, lr, seed], nontrivial=bad is None and O_DEAD in info or ev_ == "none")
        ctx.hist("tub_event", ev_)
        ctx.hist("tub_disconnect_handlers", wt)
        if bad is None:
            for c in info:
                ctx.hist("tub_outcome", ONAME.get(c, c))
    ctx.sample(dict(kind="tub-level", cfg=cfg))
