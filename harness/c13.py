"""C13 -- both ends of a negotiation reach the same decision or both fail."""
import itertools, re
from harness import common
from harness.common import coq_list, coq_Z


def run(ctx):
    ctx.rule = ("configurations = (version range, vocab range) for each side within 1..3 / 0..1, both tub-id orders, "
                "real Tub+Negotiation pair on an in-memory network; non-trivial = distinct configuration in which both "
                "sides completed or failed negotiation (not a harness error); every configuration is judged on the Brokers each end CREATED "
                "(recording brokerClass) and on the failure class the dialling end's caller got; hash-mismatch family: the decision's table hash "
                "rewritten in flight for the configurations that offer table 1 x every other configuration x both tub-id orders, dialled by "
                "the decider and by the non-decider in turn (at least 20 must reach the hash comparison) + the fixed witness of "
                "C13_agreement_two_way_refuted; table-contents family: each end holds its OWN foolscap.vocab state (tables 0..2, the "
                "module's dicts switched per receiving end) and changes it BETWEEN negotiations of a history (extend in place, replace, "
                "reorder, shorten, edit one word, put back; one end first, then the other follows) -- fixed histories x both tub-id orders, "
                "judged on the WORDS each created Broker starts with (thorough: random histories and chunked delivery); "
                "plus chunked and malformed-block runs; "
                "damaged-line family: every 'key: value' line of every block of a recorded undamaged attempt x 7 ways of losing the "
                "separator x both tub-id orders (fixed, no random choice), judged on the Brokers each end CREATES; the same blocks "
                "and random headers against Negotiation.parseLines directly")
    ctx.assumptions = ["TLS is replaced by a no-op startTLS and peerFromTransport returns the peer Tub's certificate",
                       "vocab table hashes are computed by the same vocab.py on both sides (hash mismatch is exercised by "
                       "rewriting the decision block in flight AND by giving each end its own module state of foolscap.vocab, switched at "
                       "delivery: negotiation touches the tables only inside dataReceived); sha1 itself is not modelled: the model "
                       "carries the hash as a number and 'matching contents' means equal hashes (the table-contents oracle compares the "
                       "words themselves; test tables that collide in the 16-bit hash are excluded by an assertion)",
                       "a Python str is modelled by its UTF-8 bytes; str.lower() is modelled on ASCII keys (every key the package writes is an "
                       "ASCII literal); int() and str.split() are modelled for ASCII text (the model abstains on other text, counted in "
                       "wire_model_abstains_non_ascii)",
                       "the phase machine abstracts the content of a block to the handler's verdict; that a refusal leaves the Tub's tables "
                       "untouched is checked on the real code only (malformed_with_existing, accept-decision probe)",
                       "the hello keys my-incarnation / last-connection and the decision key current-connection are C14's and not modelled here"]
    ok, log = ctx.coq_build(["props/C13.vo"])
    from harness import c13_impl as impl
    failures_before = len(ctx.failures)
    # 1. implementation sweep + direct oracle
    cases = impl.sweep(ctx)
    # 1b. two ends that really HOLD different / changing tables (each end its own foolscap.vocab state), histories of negotiations
    cases += impl.table_contents(ctx)
    # 2. correspondence with the Coq model (needs at least the model files to build)
    model_ok = True
    wire_ok = ok
    if not ok:
        ok2, log2 = ctx.coq_build(["lib/Negotiate.vo", "lib/NegSplit.vo"])
        model_ok = ok2
        ok3, log3 = ctx.coq_build(["lib/NegWire.vo"])
        wire_ok = ok3
    if model_ok:
        correspond(ctx, cases)
    if wire_ok:
        from harness import c13_codec
        c13_codec.codec(ctx)
        c13_codec.wire(ctx)
        correspond_phases(ctx, cases)
    hostile_decider(ctx, impl)
    # 3. chunkings and malformed blocks (direct oracle)
    impl.chunked(ctx)
    impl.malformed(ctx)
    impl.damaged_lines(ctx)
    impl.coalesced(ctx)
    impl.malformed_with_existing(ctx)
    scases = impl.splitter(ctx)
    if model_ok:
        correspond_split(ctx, scases)
    from harness import c13_codec as _codec
    _codec.parse_oracle(ctx)
    if not ok:
        # a KNOWN finding of the unchanged tree is not 'a failing input found' for the change that broke the proofs
        found = any(f["sig"] != impl.DECIDER_SWITCHED for f in ctx.failures[failures_before:])
        ctx.fail("proof-broken", "the Coq development for C13 no longer builds against the regenerated "
                 "gen/NegotiateGen.v (theorem closure props/C13.vo):\n" + tail(log), replay=dict(log=tail(log, 6000)),
                 has_input=False) if not found else None
        if found:
            ctx.note("proof broken AND a failing input was found (reported above)")


def tail(s, n=2500):
    return s[-n:]


def ep(idn, r, tamper=None, hashes=None):
    # ids: "a" < "b" as code points
    accept = "(fun v => (1 <=? v) && (v <=? 3))%Z"
    h = "(fun i => i * 7)%Z" if tamper != "hash" else "(fun i => i * 7 + 1)%Z"
    if hashes is not None:
        # the end's own tables (table-contents family): the number the published algorithm gives for the contents of each
        h = "(fun i => %s0)%%Z" % "".join("if i =? %d then %d else " % (i, x) for i, x in sorted(hashes.items()))
    return "(Build_endpoint [%d%%Z] %s %s %s %s %s %s)" % (idn, coq_Z(r[0]), coq_Z(r[1]), coq_Z(r[2]), coq_Z(r[3]), h, accept)


def correspond(ctx, cases):
    """cases: list of dict(ra, rb, a_high, tamper, obs = c13_impl.observed (per end: no Broker created / created and connected / created
    and then lost), caller = c13_impl.caller_code (which end dialled, what its caller got)); compared with Negotiate.negotiate:
    outcome of each end AND the failure tag of the dialling end"""
    lines = []
    for c in cases:
        ia, ib = (98, 97) if c["a_high"] else (97, 98)
        # tamper 'hash': the master's hash differs from the slave's (decision rewritten in flight)
        ta = c["tamper"] if c["a_high"] else None
        tb = c["tamper"] if not c["a_high"] else None
        ha, hb = c.get("hashes") or (None, None)
        lines.append("(%s, %s)" % (ep(ia, c["ra"], ta, ha), ep(ib, c["rb"], tb, hb)))
    body = """
Definition code (o : outcome) : list Z :=
  match o with Banana p => [1; p_version p; p_vocab p]%Z | Failed _ => [0]%Z | SwitchedThenLost p => [2; p_version p; p_vocab p]%Z end.
Definition tag (o : outcome) : Z :=
  match o with
  | Banana _ => 0
  | Failed w => if String.eqb w "NegotiationError" then 1 else if String.eqb w "RemoteNegotiationError" then 2 else 9
  | SwitchedThenLost _ => 3
  end%Z.
Definition cases : list (endpoint * endpoint) := """ + coq_list(lines) + """.
Eval vm_compute in map (fun c => let '(oa, ob) := negotiate (fst c) (snd c) in (code oa, code ob, (tag oa, tag ob))) cases.
"""
    try:
        (vals,) = ctx.coq_eval("C13_cases", body, requires=["Verif.lib.PyLite", "Verif.gen.NegotiateGen", "Verif.lib.Negotiate"])
    except common.CoqEvalError as e:
        ctx.fail("correspondence-broken", "the model could not be evaluated: " + str(e)[-1500:], has_input=False)
        return
    nbad = 0

    def exp(o):
        # what an end came to on the real code (c13_impl.observed): no Broker created / Broker created and connected / Broker
        # created, connection lost afterwards
        return [0] if o == ("failed",) else [1, o[1], o[2]] if o[0] == "banana" else [2, o[1], o[2]] if o[0] == "lost" else ["?", repr(o)]
    for c, (ma, mb, (ta, tb)) in zip(cases, vals):
        ia, ib = exp(c["obs"][0]), exp(c["obs"][1])
        a_dialled, got = c["caller"]
        mtag = ta if a_dialled else tb
        ctx.traces += 1
        ctx.hist("correspondence_outcome", "%s/%s caller:%s" % (ma[0], mb[0], got))
        if ia != ma or ib != mb or got != mtag:
            nbad += 1
            if nbad <= 3:
                ctx.fail("correspondence/negotiate", "model and implementation disagree on %r: model %r/%r (caller's end: %r), implementation "
                         "%r/%r (caller got %r) [0 = abandoned without a Broker, 1 v t = switched, 2 v t = switched and then lost the "
                         "connection; caller: 0 call returned, 1 NegotiationError, 2 RemoteNegotiationError, 3 lost connection]"
                         % ({k: c[k] for k in ("ra", "rb", "a_high", "tamper", "history", "step") if k in c}, ma, mb, mtag, ia, ib, got),
                         replay=dict(case={k: c[k] for k in ("ra", "rb", "a_high", "tamper", "history", "step") if k in c}, model=[ma, mb, mtag], impl=[ia, ib, got]),
                         has_input=False)
    ctx.extra["correspondence_cases"] = len(cases)
    ctx.extra["correspondence_disagreements"] = nbad


def correspond_phases(ctx, cases):
    """the phase machine of lib/NegWire.v (dispatch, guard and error report TRANSLATED from dataReceived) against the two real
    Negotiation objects of every sweep configuration: (receive_phase, send_phase, switched?) when the network is quiet"""
    from harness import c13_impl as impl
    rows, meta = [], []
    V = dict(good="VGood", decide="VHelloIDecide", refuse="VHelloIRefuse", wait="VHelloIWait", bad="VBad")
    for c in cases:
        ph = c.get("phases") or []
        if len(ph) != 2:
            continue
        ra, rb = c["ra"], c["rb"]
        vs = set(range(ra[0], ra[1] + 1)) & set(range(rb[0], rb[1] + 1))
        vo = set(range(ra[2], ra[3] + 1)) & set(range(rb[2], rb[3] + 1))
        for (is_client, recv, send, switched, is_a) in ph:
            master = (is_a == c["a_high"])
            if not vs:
                seq, lost = ["good", "bad"], True
            elif master:
                seq, lost = (["good", "decide"], False) if vo else (["good", "refuse"], True)
            else:
                if not vo:
                    seq, lost = ["good", "wait", "bad"], True
                elif c["tamper"] == "hash" and max(vo) > 0:
                    seq, lost = ["good", "wait", "bad"], True
                else:
                    seq, lost = ["good", "wait", "good"], False
            rows.append("(%s, [%s], %s)" % ("true" if is_client else "false", "; ".join(V[x] for x in seq), "true" if lost else "false"))
            meta.append((c, is_client, master, [recv, send, 1 if switched else 0]))
    if not rows:
        return
    body = ("Local Open Scope Z_scope.\nDefinition rows : list (bool * list verdict * bool) := [%s].\n"
            "Eval vm_compute in map (fun r : bool * list verdict * bool => let '(c, vs, lost) := r in let s := run_blocks (init_state c) vs in\n"
            "  firstn 3 (state_code (if lost then on_lost s else s))) rows.\n" % ";\n".join(rows))
    try:
        (vals,) = ctx.coq_eval("C13_phases", body, requires=["Verif.lib.PyLite", "Verif.gen.NegotiateGen", "Verif.lib.Negotiate", "Verif.lib.NegCodec",
                                                             "Verif.gen.NegCodecGen", "Verif.lib.NegSplit", "Verif.lib.NegWire"])
    except common.CoqEvalError as e:
        ctx.fail("correspondence-broken", "the phase machine could not be evaluated: " + str(e)[-1500:], has_input=False)
        return
    nbad = 0
    for (c, is_client, master, obs), m in zip(meta, vals):
        ctx.traces += 1
        ctx.hist("phase_final", "%s/%s: %r" % ("client" if is_client else "server", "decider" if master else "other", obs))
        if m != obs:
            nbad += 1
            if nbad <= 3:
                ctx.fail("correspondence/phases", "phase machine and Negotiation object disagree for %r (%s, %s): model [recv, send, switched] = %r, "
                         "implementation %r" % ({k: c[k] for k in ("ra", "rb", "a_high", "tamper", "history", "step") if k in c}, "client" if is_client else "server",
                                                "decider" if master else "non-decider", m, obs),
                         replay=dict(case={k: c[k] for k in ("ra", "rb", "a_high", "tamper", "history", "step") if k in c}), has_input=False)
    ctx.extra["phase_cases"] = len(meta)
    ctx.extra["phase_disagreements"] = nbad


def hostile_decider(ctx, impl):
    """replay of the witness of C13_slave_checks_own_range_refuted on the real code (recorded observation, DESIGN section 9: harmless
    with a decider that follows the protocol): a decision for version 1 or 2 is accepted by a non-decider whose own range is 3..3."""
    import re as _re
    seen = []
    for v in (1, 2):
        def down(link, side, d, v=v):
            return _re.sub(rb"banana-decision-version: \d+", b"banana-decision-version: %d" % v, d)
        with impl.quiet():
            pa, pb, res = impl.trial((3, 3, 0, 1), (3, 3, 0, 1), True, mangle=down)
        ctx.case(["hostile-decider", v], nontrivial=True)
        seen.append((v, pa, pb))
    if any(pa != pb for (v, pa, pb) in seen):
        ctx.note("observation (not a violation for two endpoints that follow the protocol): a non-decider with version range 3..3 accepts a decision "
                 "for version 1 / 2 -- it checks the decided version only against the accept methods the class has, neither against its own "
                 "range nor against the version it computed from the decider's hello: %r (theorem C13_slave_checks_own_range_refuted)" % (seen,))
    else:
        ctx.note("the non-decider now refuses a decision for a version outside its own range: %r; C13_slave_checks_own_range_refuted "
                 "describes the model only" % (seen,))


def correspond_split(ctx, scases):
    """the Coq splitter model (lib/NegSplit.v) on the same (stream, chunking, k) as the real dataReceived"""
    ok2, _ = ctx.coq_build(["lib/NegSplit.vo"]) if not ctx.build_ok else (True, "")
    if not ok2:
        return
    # the model is evaluated on a budgeted subset (literals of several thousand bytes are slow to parse):
    # per stream the whole-stream chunking and the chunkings with a boundary near the limit, total bytes capped
    budget = 400000 if ctx.tier == "quick" else 6000000
    chosen, spent, per = [], 0, {}
    for c in scases:
        key = (bytes(c[0]), c[2])
        n = per.get(key, 0)
        if n >= 3 or spent + len(c[0]) > budget:
            continue
        if n >= 1 and len(c[1]) > 40:
            continue
        per[key] = n + 1
        spent += len(c[0])
        chosen.append(c)
    scases = chosen
    shard = 120
    nbad = 0
    for si in range(0, len(scases), shard):
        part = scases[si:si + shard]
        lines = []
        for (stream, cs, k, obs, buflen) in part:
            chunks, pos = [], 0
            for n in cs:
                chunks.append("[" + ";".join(str(b) for b in stream[pos:pos + n]) + "]")
                pos += n
            lines.append("(%d%%nat, [%s])" % (k, "; ".join(chunks)))
        body = ("Local Open Scope Z_scope.\n"
                "Definition okh (h : list Z) : bool := match h with 66 :: 65 :: 68 :: _ => false | _ => true end.\n"
                "Definition code (r : nst * list (list Z) * list Z) : (Z * Z * list Z * list Z) :=\n"
                "  let '(s, bs, p) := r in\n"
                "  (match s with NWait b _ => 0 | NPass => 1 | NDead => 2 end,\n"
                "   match s with NWait b _ => Z.of_nat (List.length b) | _ => 0 end,\n"
                "   map (fun b => Z.of_nat (List.length b)) bs ++ flat_map (fun b => firstn 3 b) bs, match s with NDead => [] | _ => p end).\n"
                "Definition cases : list (nat * list (list Z)) := [\n%s].\n"
                "Eval vm_compute in map (fun c => code (nfeed_all okh (NWait [] (fst c)) (snd c))) cases.\n" % ";\n".join(lines))
        try:
            (vals,) = ctx.coq_eval("C13_split_%d" % (si // shard), body,
                                   requires=["Verif.lib.PyLite", "Verif.gen.NegotiateGen", "Verif.lib.NegSplit"])
        except common.CoqEvalError as e:
            ctx.fail("correspondence-broken", "the splitter model could not be evaluated: " + str(e)[-1500:], has_input=False)
            return
        for (stream, cs, k, obs, buflen), (mstate, mbuf, mblocks, mpassed) in zip(part, vals):
            blocks, dead, passed, switched = obs
            istate = 2 if dead else 1 if switched else 0
            iblocks = [len(b) for b in blocks] + [x for b in blocks for x in b[:3]]
            ctx.traces += 1
            if (istate, iblocks, passed) != (mstate, mblocks, mpassed) or (istate == 0 and buflen != mbuf):
                nbad += 1
                if nbad <= 3:
                    ctx.fail("correspondence/splitter", "splitter model and Negotiation.dataReceived disagree: k=%d chunks=%r stream[:40]=%r len=%d: "
                             "impl state %d blocks %r passed %d buf %d; model state %d blocks %r passed %d buf %d"
                             % (k, cs[:20], list(stream[:40]), len(stream), istate, iblocks[:8], len(passed), buflen, mstate, mblocks[:8], len(mpassed), mbuf),
                             replay=dict(stream=list(stream), chunks=cs, k=k), has_input=False)
    ctx.extra["splitter_cases"] = len(scases)
    ctx.extra["splitter_disagreements"] = nbad


def replay(ctx, data):
    """./check C13 --replay F: re-run the recorded configuration on the real Negotiation pair"""
    from harness import c13_impl as impl
    ctx.rule = "replay of one recorded configuration"
    ctx.coq_build(["props/C13.vo"])
    rp = data.get("replay") or {}
    cfg = rp.get("config") or rp.get("cfg") or rp.get("case") or rp
    with impl.quiet():
        if "stream" in rp and "k" in rp:
            for cs in ([len(rp["stream"])], rp["chunks"]):
                print("chunks", cs[:20], "->", [x if not isinstance(x, list) else len(x) for x in impl.split_trace(bytes(rp["stream"]), cs, rp["k"])])
            ctx.case(["split-replay"])
            scases = impl.splitter(ctx)
        elif "history" in cfg:
            H = impl.table_histories()
            name = cfg["history"].split("/chunked")[0]
            if name not in H:
                print("note: a random history is not stored by name; running the fixed table-contents histories")
            for nm in ([name] if name in H else sorted(H)):
                for dial0 in "ab":
                    for c in impl.run_history(ctx, nm, H[nm], bool(cfg.get("a_high")), dial0):
                        print(nm, "dial0", dial0, "step", c["step"], "tables differ" if c["tamper"] else "tables equal / none", "->", c["obs"], c["caller"])
        elif "ra" in cfg:
            cfg = dict(cfg, ra=tuple(cfg["ra"]), rb=tuple(cfg["rb"]))
            dial = cfg.get("dial") or ("a" if (rp.get("dialer", "decider") == "decider") == bool(cfg["a_high"]) else "b")
            pa, pb, res = impl.trial(cfg["ra"], cfg["rb"], cfg["a_high"], mangle=impl.swap_hash if cfg.get("tamper") == "hash" else None,
                                     dial_from=dial)
            print("A:", pa, "B:", pb, "created:", impl.trial.created, "result:", res)
            impl.judge_created(ctx, "replay", cfg, pa, pb, res, impl.expected(cfg["ra"], cfg["rb"]))
            ctx.case(["replay", cfg])
        else:
            print("note: replay kind not recognised; running the malformed, damaged-line and coalesced families")
            impl.malformed(ctx)
            impl.damaged_lines(ctx)
            impl.coalesced(ctx)
            from harness import c13_codec as _codec
            _codec.parse_oracle(ctx)
