"""C13 -- both ends of a negotiation reach the same decision or both fail."""
import itertools, re
from harness import common
from harness.common import coq_list, coq_Z


def run(ctx):
    ctx.rule = ("configurations = (version range, vocab range) for each side within 1..3 / 0..1, both tub-id orders, "
                "real Tub+Negotiation pair on an in-memory network; non-trivial = distinct configuration in which both "
                "sides completed or failed negotiation (not a harness error); plus chunked and malformed-block runs")
    ctx.assumptions = ["TLS is replaced by a no-op startTLS and peerFromTransport returns the peer Tub's certificate",
                       "vocab table hashes are computed by the same vocab.py on both sides (hash mismatch is exercised by "
                       "rewriting the decision block in flight)"]
    ok, log = ctx.coq_build(["props/C13.vo"])
    from harness import c13_impl as impl
    failures_before = len(ctx.failures)
    # 1. implementation sweep + direct oracle
    cases = impl.sweep(ctx)
    # 2. correspondence with the Coq model (needs at least the model files to build)
    model_ok = True
    if not ok:
        ok2, log2 = ctx.coq_build(["lib/Negotiate.vo"])
        model_ok = ok2
    if model_ok:
        correspond(ctx, cases)
    # 3. chunkings and malformed blocks (direct oracle)
    impl.chunked(ctx)
    impl.malformed(ctx)
    impl.coalesced(ctx)
    if not ok:
        found = len(ctx.failures) > failures_before
        ctx.fail("proof-broken", "the Coq development for C13 no longer builds against the regenerated "
                 "gen/NegotiateGen.v (theorem closure props/C13.vo):\n" + tail(log), replay=dict(log=tail(log, 6000)),
                 has_input=False) if not found else None
        if found:
            ctx.note("proof broken AND a failing input was found (reported above)")


def tail(s, n=2500):
    return s[-n:]


def ep(idn, r, tamper=None):
    # ids: "a" < "b" as code points
    accept = "(fun v => (1 <=? v) && (v <=? 3))%Z"
    h = "(fun i => i * 7)%Z" if tamper != "hash" else "(fun i => i * 7 + 1)%Z"
    return "(Build_endpoint [%d%%Z] %s %s %s %s %s %s)" % (idn, coq_Z(r[0]), coq_Z(r[1]), coq_Z(r[2]), coq_Z(r[3]), h, accept)


def correspond(ctx, cases):
    """cases: list of dict(ra, rb, a_is_higher, tamper, obs=(pa, pb)) where pa/pb = None | (version, vocabindex)"""
    lines = []
    for c in cases:
        ia, ib = (98, 97) if c["a_high"] else (97, 98)
        # tamper 'hash': the master's hash differs from the slave's (decision rewritten in flight)
        ta = c["tamper"] if c["a_high"] else None
        tb = c["tamper"] if not c["a_high"] else None
        lines.append("(%s, %s)" % (ep(ia, c["ra"], ta), ep(ib, c["rb"], tb)))
    body = """
Definition code (o : outcome) : list Z := match o with Banana p => [1; p_version p; p_vocab p]%Z | Failed _ => [0]%Z end.
Definition cases : list (endpoint * endpoint) := """ + coq_list(lines) + """.
Eval vm_compute in map (fun c => let '(oa, ob) := negotiate (fst c) (snd c) in (code oa, code ob)) cases.
"""
    try:
        (vals,) = ctx.coq_eval("C13_cases", body, requires=["Verif.lib.PyLite", "Verif.gen.NegotiateGen", "Verif.lib.Negotiate"])
    except common.CoqEvalError as e:
        ctx.fail("correspondence-broken", "the model could not be evaluated: " + str(e)[-1500:], has_input=False)
        return
    nbad = 0
    for c, (ma, mb) in zip(cases, vals):
        exp = lambda p: [0] if p is None else [1, p[0], p[1]]
        ia, ib = exp(c["obs"][0]), exp(c["obs"][1])
        ctx.traces += 1
        if ia != ma or ib != mb:
            nbad += 1
            if nbad <= 3:
                ctx.fail("correspondence/negotiate", "model and implementation disagree on %r: model %r/%r, implementation %r/%r"
                         % ({k: c[k] for k in ("ra", "rb", "a_high", "tamper")}, ma, mb, ia, ib),
                         replay=dict(case={k: c[k] for k in ("ra", "rb", "a_high", "tamper")}, model=[ma, mb], impl=[ia, ib]),
                         has_input=False)
    ctx.extra["correspondence_cases"] = len(cases)
    ctx.extra["correspondence_disagreements"] = nbad
