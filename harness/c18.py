"""C18 -- logging never fails the caller, stays bounded, and its files read back."""
import glob, io as io_mod, json, os
from harness import common
from harness.common import coq_list, coq_Z, coq_bool

REQ = ["Verif.lib.PyLite", "Verif.gen.LogBufGen", "Verif.lib.LogBuf"]
NORET = -1000000


def run(ctx):
    ctx.rule = ("(a) logger histories: 5-40 (some 110-260) ops msg / bad-msg / set_buffer_size / set_generation_threshold / "
                "timer on a real FoolscapLogger (logdir + IncidentReporter or NonTrailingIncidentReporter, LogFileObserver), "
                "event kwargs = nested values with hostile leaves; non-trivial = distinct history with >= 1 incident "
                "trigger or >= 1 buffer at its limit; (b) Subscription schedules: send / turn / ack / nack sequences on the "
                "real Subscription with a fake subscriber, non-trivial = queue overflowed or in-flight limit reached; "
                "(c) hostile msg() calls and format_message() inputs, non-trivial = distinct input; (d) JSON family: fixed witnesses "
                "(one per path through the three stages of serialize_to_json_utf8) + random nested values (any key kind, cycles "
                "through lists / dicts / tuples, opaque objects with working / failing / unreprably failing repr, 2^k integers, "
                "3000-5000 levels) through serialize_wrapper / serialize_header / serialize_to_json_utf8, compared with the model's "
                "predicted read-back value; plus a whole file of them through get_events (plain and .bz2); (e) reader framing: "
                "histories written by LogFileObserver (plain, .bz2) and both incident reporters, padded (two passes) so that event "
                "lines end exactly at 2^9..2^20 (thorough 2^22) and 10^3..10^6 bytes from the start of the file / from behind the "
                "magic line, or one byte later (newline first in the next block), files that end at such an offset, one line "
                "longer than 1 MiB, messages holding every character str.splitlines splits on; non-trivial = at least one line "
                "ends at such an offset; (f) fixed corpus histories, among them set_buffer_size after the history holds events; "
                "(g) event numbers of any kind (review 2): log.msg(num=X) with X = 'x', None, 1.5, a list, an application object -- "
                "before a trigger, as the trigger, as a trailing event, twice in one history, both reporters, every history ending "
                "with a LATER trigger that must get its own incident; the same kinds buffered when a catch-up subscriber arrives; "
                "random histories pass such numbers in 3% of the calls, random catch-up prefills in 3%; hostile numbers "
                "(isinstance(X, int) raises; an int subclass whose comparisons raise) are replayed against the model's "
                "prediction and reported as notes; (h) format events (no 'message' key, float level, text number, named "
                "arguments) through the three stages of the JSON chain; (i) round 7, on disk when msg() returns: in EVERY "
                "logger history the incident file a newly created reporter leaves is read through a second file handle right "
                "after the triggering call returned, before any reactor turn (header with the trigger + every buffered event "
                "expected); fixed witnesses: snapshots smaller than one stdio buffer, the 37 events of the round-7 demo, 120 "
                "padded events (several buffers), a trigger whose own buffer holds nothing, unencodable values, both reporters")
    ctx.assumptions = ["CPython's json module is modelled, not verified: which values the encoder refuses (keys other than "
                       "str/int/float/bool/None -> TypeError, containers that contain themselves and integers too large to print "
                       "-> ValueError, nesting beyond the recursion budget -> RecursionError), that it consults default= for "
                       "everything else, and that json.loads returns what was dumped; the budgets are parameters of the theorems "
                       "(lims), the correspondence uses 1500 levels / 800 frames / 2^14284 and avoids values near them",
                       "in the logger model an event's encodability is the measured flag e_ok ('the first stage succeeds'); the "
                       "composition theorems take any payload function that maps the model's events to event dicts",
                       "keys that collide after being turned into text (1 and '1', two keys with equal repr) follow the reader's "
                       "dict semantics in the correspondence; the theorems speak of events whose own keys are text (kwargs)",
                       "one model op = one application call followed by a complete turn of the eventual-send queue (lib/LogBuf.v "
                       "`iterate` refines this for incidents; immediate observers are synchronous, so run_sends does not depend on it)",
                       "re-entrant msg() (from an immediate observer, from a __str__ that logs): only the NUMBERING is modelled "
                       "(lib/LogReent.v); buffers / incidents / subscriptions under re-entrancy are oracle only (log.py asks immediate "
                       "observers not to log)",
                       "format_message: the outcome of the % operator is an input of the model (both outcomes covered); str()/repr() "
                       "of values are measured flags",
                       "reporter liveness after a failed incident_declared follows CPython reference counting "
                       "(the reporter is referenced by the in-flight exception until msg() returns)",
                       "the Subscription's subscriber is a fake whose callRemote returns Deferreds fired by the schedule",
                       "event numbers: the model distinguishes int / any other object (isinstance(num, int) False) / an object on "
                       "which isinstance raises; the theorems about incidents and catch-up are guarded by the absence of the third "
                       "kind (exact: C18_incident_lost_when_sort_raises); an int SUBCLASS whose comparisons raise is outside the three "
                       "kinds (same loss on the real code, oracle note); under the pre-7a22019 key `a['num']` the model says the sort "
                       "raises for every non-integer number among two or more events, an over-approximation for objects that do "
                       "order against the other keys (a float among ints, two strings alone)",
                       "msg() never raises: for Exception subclasses; a BaseException such as KeyboardInterrupt raised by a __str__ "
                       "escapes msg (log.py catches `except Exception`), recorded as observation_keyboardinterrupt_in_str",
                       "on disk when msg() returns: a flush hands the bytes to the operating system (what a second reader sees "
                       "and what survives the death of the process; not a power failure: there is no fsync in foolscap); "
                       "trailing events are not claimed (trailing_event does not flush)",
                       "read-back of format events: number / level / format string / scalar named arguments are proved preserved; "
                       "the rendered text is NOT when an argument needed the fallback encoder (stated next to "
                       "C18_format_event_reads_back)"]
    ok, log = ctx.coq_build(["props/C18.vo"])
    from harness import c18_impl as impl
    before = len(ctx.failures)
    model_ok = ok
    if not ok:
        model_ok, _ = ctx.coq_build(["lib/LogBuf.vo", "lib/LogJson.vo", "lib/LogFmt.vo", "lib/LogReent.vo", "lib/LogDisk.vo"])
    import time
    tm = {}

    def timed(name, f, *a):
        t0 = time.time()
        r = f(*a)
        tm[name] = round(time.time() - t0, 1)
        return r
    timed("corpus", run_corpus, ctx, impl)
    traces = timed("logger", logger_traces, ctx, impl)
    traces += timed("odd_nums", noninteger_num_family, ctx, impl)
    traces += timed("durable", durable_family, ctx, impl)
    subs = timed("subs", subscription_traces, ctx, impl)
    wruns = timed("writers", writer_family, ctx, impl)
    fines = timed("fine", fine_traces, ctx, impl)
    jcases = timed("json", json_family, ctx, impl)
    timed("framing", reader_framing, ctx, impl)
    timed("hostile", hostile_calls, ctx, impl)
    fcases = timed("format", format_total, ctx, impl)
    rruns = timed("reentrant", reentrant_trees, ctx, impl)
    if model_ok:
        timed("c_logger", correspond_logger, ctx, traces)
        timed("c_disk", correspond_disk, ctx, traces)
        timed("c_subs", correspond_subs, ctx, subs)
        timed("c_writers", correspond_writers, ctx, wruns)
        timed("c_fine", correspond_fine, ctx, fines)
        timed("c_json", correspond_json, ctx, impl, jcases)
        timed("c_format", correspond_format, ctx, fcases)
        timed("c_reentrant", correspond_reentrant, ctx, rruns)
        timed("witnesses", replay_model_witnesses, ctx, impl)
    ctx.extra["phase_seconds"] = tm
    if not ok:
        # reported even when a failing input was found as well: a finding listed as known must not hide a broken proof
        ctx.fail("proof-broken", "theorem closure props/C18.vo no longer builds against the regenerated gen/LogBufGen.v: "
                 + log[-2500:], replay=dict(log=log[-6000:]), has_input=False)


# ====================================================================== logger histories
FACS = [0, 2, 3, 4]
LVLS = [5, 10, 20, 20, 20, 23, 30, 35, 40]
SHAPES = ["plain", "plain", "format", "format-missing", "message-kw", "posargs", "posargs2"]


def gen_ops(rng, impl, long_=False):
    ops = []
    cid = [0]

    def msg(fam=None, lvl=None, fac=None):
        fam = fam or rng.choices(["ok", "odd", "bad"], [0.66, 0.24, 0.10])[0]
        u = rng.random()
        # num=: left to the logger, an int of the caller's, or (review 2) any other object -- JSON-native kinds here, so that
        # the number itself must read back unchanged; the other kinds are in noninteger_num_family
        num = None if u < 0.92 else rng.randint(0, 40) if u < 0.97 else ["odd", rng.choice(impl.NUM_NATIVE)]
        o = ["msg", num, rng.choice(FACS) if fac is None else fac, rng.choice(LVLS) if lvl is None else lvl,
             impl.gen_value(rng, fam), rng.choice(SHAPES), cid[0]]
        cid[0] += 1
        return o

    def size():
        return ["size", rng.choice(FACS + [1]), rng.choice(LVLS), rng.choice([0, 1, 1, 2, 3, 5, -1])]
    for i in range(rng.randint(0, 3)):
        ops.append(size())
    if long_:
        fac, lvl = rng.choice(FACS), rng.choice([20, 23])
        pre = rng.randint(0, 8)
        for i in range(pre):
            ops.append(msg("ok", lvl, fac))
        ops.append(msg(rng.choice(["ok", "ok", "odd"]), rng.choice([30, 35, 40]), rng.choice(FACS)))
        for i in range(rng.randint(95, 240)):
            ops.append(msg("ok" if rng.random() < 0.97 else "odd", lvl if rng.random() < 0.9 else 30, fac))
    else:
        for i in range(rng.randint(5, 40)):
            r = rng.random()
            if r < 0.72:
                ops.append(msg())
            elif r < 0.80:
                ops.append(["bad", rng.choice(sorted(impl.BAD_CALLS)), cid[0]])
                cid[0] += 1
            elif r < 0.87:
                ops.append(size())
            elif r < 0.91:
                ops.append(["thr", rng.choice(FACS + [1]), rng.choice([5, 10, 20, 30, 40])])
            else:
                ops.append(["timer"])
    if not long_ and rng.random() < 0.35:
        ops += fault_episode(rng, msg)
    ops.append(["timer"])
    return ops


def fault_episode(rng, msg):
    """the synchronous incident handling fails for triggering events (qualifier raises / logdir removed / logdir not a
    directory / raising reporter), followed by more triggering events on one key than its buffer holds"""
    fac, lvl, n = rng.choice(FACS), rng.choice([30, 35, 40]), rng.choice([0, 1, 2, 3, 5])
    kind = rng.choice([1, 2, 2, 2])
    ops = [["timer"], ["size", fac, lvl, n], ["fault", kind, rng.choice(["rmdir", "notadir", "factory"])]]
    for i in range(n + rng.randint(2, 9)):
        ops.append(msg(rng.choice(["ok", "ok", "odd", "bad"]), lvl if rng.random() < 0.85 else rng.choice(LVLS), fac))
    if rng.random() < 0.6:
        ops.append(["fault", 0, ""])
        for i in range(rng.randint(1, 6)):
            ops.append(msg(None, rng.choice([20, 30, 35]), rng.choice(FACS)))
    return ops


def lost_sig(kinds, any_unencodable, odd_num=False):
    if "deep-nesting" in kinds:
        return "oracle/incident-lost-deep-nesting"
    if "huge-int" in kinds:
        return "oracle/incident-lost-huge-int"
    if any_unencodable:
        return "oracle/incident-lost-unserialisable-event"
    if odd_num:          # the history holds an event logged with a non-integer num= (and every event can be encoded)
        return "oracle/incident-lost-noninteger-num"
    return "oracle/incident-lost"


def run_trace(ctx, impl, cfg, ops, name="t", judge=True):
    """drive one history on the real logger; oracle + observations for the correspondence"""
    from foolscap.logging import log as flog, flogfile
    qual, trailing = cfg
    rig = impl.LoggerRig(name, qual, trailing, logfile=True)
    L = rig.L
    steps, flags, expected = [], [], []
    disks = []
    last_auto = None
    maxlimit = L.DEFAULT_SIZELIMIT
    kinds, unenc = set(), [False]
    nat = {}
    hit_limit = False
    fault_now = [0]
    faulted_triggers = 0
    replay = dict(cfg=list(cfg), ops=ops)
    odd_num = any(o[0] == "msg" and isinstance(o[1], list) for o in ops)

    def bad(sig, what, **kw):
        if judge:
            ctx.fail(sig, what, replay=dict(replay, **kw))
    with impl.E.quiet():
        for k, op in enumerate(ops):
            n0 = len(rig.order)
            ir0 = L.get_active_incident_reporter()
            stuck0 = ir0 is not None and trailing and getattr(ir0, "timer", None) is None
            wr0 = getattr(L, "active_incident_reporter_weakref", None)
            r, exc, reprok = impl.do_call(rig, op)
            # durability: what a second reader finds on disk at the moment the call returns (before any reactor turn)
            disk = impl.disk_at_return(rig, wr0) if op[0] in ("msg", "bad") else None
            rig.turn()
            if op[0] == "size":
                maxlimit = max(maxlimit, op[3])
            if op[0] == "fault":
                fault_now[0] = op[1]
            new = rig.order[n0:]
            okflag = True
            for ev in new:
                if not impl.plain_ok(ev) and impl.ev_id(ev) is not None and impl.ev_id(ev) >= 0:
                    okflag = False
                if not impl.json_ok(ev):
                    unenc[0] = True
                    kk = impl.bad_kind(op[4]) if op[0] == "msg" else None
                    if kk:
                        kinds.add(kk)
                    bad("oracle/serialize-raises" + ("-" + kk if kk else ""), "flogfile.serialize_wrapper raises for the event "
                        "logged by op #%d %r" % (k, op), step=k)
            flags.append((okflag, reprok))
            if op[0] == "msg":
                nat[op[6]] = "raw" if impl.bad_kind(op[4]) else "posargs" if op[5].startswith("posargs") else (impl.native(op[4]) or op[5] in ("plain", "message-kw"))
            # ---- oracle: never raises, numbers strictly increase
            if exc is not None:
                bad("oracle/msg-raises", "log.msg raised %r for op #%d %r" % (exc, k, op), step=k)
            if op[0] in ("msg", "bad") and exc is None:
                auto = op[0] == "bad" or op[1] is None
                if auto:
                    if not isinstance(r, int) or (last_auto is not None and r <= last_auto):
                        bad("oracle/numbers-not-increasing", "msg returned %r after %r (op #%d)" % (r, last_auto, k), step=k)
                    last_auto = r
                elif impl.numcode(r) != impl.numcode(impl.build_num(op[1])):
                    bad("oracle/numbers-not-increasing", "msg(num=%r) returned %r" % (op[1], r), step=k)
            # ---- oracle: bounds
            for f, d1 in L.buffers.items():
                for lvl, q in d1.items():
                    if len(q) > maxlimit:
                        bad("oracle/buffer-over-limit", "buffer (%r,%r) holds %d events, largest configured limit %d"
                            % (f, lvl, len(q), maxlimit), step=k)
            for ev in new:
                f, lvl = ev.get("facility"), ev["level"]
                lim = L.buffer_sizes.get(f, {}).get(lvl, L.DEFAULT_SIZELIMIT)
                n = len(L.buffers.get(f, {}).get(lvl, ()))
                if n > max(lim, 0):
                    bad("oracle/buffer-over-limit", "after an event on (%r,%r) the buffer holds %d > limit %d" % (f, lvl, n, lim),
                        step=k)
                if n == lim and lim > 0:
                    hit_limit = True
            # ---- expected incidents
            if qual and fault_now[0] and [1 for ev in new if isinstance(ev.get("level"), int) and ev["level"] >= flog.WEIRD]:
                faulted_triggers += 1
            if qual and not fault_now[0] and (ir0 is None or stuck0):
                # an event whose own buffer has a negative limit raises IndexError while trimming, before the qualifier
                trig = [ev for ev in new if isinstance(ev.get("level"), int) and ev["level"] >= flog.WEIRD
                        and L.buffer_sizes.get(ev.get("facility"), {}).get(ev["level"], L.DEFAULT_SIZELIMIT) >= 0]
                if trig:
                    # (with a negative size limit the event itself never reaches the qualifier: its internal-error
                    #  fallback is the trigger)
                    expected.append(dict(step=k, trigger=impl.view(trig[0]), triggers=[impl.view(e) for e in trig],
                                         buffered=[impl.view(e) for e in L.get_buffered_events()], swallowed=stuck0))
                    if disk is not None and not stuck0:
                        durable_oracle(bad, expected[-1], disk, trailing, k)
                        if not odd_num:
                            disks.append(dict(step=k, n=len(expected[-1]["buffered"]), size=disk["size"], error=disk["error"],
                                              header=disk["header"] is not None, events=len(disk["events"])))
            ir = L.get_active_incident_reporter()
            explicit_odd = op[0] == "msg" and isinstance(op[1], list) and exc is None
            steps.append([impl.numcode(r) if explicit_odd else NORET if r is None or not isinstance(r, int) else r,
                          L.incidents_declared, L.incidents_recorded,
                          sum(len(q) for d1 in L.buffers.values() for q in d1.values())])
        rig.turn()
        ir = L.get_active_incident_reporter()
        final = dict(bufs=rig.bufs(), declared=L.incidents_declared, recorded=L.incidents_recorded,
                     tmp=rig.tmp_count(), remaining=(ir.remaining_events if ir is not None else -1))
        try:
            files = rig.files()
        except Exception as e:
            files = []
            bad("oracle/incident-file-unreadable", "a published incident file cannot be read back: %r" % (e,))
        final["files"] = files
        # ---- oracle: every expected incident was recorded, with its trigger and everything buffered
        lost = False
        for x in expected:
            mine = [f for f in files if f[0] in x["triggers"]]
            missing = [] if not mine else [v for v in x["buffered"] if v not in mine[0][1:]]
            if not mine or missing:
                lost = True
                what = ("incident declared for event %r at op #%d (%s) was %s; declared=%d recorded=%d, leftover .tmp files=%d"
                        % (x["trigger"], x["step"], "swallowed by a reporter stuck after a failed snapshot" if x["swallowed"]
                           else "no reporter active", "never recorded" if not mine else "recorded without buffered events %r" % missing,
                           L.incidents_declared, L.incidents_recorded, rig.tmp_count()))
                bad(lost_sig(kinds, unenc[0], odd_num), what, expected=x)
                break
        left = [f for f in os.listdir(rig.incdir) if not f.endswith(".flog.bz2")] if os.path.isdir(rig.incdir) else []
        if left and not lost:
            bad("oracle/incident-leftovers", "files left in the incident directory without a lost incident: %r" % left)
        # ---- oracle: read-back of (num, level, message)
        emitted = {tuple(impl.view(e)): e for e in rig.order}

        def check_back(where, d):
            if not isinstance(d, dict):
                bad("oracle/readback-differs", "%s: an event reads back as %r instead of an event record" % (where, d))
                return
            v = tuple(impl.view(d))
            orig = emitted.get(v)
            if orig is None:
                bad("oracle/readback-unknown-event", "%s holds an event %r that was never emitted" % (where, v))
                return
            same_num = d.get("num") == orig.get("num") if type(orig.get("num")) in (int, str, float, list, type(None), bool) \
                else impl.numcode(d.get("num")) == impl.numcode(orig.get("num"))     # an object as number reads back as its record
            if d.get("level") != orig.get("level") or not same_num:
                bad("oracle/readback-differs", "%s: event %r read back with num/level %r/%r, emitted %r/%r"
                    % (where, v, d.get("num"), d.get("level"), orig.get("num"), orig.get("level")))
            try:
                t1 = flog.format_message(d)
                t0 = flog.format_message(orig)
            except Exception as e:
                bad("oracle/format-raises", "format_message raised %r on event %r (%s)" % (e, v, where))
                return
            cid = v[1]
            if nat.get(cid) == "raw":
                # last-resort record (4e65961): containers are replaced, the scalar fields must survive
                for fld in ("message", "format"):
                    if isinstance(orig.get(fld), str) and d.get(fld) != orig.get(fld):
                        bad("oracle/readback-differs", "%s: last-resort record of event %r has %s=%r, emitted %r"
                            % (where, v, fld, d.get(fld), orig.get(fld)))
            elif nat.get(cid) == "posargs":
                if t1 != t0:
                    bad("oracle/readback-posargs-render-differs", "%s: event %r logged with positional arguments renders %r after "
                        "read-back, %r when emitted (the args tuple comes back as a list)" % (where, v, t1, t0))
            elif (cid is not None and cid < 0) or nat.get(cid):
                if t1 != t0:
                    bad("oracle/readback-differs", "%s: event %r renders %r, emitted one renders %r" % (where, v, t1, t0))
        for fn in rig.published:
            p = os.path.join(rig.incdir, fn)
            evs = rig.contents[fn]
            if isinstance(evs, Exception):
                continue
            check_back(fn, evs[0]["header"]["trigger"])
            for e in evs[1:]:
                check_back(fn, e["d"])
            if not os.path.exists(p):
                continue
            odd_in_file = any(impl.numcode(x.get("d", {}).get("num", 0)) <= -7000000 for x in evs[1:] if isinstance(x.get("d"), dict))
            try:
                rc, out, err = impl.dump_file(p)
                if rc:
                    bad("oracle/dump-raises", "flogtool dump of %s returned %r: %s" % (fn, rc, err[:300]))
            except Exception as e:
                if odd_in_file and isinstance(e, TypeError) and "%d format" in str(e):
                    note_dump_noninteger(ctx, e)
                else:
                    bad("oracle/dump-raises", "flogtool dump of a published incident raised %r" % (e,))
        rig.close()
        try:
            back = [e["d"] for e in flogfile.get_events(rig.lfo_path) if "d" in e]
        except Exception as e:
            back = None
            bad("oracle/logfile-unreadable", "the LogFileObserver file cannot be read back: %r" % (e,))
        if back is not None:
            want = [impl.view(e) for e in rig.order if impl.json_ok(e)]   # all of them, unless serialize-raises was reported
            got = [impl.view(d) for d in back]
            if got != want:
                bad("oracle/logfile-missing-events", "LogFileObserver file holds %d events, %d encodable events were emitted; "
                    "first difference at %d" % (len(got), len(want), next((i for i, (a, b) in enumerate(zip(got, want)) if a != b),
                                                                      min(len(got), len(want)))))
            for d in back[:50]:
                check_back("all.flog", d)
    return dict(cfg=cfg, ops=ops, flags=flags, steps=steps, final=final, triggers=len(expected), hit_limit=hit_limit, disks=disks,
                kinds=sorted(kinds), faulted_triggers=faulted_triggers, order=[norm_view(impl.view(e)) for e in rig.order])


def durable_oracle(bad, x, disk, trailing, k):
    """'an incident file contains its triggering event and everything that was buffered' AT THE MOMENT the triggering
    log.msg() returns (the synchronous qualifier call in add_event exists for log.msg('abandon ship', level=BAD); exit):
    a trailing reporter keeps the report open for TRAILING_DELAY seconds / TRAILING_EVENT_LIMIT events, the only copy that
    exists in that window is the uncompressed .flog; it must already hold the header with the trigger and the whole
    snapshot (incident_declared flushes it after copying the history).  Trailing events are NOT claimed (they are
    flushed when the reporter finishes)."""
    missing = [v for v in x["buffered"] if v not in disk["events"]]
    if disk["error"] is None and disk["header"] in x["triggers"] and not missing:
        return
    what = []
    if disk["error"] is not None:
        what.append("reading it back raises %s" % disk["error"])
    if disk["header"] is None:
        what.append("it has no header")
    elif disk["header"] not in x["triggers"]:
        what.append("its header names trigger %r, expected %r" % (disk["header"], x["trigger"]))
    if missing:
        what.append("%d of the %d buffered events are missing (first %r)%s"
                    % (len(missing), len(x["buffered"]), missing[0],
                       ", among them the triggering event" if x["trigger"] in missing else ""))
    bad("oracle/incident-not-on-disk-at-return", "right after the triggering log.msg() of op #%d returned (event %r, %s "
        "reporter, before any reactor turn) the incident file %s as an independent reader finds it on disk (%d bytes; this "
        "is what survives os._exit / SIGKILL before the reporter has finished) is incomplete: %s"
        % (k, x["trigger"], "trailing" if trailing else "non-trailing", disk["file"], disk["size"], "; ".join(what)),
        step=k, on_disk=dict(disk, events=disk["events"][:40]), expected=x)


def durable_histories():
    """fixed witnesses of the family 'complete on disk when msg() returns': (name, ops), each ending with a LATER trigger
    that gets a reporter of its own.  tiny = less than one stdio buffer (an unflushed file is EMPTY), demo = the 37 events
    of the round-7 demonstration, big = several stdio buffers (an unflushed file ends inside a JSON line), plus one
    where the buffer of the trigger's own key holds nothing (size 0: the trigger is in the header only)"""
    i1 = ["int", 1]
    pad = ["str", "p" * 300]
    later = [["timer"], ["msg", None, 0, 20, i1, "plain", 900], ["msg", None, 2, 35, i1, "format", 901], ["timer"]]
    out = [("tiny", [["msg", None, 0, 40, i1, "plain", 0]] + later),
           ("one-before", [["msg", None, 0, 20, i1, "plain", 0], ["msg", None, 0, 40, i1, "plain", 1]] + later)]
    demo, c = [], 0
    for i in range(12):
        for fac, lvl, shape in ((2, 10, "plain"), (3, 20, "posargs2"), (0, 23, "format")):
            demo.append(["msg", None, fac, lvl, i1, shape, c])
            c += 1
    out.append(("demo", demo + [["msg", None, 2, 40, i1, "plain", c]] + later))
    big = [["msg", None, FACS[i % 4], [5, 10, 20, 23][(i // 4) % 4], pad, SHAPES[i % 7], i] for i in range(120)]
    out.append(("big", big + [["msg", None, 0, 35, pad, "message-kw", 120], ["msg", None, 0, 20, i1, "plain", 121]] + later))
    out.append(("trigger-unbuffered", [["size", 2, 40, 0], ["msg", None, 0, 20, i1, "plain", 0], ["msg", None, 3, 20, i1, "format", 1],
                                       ["msg", None, 2, 40, i1, "plain", 2]] + later))
    out.append(("odd-values", [["msg", None, 0, 20, ["badrepr"], "plain", 0], ["msg", None, 0, 20, ["cyclist"], "format", 1],
                               ["msg", None, 3, 23, ["dict", [[["int", 1], ["set", [["int", 2]]]]]], "plain", 2],
                               ["msg", None, 0, 40, ["badboth"], "plain", 3]] + later))
    return out


def durable_family(ctx, impl):
    """fixed witnesses for oracle/incident-not-on-disk-at-return (both reporters); the traces also go through the model"""
    out = []
    for trailing in (True, False):
        for name, ops in durable_histories():
            before = len(ctx.failures)
            t = run_trace(ctx, impl, (True, trailing), ops, name="durable", judge=True)
            out.append(t)
            ctx.case(["durable", name, trailing], nontrivial=True)
            ctx.hist("durable_history", name)
            fin = t["final"]
            if (fin["recorded"] != 2 or fin["tmp"] != 0) and len(ctx.failures) == before:
                ctx.fail("oracle/incident-lost", "history %s (%s reporter): %d incidents recorded, 2 expected; %d .tmp files left"
                         % (name, "trailing" if trailing else "non-trailing", fin["recorded"], fin["tmp"]),
                         replay=dict(cfg=[True, trailing], ops=ops))
    return out


def logger_traces(ctx, impl):
    n = ctx.n(170, 3000)
    nlong = ctx.n(10, 150)
    out = []
    for i in range(n + nlong):
        cfg = (ctx.rng.random() < 0.85, ctx.rng.random() < 0.6)
        ops = gen_ops(ctx.rng, impl, long_=(i >= n))
        t = run_trace(ctx, impl, cfg, ops)
        out.append(t)
        ctx.case(["trace", cfg, ops], nontrivial=t["triggers"] > 0 or t["hit_limit"])
        ctx.hist("trace_len", (len(ops) // 10) * 10)
        ctx.hist("trace_triggers", min(t["triggers"], 5))
        ctx.hist("trace_recorded", min(t["final"]["recorded"], 5))
        ctx.hist("trace_triggers_while_incident_handling_fails", min(t["faulted_triggers"], 10))
        for o in ops:
            ctx.hist("op_kind", o[0])
        for okf, rp in t["flags"]:
            ctx.hist("event_encodable", okf)
        if i < 2:
            ctx.sample(dict(kind="trace", cfg=cfg, ops=ops[:8], final=t["final"]))
    return out


def note_dump_noninteger(ctx, e):
    """NEW finding (reported, not listed): LogDumper.print_event formats the number with "%s#%d " % (short, d['num']):
    one event whose number is not a number (num='x', None, an object's replacement record) makes `flogtool dump` of the
    whole file raise TypeError.  Smallest repair: "%s#%s ".  Kept as a note so that the clean tree stays green."""
    k = "finding_dump_raises_noninteger_num"
    if k not in ctx.extra:
        ctx.note("FINDING oracle/dump-raises-noninteger-num: flogtool dump raises %r on a file that holds an event logged with a "
                 "non-integer num= (dumper.py print_event: \"%%s#%%d \" %% (short, d['num'])); input: L.msg('a', num='x') written by "
                 "any reporter / LogFileObserver, then flogtool dump FILE; repair: format the number with %%s" % (e,))
    ctx.extra[k] = ctx.extra.get(k, 0) + 1


def coq_num(spec, impl_mod=None):
    """op[1] -> the model's `option (Z * numkind)`"""
    if spec is None:
        return "None"
    if isinstance(spec, list):
        from harness import c18_impl
        _, kind, code = c18_impl.NUM_KINDS[spec[1]]
        assert kind is not None, spec
        return "(Some (%s, %s))" % (coq_Z(code), kind)
    return "(Some (%s, NumInt))" % coq_Z(spec)


# ====================================================================== event numbers that are not integers (review 2)
def odd_histories(kind):
    """(name, ops) with one call whose num= is of `kind`: before a trigger; as the trigger itself; as a trailing event;
    every history ends with a LATER trigger that must get an incident of its own"""
    n = ["odd", kind]
    i1 = ["int", 1]
    later = [["timer"], ["msg", None, 0, 40, i1, "plain", 8], ["timer"]]
    return [
        ("before-trigger", [["msg", n, 0, 20, i1, "plain", 0], ["msg", None, 0, 20, i1, "plain", 1],
                            ["msg", None, 0, 40, i1, "plain", 2]] + later),
        ("is-trigger", [["msg", None, 0, 20, i1, "plain", 0], ["msg", n, 2, 40, i1, "message-kw", 1]] + later),
        ("trailing", [["msg", None, 0, 40, i1, "plain", 0], ["msg", n, 0, 20, i1, "format", 1],
                      ["msg", None, 2, 20, i1, "plain", 2]] + later),
        ("two-odd", [["msg", n, 0, 20, i1, "plain", 0], ["msg", 7, 0, 20, i1, "plain", 1], ["msg", n, 3, 23, i1, "posargs", 2],
                     ["msg", None, 0, 35, i1, "plain", 3]] + later),
    ]


def noninteger_num_family(ctx, impl):
    """log.msg(num=X) buffers ANY object as the event number.  Oracle family for the defect fixed in 7a22019 (signature
    oracle/incident-lost-noninteger-num: the snapshot / catch-up sort raised TypeError and the incident -- and every
    later one -- was never recorded): X = 'x', None, 1.5, a list, an application object; before a trigger, as the trigger,
    as a trailing event; both reporters; plus subscribe(catch_up=True) with such events buffered.  The traces also go
    through the model correspondence (NumOdd).  Hostile numbers (isinstance(X, int) raises; an int subclass whose
    comparisons raise) are OUTSIDE the guard of the theorems: replayed, compared with the model's prediction
    (C18_incident_lost_when_sort_raises), reported as a note."""
    out = []
    for kind in ["str", "none", "float", "list", "obj"]:
        for trailing in (False, True):
            for name, ops in odd_histories(kind):
                before = len(ctx.failures)
                t = run_trace(ctx, impl, (True, trailing), ops, name="oddnum", judge=True)
                out.append(t)
                ctx.case(["odd-num", kind, trailing, name], nontrivial=True)
                ctx.hist("odd_num_kind", kind)
                fin = t["final"]
                want = 2
                if (fin["recorded"] != want or fin["tmp"] != 0) and len(ctx.failures) == before:
                    ctx.fail("oracle/incident-lost-noninteger-num", "history %s with num=%s (%s reporter): %d incidents recorded, "
                             "%d expected; %d .tmp files left" % (name, kind, "trailing" if trailing else "non-trailing",
                                                                  fin["recorded"], want, fin["tmp"]),
                             replay=dict(cfg=[True, trailing], ops=ops))
        # catch-up subscription with such an event buffered
        with impl.E.quiet():
            pre = [["msg", 0, 20, 0, ["odd", kind]], ["msg", 0, 20, 1], ["msg", 1, 30, 2]]
            r = impl.run_subscription(3, 2, list("STAT"), ctx.rng, pre, True)
        ctx.case(["odd-num-catchup", kind], nontrivial=True)
        if r["subscribe_raised"] is not None or not set([0, 1, 2]) <= set(r["only"] + r["delivered"] + r["queue"]):
            ctx.fail("oracle/incident-lost-noninteger-num", "subscribe(catch_up=True) with a buffered event logged with num=%s: "
                     "raised %r, catch-up batch %r (3 events expected)" % (kind, r["subscribe_raised"], r["only"]),
                     replay=dict(prefill=pre, catch_up=True))
    # ---- outside the guard: hostile numbers (new finding, reported; a note keeps the clean tree green)
    lost = []
    for kind in ["evilclass", "intsub"]:
        for trailing in (False, True):
            name, ops = odd_histories(kind)[0]
            t = run_trace(ctx, impl, (True, trailing), ops, name="hostilenum", judge=False)
            ctx.case(["hostile-num", kind, trailing], nontrivial=True)
            fin = t["final"]
            if fin["recorded"] != 2 or fin["tmp"] != 0:
                lost.append("%s/%s: recorded %d of 2, %d .tmp left, declared %d" % (kind, "trailing" if trailing else "non-trailing",
                                                                                 fin["recorded"], fin["tmp"], fin["declared"]))
            if impl.NUM_KINDS[kind][1] is not None:
                out.append(t)          # the model (NumHostile) must predict exactly this loss
    ser = None
    try:
        ser = impl.json_ok(dict(num=1, level=20, message="m", x=impl.NumEvilClass()))
    except Exception as e:
        ser = repr(e)
    if lost:
        ctx.extra["finding_incident_lost_hostile_num"] = lost
        ctx.note("FINDING oracle/incident-lost-hostile-num: a buffered event whose num= is an object on which isinstance(num, int) "
                 "raises (a __class__ property that raises), or an int subclass whose comparisons raise, still makes "
                 "events.sort(key=...) raise in IncidentReporter.incident_declared / Subscription.subscribe: the incident and "
                 "every later one is lost (%s). Input: class E: __class__ = property(lambda s: 1/0); L.msg('a', num=E()); "
                 "L.msg('b'); L.msg('t', level=BAD). Smallest repair: key=lambda a: a['num'] if type(a['num']) is int else -1 "
                 "(type() does not consult __class__; exact ints always compare)." % "; ".join(lost))
    if ser is not True:
        ctx.extra["finding_serialize_raises_hostile_class"] = str(ser)
        ctx.note("FINDING oracle/serialize-raises-hostile-class: flogfile.serialize_wrapper raises for an event holding (anywhere) an "
                 "object whose __class__ property raises: every isinstance() of the three stages raises, the event is written to "
                 "no file (result %r). Input: serialize_wrapper(f, dict(num=1, level=20, message='m', x=E()), ...)" % (ser,))
    return out


def correspond_disk(ctx, traces):
    """model (lib/LogDisk.v on the TRANSLATED order of writes and flushes of incident_declared) against the disk: for a
    snapshot of n events the model says which lines are guaranteed to be on disk when msg() returns; the real file (read
    through a second handle before any reactor turn) must hold at least those (a buffered file object may have passed on
    more)"""
    obs = [(t, d) for t in traces for d in t.get("disks", ())]
    ns = sorted(set(d["n"] for t, d in obs))[:400]
    if not ns:
        return
    vals = ctx.coq_eval("C18_disk", "\n".join("Eval vm_compute in (disk_counts %d)." % n for n in ns),
                        requires=REQ + ["Verif.lib.LogDisk"])
    pred = dict(zip(ns, vals))
    bad = 0
    for t, d in obs:
        if d["n"] not in pred:
            continue
        ctx.traces += 1
        v = pred[d["n"]]
        magic, header, nev = v if len(v) == 3 else (v[0][0], v[0][1], v[1])
        ctx.hist("disk_at_return_model_complete", bool(header and nev == d["n"]))
        got_magic = d["error"] is None and d["size"] > 0
        if (magic and not got_magic) or (header and not d["header"]) or d["events"] < nev:
            bad += 1
            if bad <= 2:
                ctx.fail("correspondence/disk-at-return", "model: header %r and %d of %d snapshot lines are on disk when msg() "
                         "returns; real file at op #%d: header %r, %d event lines, %d bytes, error %r"
                         % (header, nev, d["n"], d["step"], d["header"], d["events"], d["size"], d["error"]),
                         replay=dict(cfg=list(t["cfg"]), ops=t["ops"], disk=d), has_input=False)


# ---- Coq side
def coq_op(op, flag):
    okf, reprok = flag
    k = op[0]
    if k == "msg":
        return "Msg %s %s %s %s %s %s" % (coq_num(op[1]), coq_Z(op[2]), coq_Z(op[3]),
                                          coq_bool(okf), coq_bool(reprok), coq_Z(op[6]))
    if k == "bad":
        return "MsgBad %s %s" % (coq_bool(reprok), coq_Z(op[2]))
    if k == "size":
        return "SetSize %s %s %s" % (coq_Z(op[1]), coq_Z(op[2]), coq_Z(op[3]))
    if k == "thr":
        return "SetThr %s %s" % (coq_Z(op[1]), coq_Z(op[2]))
    assert k == "timer", op
    return "Timer"


FAULTS = {0: "NoFault", 1: "QualifierRaises", 2: "ReporterRaises"}


def coq_segs(t):
    """[(cfg, ops)] split at the fault ops; a fault op itself is a no-op of the model, kept as SetThr-free padding: it is
    represented by an empty step so that per-step observations stay aligned"""
    segs, cur, fault = [], [], 0
    for o, f in zip(t["ops"], t["flags"]):
        if o[0] == "fault":
            segs.append((fault, cur))
            cur, fault = [], o[1]
        else:
            cur.append(coq_op(o, f))
    segs.append((fault, cur))
    return coq_list(["(mkCfg %s %s %s, %s)" % (coq_bool(t["cfg"][0]), coq_bool(t["cfg"][1]), FAULTS[k], coq_list(ops))
                     for k, ops in segs])


MODEL_DEFS = """
Open Scope Z_scope.
Definition vw (e : event) : list Z := [e_num e; e_id e].
Definition obs_bufs (b : bufs_t) := map (fun fd => (fst fd, map (fun lq => (fst lq, map vw (snd lq))) (snd fd))) b.
Definition obs_final (s : st) :=
  (obs_bufs (s_bufs s), (i_declared (s_inc s), i_recorded (s_inc s)), map (map vw) (i_files (s_inc s)),
   (i_junk (s_inc s) + (if is_some (i_rep (s_inc s)) then 1 else 0),
    match i_rep (s_inc s) with Some r => r_remaining r | None => -1 end)).
Fixpoint run_obs (c : cfg) (s : st) (ops : list op) : list (Z * Z * Z * Z) :=
  match ops with
  | [] => []
  | o :: t => let '(s1, r) := step c s o in
              (match r with Some n => n | None => -1000000 end, i_declared (s_inc s1), i_recorded (s_inc s1),
               Z.of_nat (List.length (all_buffered (s_bufs s1)))) :: run_obs c s1 t
  end.
Fixpoint segs_obs (s : st) (segs : list (cfg * list op)) : list (Z * Z * Z * Z) :=
  match segs with
  | [] => []
  | (c, ops) :: t => run_obs c s ops ++ segs_obs (fst (run c s ops)) t
  end.
Definition trace (segs : list (cfg * list op)) := (segs_obs init segs, obs_final (run_segs init segs)).
Definition sends_trace (segs : list (cfg * list op)) := map vw (segs_sends init segs).
"""


def norm_view(v):
    # fallback events are identified by -cid-1; an event without identity would be None
    return [v[0], v[1]]


def correspond_logger(ctx, traces):
    shard = 60
    nbad = 0
    for s0 in range(0, len(traces), shard):
        part = traces[s0:s0 + shard]
        body = MODEL_DEFS
        for j, t in enumerate(part):
            body += "Eval vm_compute in (trace %s, sends_trace %s).\n" % (coq_segs(t), coq_segs(t))
        try:
            vals = ctx.coq_eval("C18_traces_%d" % (s0 // shard), body, requires=REQ)
        except common.CoqEvalError as e:
            ctx.fail("correspondence-broken", "the logger model could not be evaluated: " + str(e)[-1500:], has_input=False)
            return
        for t, v in zip(part, vals):
            # ((steps, final), sends) is printed flat
            msteps, (mbufs, (mdecl, mrec), mfiles, (mtmp, mrem)), msends = v
            msteps = [list(x) for x in msteps]
            mb = [[f, [[l, [list(x) for x in q]] for (l, q) in d]] for (f, d) in mbufs]
            fin = t["final"]
            ib = [[f, [[l, [norm_view(x) for x in q]] for l, q in d]] for f, d in fin["bufs"]]
            diffs = []
            isteps = [st_ for st_, o in zip(t["steps"], t["ops"]) if o[0] != "fault"]
            iops = [o for o in t["ops"] if o[0] != "fault"]
            if msteps != isteps:
                k = next((i for i, (a, b) in enumerate(zip(msteps, isteps)) if a != b), -1)
                diffs.append("step %d (ret, declared, recorded, buffered): model %r, implementation %r, op %r"
                             % (k, msteps[k] if k >= 0 else None, isteps[k] if k >= 0 else None, iops[k] if k >= 0 else None))
            if False:
                k = next((i for i, (a, b) in enumerate(zip(msteps, t["steps"])) if a != b), -1)
                diffs.append("step %d (ret, declared, recorded, buffered): model %r, implementation %r, op %r"
                             % (k, msteps[k] if k >= 0 else None, t["steps"][k] if k >= 0 else None, t["ops"][k] if k >= 0 else None))
            if mb != ib:
                diffs.append("buffers: model %r, implementation %r" % (mb, ib))
            if (mdecl, mrec) != (fin["declared"], fin["recorded"]):
                diffs.append("declared/recorded: model %r, implementation %r" % ((mdecl, mrec), (fin["declared"], fin["recorded"])))
            mf = [[list(x) for x in f] for f in mfiles]
            if mf != [[norm_view(x) for x in f] for f in fin["files"]]:
                diffs.append("incident files: model %r, implementation %r" % (mf, fin["files"]))
            if mtmp != fin["tmp"]:
                diffs.append("abandoned/active .tmp files: model %d, implementation %d" % (mtmp, fin["tmp"]))
            if mrem != fin["remaining"]:
                diffs.append("remaining trailing events: model %d, implementation %d" % (mrem, fin["remaining"]))
            if [list(x) for x in msends] != t["order"]:
                k = next((i for i, (a, b) in enumerate(zip(msends, t["order"])) if list(a) != b), min(len(msends), len(t["order"])))
                diffs.append("events handed to an immediate observer: model %d, implementation %d; first difference at %d: %r / %r"
                             % (len(msends), len(t["order"]), k, msends[k:k + 2], t["order"][k:k + 2]))
            ctx.traces += 1
            if diffs:
                nbad += 1
                if nbad <= 3:
                    ctx.fail("correspondence/logger", "model and implementation disagree: " + "; ".join(diffs)[:1800],
                             replay=dict(cfg=list(t["cfg"]), ops=t["ops"], flags=t["flags"], diffs=diffs), has_input=False)
    ctx.extra["correspondence_logger_traces"] = len(traces)
    ctx.extra["correspondence_logger_disagreements"] = nbad


# ====================================================================== Subscription schedules
def gen_sched(rng, maxq, maxfl, real=False):
    ops = []
    if real:
        # reach the real limits: a burst beyond MAX_QUEUE_SIZE, then slow acknowledgements
        ops += ["S"] * rng.randint(3, 30) + ["T"]
        ops += ["S"] * (maxq + rng.randint(-3, 40))
        for i in range(rng.randint(20, 80)):
            ops.append(rng.choices(["S", "T", "A", "N"], [0.45, 0.25, 0.29, 0.01])[0])
        return ops
    mode = rng.choice(["burst", "slow", "mixed", "mixed"])
    w = {"burst": [0.7, 0.1, 0.19, 0.01], "slow": [0.5, 0.25, 0.22, 0.03], "mixed": [0.45, 0.2, 0.33, 0.02]}[mode]
    for i in range(rng.randint(10, 80)):
        ops.append(rng.choices(["S", "T", "A", "N"], w)[0])
    return ops


def is_subseq(a, b):
    it = iter(b)
    return all(x in it for x in a)


def gen_prefill(rng, real):
    """what the history buffers hold when the subscriber arrives: from nothing to far more than MAX_QUEUE_SIZE"""
    ops, cid = [], 0
    if real:
        if rng.random() < 0.5:            # many full default-size buffers
            for f in range(1, rng.randint(21, 30) + 1):
                for i in range(rng.randint(100, 115)):
                    ops.append(["msg", f, 20, cid])
                    cid += 1
        else:                             # one large configured buffer
            n = rng.randint(2050, 2600)
            ops.append(["size", 1, 20, n + rng.randint(-30, 400)])
            for i in range(n):
                ops.append(["msg", 1, 20, cid])
                cid += 1
        return ops
    nf = rng.randint(1, 4)
    for i in range(rng.randint(0, 2)):
        ops.append(["size", rng.randint(0, nf), rng.choice([20, 30]), rng.choice([0, 1, 3, 10])])
    from harness import c18_impl
    for i in range(rng.choice([0, 1, 2, 5, 9, 17, 40])):
        o = ["msg", rng.randint(0, nf), rng.choice([20, 20, 30]), cid]
        if rng.random() < 0.06:          # the caller's own number: an int, or any other object
            o.append(rng.choice([rng.randint(0, 50), ["odd", rng.choice(sorted(k for k, v in c18_impl.NUM_KINDS.items() if v[1] == "NumOdd"))]]))
        ops.append(o)
        cid += 1
    return ops


FIXED_SUBS = [
    # (maxq, maxfl, prefill, catch_up, schedule): one witness per family of earlier seeded changes
    (5, 1, [], False, "SSTASTATAT"),                                   # an event emitted between an ack and the next turn
    (3, 2, [["msg", 0, 20, i] for i in range(10)], True, "TSSTATATSSSSST"),    # catch-up batch larger than the queue limit
    (None, None, [["msg", f, 20, (f - 1) * 100 + i] for f in range(1, 27) for i in range(100)], True,
     "T" + "S" * 5 + "TATATSSTAT"),                                     # 2600 buffered events, real MAX_QUEUE_SIZE
    (2, 1, [["size", 1, 20, 50]] + [["msg", 1, 20, i] for i in range(60)], True, "SSSTATSTAT"),
    # (review 2) buffered events whose number is not an integer: the catch-up batch still arrives (key -1: first)
    (3, 2, [["msg", 0, 20, 0, ["odd", "str"]], ["msg", 0, 20, 1], ["msg", 1, 20, 2, ["odd", "none"]], ["msg", 0, 30, 3],
            ["msg", 0, 20, 4, ["odd", "float"]], ["msg", 1, 20, 5, ["odd", "list"]], ["msg", 0, 20, 6, ["odd", "obj"]], ["msg", 0, 20, 7, 3]],
     True, "TSSTAT"),
]


def subscription_traces(ctx, impl):
    out = []
    n = ctx.n(220, 4000)
    nreal = ctx.n(4, 24)
    from foolscap.logging import publish
    with impl.E.quiet():
        for i in range(len(FIXED_SUBS) + n + nreal):
            if i < len(FIXED_SUBS):
                maxq, maxfl, prefill, catch_up, sched = FIXED_SUBS[i]
                ops = list(sched)
                real = maxq is None
            else:
                real = i >= len(FIXED_SUBS) + n
                if real:
                    maxq = maxfl = None
                else:
                    maxq, maxfl = ctx.rng.choice([0, 1, 2, 3, 5, 8]), ctx.rng.choice([1, 1, 2, 3, 10])
                catch_up = ctx.rng.random() < (0.5 if real else 0.4)
                prefill = gen_prefill(ctx.rng, real) if (catch_up or ctx.rng.random() < 0.2) else []
                ops = gen_sched(ctx.rng, publish.Subscription.MAX_QUEUE_SIZE if real else maxq,
                                publish.Subscription.MAX_IN_FLIGHT if real else maxfl, real)
            r = impl.run_subscription(maxq, maxfl, ops, ctx.rng, prefill, catch_up)
            MQ, MF = r["limits"]
            if r["subscribe_raised"] is not None:
                odd = [o for o in prefill if o[0] == "msg" and len(o) > 4 and isinstance(o[4], list)]
                ctx.fail("oracle/incident-lost-noninteger-num" if odd else "oracle/subscribe-raises",
                         "Subscription.subscribe(catch_up=%s) raised %r with %d buffered events (%d of them logged with a "
                         "non-integer num=): the subscriber gets no catch-up batch" % (catch_up, r["subscribe_raised"],
                                                                                       len(r["buffered"]), len(odd)),
                         replay=dict(maxq=MQ, maxfl=MF, catch_up=catch_up, prefill=prefill[:60]))
            full = flight = False
            nbuf = len(r["buffered"])
            replay = dict(maxq=MQ, maxfl=MF, ops="".join(ops), catch_up=catch_up, buffered_events=nbuf,
                          prefill=prefill if len(prefill) <= 60 else dict(summary="%d ops" % len(prefill), head=prefill[:5],
                                                                          sizes=[o for o in prefill if o[0] == "size"],
                                                                          facilities=len(set(o[1] for o in prefill))))
            what = "subscribe(catch_up=%s) with %d buffered events, then %s" % (catch_up, nbuf, "".join(ops)[:200])
            for k, (ql, infl, marked, subd, ndel) in enumerate([r["at_subscribe"]] + r["steps"]):
                if ql > MQ:
                    ctx.fail("oracle/subscriber-queue-over-limit", "Subscription.queue holds %d events > MAX_QUEUE_SIZE %d %s: %s"
                             % (ql, MQ, "right after subscribe()" if k == 0 else "after step %d" % (k - 1), what), replay=replay)
                    break
                if infl > MF or infl < 0:
                    ctx.fail("oracle/subscriber-in-flight-over-limit", "Subscription.in_flight = %d (MAX_IN_FLIGHT %d) %s: %s"
                             % (infl, MF, "right after subscribe()" if k == 0 else "after step %d" % (k - 1), what), replay=replay)
                    break
                full = full or ql == MQ
                flight = flight or infl == MF
            emitted = list(range(r["emitted"]))
            seen_all = r["only"] + r["delivered"] + r["queue"]
            # (events logged with the caller's own num= are placed by that number / by the key -1: outside the order claim)
            explicit = set(o[3] for o in prefill if o[0] == "msg" and len(o) > 4 and o[4] is not None)
            if not is_subseq([c for c in seen_all if c not in explicit], emitted) or len(set(seen_all)) != len(seen_all):
                ctx.fail("oracle/subscriber-order", "catch-up %r + delivered %r + queued %r is not an order-preserving subsequence "
                         "of the emitted events 0..%d (%s)" % (r["only"][:20], r["delivered"][:40], r["queue"][:40], r["emitted"] - 1,
                                                              what), replay=replay)
            if catch_up and not set(r["buffered"]) <= set(seen_all):
                ctx.fail("oracle/catch-up-incomplete", "a catch-up subscriber never got buffered events %r (%s)"
                         % (sorted(set(r["buffered"]) - set(seen_all))[:20], what), replay=replay)
            if r["rets"] != sorted(set(r["rets"])):
                ctx.fail("oracle/numbers-not-increasing", "msg returned %r with a subscriber attached" % (r["rets"][:40],),
                         replay=replay)
            r.update(ops=ops, prefill=prefill, catch_up=catch_up)
            out.append(r)
            ctx.case(["sub", MQ, MF, "".join(ops), catch_up, prefill if len(prefill) < 100 else [len(prefill), prefill[-1]]],
                     nontrivial=full or flight)
            ctx.hist("sub_limits", "%d/%d" % (MQ, MF))
            ctx.hist("sub_reached", ("queue-full " if full else "") + ("in-flight-max" if flight else "") or "neither")
            if catch_up:
                ctx.hist("catch_up_buffered_vs_queue_limit", "above" if nbuf > MQ else "equal" if nbuf == MQ else "below")
            if i < 1:
                ctx.sample(dict(kind="subscription", maxq=MQ, maxfl=MF, ops="".join(ops), delivered=r["delivered"][:20]))
    return out


SUB_DEFS = """
Open Scope Z_scope.
Definition sobs (s : sub) := (Z.of_nat (List.length (q_queue s)), q_inflight s, q_marked s, q_subscribed s,
                              Z.of_nat (List.length (q_delivered s))).
Fixpoint srun (mq mf : Z) (s : sub) (ops : list sop) :=
  match ops with [] => ([], s) | o :: t => let s1 := sub_step mq mf s o in let '(l, s2) := srun mq mf s1 t in (sobs s1 :: l, s2) end.
Definition strace (mq mf : Z) (cu : bool) (pre : list op) (ops : list sop) :=
  let '(s0, direct, raised) := sub_subscribe cu (s_bufs (fst (run (mkCfg false false NoFault) init pre))) in
  let '(l, s) := srun mq mf s0 ops in (sobs s0, map e_id direct, l, q_delivered s, q_queue s, raised).
"""


def correspond_subs(ctx, subs):
    nbad = 0
    size = lambda r: len(r["ops"]) + len(r["prefill"])
    small = [r for r in subs if size(r) <= 200]
    big = [r for r in subs if size(r) > 200]
    shards = [small[i:i + 120] for i in range(0, len(small), 120)] + [big[i:i + 4] for i in range(0, len(big), 4)]
    for si, part in enumerate(shards):
        body = SUB_DEFS
        for r in part:
            cid = r["first_cid"]
            cops = []
            for o in r["ops"]:
                if o == "S":
                    cops.append("Send %d" % cid)
                    cid += 1
                else:
                    cops.append({"T": "Turn", "A": "Ack", "N": "Nack"}[o])
            pre = [("SetSize %s %s %s" % (coq_Z(o[1]), coq_Z(o[2]), coq_Z(o[3]))) if o[0] == "size" else
                   ("Msg %s %s %s true true %s" % (coq_num(o[4] if len(o) > 4 else None), coq_Z(o[1]), coq_Z(o[2]), coq_Z(o[3])))
                   for o in r["prefill"]]
            body += "Eval vm_compute in strace %s %s %s %s %s.\n" % (coq_Z(r["limits"][0]), coq_Z(r["limits"][1]),
                                                                    coq_bool(r["catch_up"]), coq_list(pre), coq_list(cops))
        try:
            vals = ctx.coq_eval("C18_subs_%d" % si, body, requires=REQ)
        except common.CoqEvalError as e:
            ctx.fail("correspondence-broken", "the Subscription model could not be evaluated: " + str(e)[-1500:], has_input=False)
            return
        for r, v in zip(part, vals):
            # Coq prints left-nested pairs flat: the five components of `sobs s0` come first
            m0, (mdirect, msteps, mdel, mq, mraised) = v[:5], v[5:]
            ms = [list(x) for x in msteps]
            ctx.traces += 1
            if list(m0) != r["at_subscribe"] or mdirect != r["only"] or ms != r["steps"] or mdel != r["delivered"] or mq != r["queue"] \
                    or bool(mraised) != (r["subscribe_raised"] is not None):
                nbad += 1
                k = next((i for i, (a, b) in enumerate(zip(ms, r["steps"])) if a != b), -1)
                if nbad <= 3:
                    ctx.fail("correspondence/subscription", "model and implementation disagree (limits %r, catch_up %r, %d buffered): "
                             "after subscribe model %r / implementation %r; catch-up batch model %r.. (%d) / implementation %r.. (%d); "
                             "step %d of %s: model %r, implementation %r; delivered model %r / implementation %r"
                             % (r["limits"], r["catch_up"], len(r["buffered"]), list(m0), r["at_subscribe"], mdirect[:10], len(mdirect),
                                r["only"][:10], len(r["only"]), k, "".join(r["ops"])[:120], ms[k] if k >= 0 else None,
                                r["steps"][k] if k >= 0 else None, mdel[:30], r["delivered"][:30]),
                             replay=dict(ops="".join(r["ops"]), limits=r["limits"], catch_up=r["catch_up"],
                                         prefill=r["prefill"][:50]), has_input=False)
    ctx.extra["correspondence_subscription_traces"] = len(subs)
    ctx.extra["correspondence_subscription_disagreements"] = nbad


# ====================================================================== triggers at every point of an incident's life
def fmsg(cid, lvl, fac=0, fam_spec=None):
    return ["msg", None, fac, lvl, fam_spec or ["int", 1], "plain", cid]


def fixed_fine():
    """one witness per family: (name, trailing, iterations)"""
    out = []
    # second trigger in the same instant as the trailing timer, AFTER it (between stop_recording and finished_recording)
    out.append(("after-timer", True, [["calls", [fmsg(0, 20), fmsg(1, 30), fmsg(2, 20)], None], ["timer", [], [fmsg(3, 35)]],
                                      ["timer", [], []], ["timer", [], []]]))
    # the 100-event quota ends the recording inside a batch; an application observer reacts to a later event of the batch
    burst = [fmsg(0, 30)] + [fmsg(i, 20) for i in range(1, 104)]
    out.append(("after-quota", True, [["calls", burst, [101, fmsg(200, 35)]], ["timer", [], []], ["timer", [], []]]))
    # second trigger while trailing (recorded as a trailing event of the first incident), third after the files are closed
    out.append(("while-trailing", True, [["calls", [fmsg(0, 30)], None], ["calls", [fmsg(1, 35), fmsg(2, 20)], None],
                                         ["timer", [], []], ["calls", [fmsg(3, 40)], None], ["timer", [], []], ["timer", [], []]]))
    # the trigger is the 101st event after the first one / sits beyond the quota inside one burst
    seq = [["calls", [fmsg(0, 30)], None]] + [["calls", [fmsg(i, 20)], None] for i in range(1, 101)] + \
          [["calls", [fmsg(101, 30)], None], ["calls", [fmsg(102, 20)], None], ["timer", [], []], ["timer", [], []]]
    out.append(("quota-101st", True, seq))
    out.append(("quota-burst", True, [["calls", [fmsg(0, 30)] + [fmsg(i, 20) for i in range(1, 120)] + [fmsg(120, 35)]
                                       + [fmsg(i, 20) for i in range(121, 130)], None], ["timer", [], []], ["timer", [], []]]))
    # a call due in the same instant as the trailing timer, BEFORE it
    out.append(("before-timer", True, [["calls", [fmsg(0, 30)], None], ["timer", [fmsg(1, 30)], []], ["timer", [], []],
                                       ["timer", [], []]]))
    out.append(("nontrailing", False, [["calls", [fmsg(0, 30), fmsg(1, 35)], [0, fmsg(2, 30)]], ["timer", [fmsg(3, 30)], [fmsg(4, 40)]]]))
    return out


def gen_fine(rng, impl):
    its, cid = [], [0]

    def m(lvl=None):
        fam = rng.choices(["ok", "odd", "bad"], [0.8, 0.15, 0.05])[0]
        o = ["msg", None, rng.choice([0, 0, 2, 3]), rng.choice([10, 20, 20, 20, 23, 30, 35, 40]) if lvl is None else lvl,
             impl.gen_value(rng, fam), rng.choice(["plain", "format", "message-kw"]), cid[0]]
        cid[0] += 1
        return o
    trailing = rng.random() < 0.85
    for k in range(rng.randint(3, 10)):
        r = rng.random()
        if r < 0.45:
            calls = [m() for i in range(rng.randint(1, 5))]
            react = [rng.randint(0, max(0, len(calls) - 1)), m(rng.choice([20, 30, 35]))] if rng.random() < 0.35 else None
            its.append(["calls", calls, react])
        elif r < 0.55:
            # a burst around the trailing-event quota
            n = rng.randint(95, 108)
            calls = [m(30)] + [m(20 if rng.random() < 0.96 else 35) for i in range(n)]
            react = [rng.randint(96, 104), m(rng.choice([30, 40]))] if rng.random() < 0.7 else None
            its.append(["calls", calls, react])
        else:
            its.append(["timer", [m() for i in range(rng.choice([0, 0, 1, 2]))], [m() for i in range(rng.choice([0, 1, 1, 2]))]])
    its += [["timer", [], []], ["timer", [], []]]
    return trailing, its


def run_fine(ctx, impl, name, trailing, its):
    """drive iterations on the real logger; oracle: msg total / numbers increase / every trigger ends up in some incident file"""
    from foolscap.logging import log as flog
    rig = impl.LoggerRig("fine", True, trailing, logfile=False)
    L = rig.L
    steps, flags = [], []
    last = [None]
    replay = dict(trailing=trailing, iterations=its if sum(len(i[1]) for i in its) < 60 else
                  dict(summary=[[i[0], len(i[1]), (i[2] if i[0] == "calls" else len(i[2]))] for i in its][:130], name=name))
    with impl.E.quiet():
        for k, it in enumerate(its):
            ops = list(it[1]) + ([it[2][1]] if it[0] == "calls" and it[2] else []) if it[0] == "calls" else list(it[1]) + list(it[2])
            n0 = len(rig.order)
            res = rig.iteration(it)
            if len(res) != len(ops):
                # a reaction that never happened (its index was not reached): the model skips it as well
                ops = ops[:len(res)]
            fl = []
            for (r, exc, reprok), op in zip(res, ops):
                if exc is not None:
                    ctx.fail("oracle/msg-raises", "log.msg raised %r in iteration %d (%s)" % (exc, k, name), replay=dict(replay, step=k))
                elif op[0] in ("msg", "bad"):
                    if not isinstance(r, int) or (last[0] is not None and r <= last[0]):
                        ctx.fail("oracle/numbers-not-increasing", "msg returned %r after %r in iteration %d" % (r, last[0], k),
                                 replay=dict(replay, step=k))
                    last[0] = r
                fl.append(reprok)
            # e_ok per op: from the event it emitted
            new = rig.order[n0:]
            okmap = {}
            for ev in new:
                i_ = impl.ev_id(ev)
                if i_ is not None and i_ >= 0 and not impl.plain_ok(ev):
                    okmap[i_] = False
            flags.append([(okmap.get(op[6] if op[0] == "msg" else op[2], True), rp) for op, rp in zip(ops, fl)])
            steps.append([[NORET if (x[0] is None or not isinstance(x[0], int)) else x[0] for x in res],
                          L.incidents_declared, L.incidents_recorded])
        rig.turn()
        files = rig.files()
        ir = L.get_active_incident_reporter()
        final = dict(files=files, declared=L.incidents_declared, recorded=L.incidents_recorded, tmp=rig.tmp_count(),
                     active=ir is not None)
        # ---- every trigger event ends up in some incident file (header or line)
        present = set()
        for f in files:
            for v in f:
                present.add(tuple(v))
        ntrig = 0
        for ev in rig.order:
            lvl = ev.get("level")
            if not isinstance(lvl, int) or lvl < flog.WEIRD:
                continue
            if L.buffer_sizes.get(ev.get("facility"), {}).get(lvl, L.DEFAULT_SIZELIMIT) < 0:
                continue
            ntrig += 1
            v = tuple(impl.view(ev))
            if v in present:
                continue
            st_ = rig.at_emission.get(id(ev), {})
            phase = st_.get("phase")
            left_ = impl.STOPPED_WITH.get((id(L), st_.get("trigger_num")))
            if phase == "stopped-but-active":
                sig, why = "oracle/trigger-lost-after-stop", ("it was emitted after the previous reporter had stopped recording "
                                                              "(stop_recording) but was still handed to that reporter's new_trigger()")
            elif phase == "recording":
                # by design: a trigger emitted while a reporter is recording is an ordinary trailing event of that incident
                # (new_trigger is the overlap hook) and the reporter's documented limits may drop it
                quota = left_ is not None and left_ < 0
                ctx.extra["absorbed_triggers_dropped_by_limits"] = ctx.extra.get("absorbed_triggers_dropped_by_limits", 0) + 1
                ctx.hist("absorbed_trigger_dropped_by", "trailing-event quota" if quota else "trailing timer")
                if left_ is None:
                    ctx.fail("oracle/trigger-lost-while-recording", "%s: trigger event %r was emitted while a reporter was "
                             "recording, is in no incident file, and that reporter never stopped" % (name, list(v)),
                             replay=dict(replay, lost=list(v)))
                continue
            else:
                sig, why = "oracle/incident-lost", "no reporter was active when it was emitted"
            ctx.fail(sig, "%s: trigger event %r (level %r) is in none of the %d incident files: %s; declared=%d recorded=%d"
                     % (name, list(v), lvl, len(files), why, L.incidents_declared, L.incidents_recorded),
                     replay=dict(replay, lost=list(v)))
        left = [f for f in os.listdir(rig.incdir) if not f.endswith(".flog.bz2")]
        if left:
            ctx.fail("oracle/incident-leftovers", "%s: files left in the incident directory after everything settled: %r" % (name, left),
                     replay=replay)
        rig.close()
    return dict(name=name, trailing=trailing, its=its, flags=flags, steps=steps, final=final, triggers=ntrig)


def fine_traces(ctx, impl):
    out = []
    for name, trailing, its in fixed_fine():
        out.append(run_fine(ctx, impl, name, trailing, its))
        ctx.case(["fine-fixed", name], nontrivial=True)
    for i in range(ctx.n(30, 800)):
        trailing, its = gen_fine(ctx.rng, impl)
        t = run_fine(ctx, impl, "random", trailing, its)
        out.append(t)
        ctx.case(["fine", trailing, its], nontrivial=t["triggers"] >= 2)
        ctx.hist("fine_triggers", min(t["triggers"], 8))
        ctx.hist("fine_recorded", min(t["final"]["recorded"], 8))
    return out


FINE_DEFS = """
Open Scope Z_scope.
Definition vw (e : event) : list Z := [e_num e; e_id e].
Definition rz (l : list (option Z)) := map (fun r => match r with Some n => n | None => -1000000 end) l.
Fixpoint fobs (c : cfg) (f : fine) (its : list iter) :=
  match its with
  | [] => ([], f)
  | it :: t => let '(f1, r) := iterate c f it in let '(l, f2) := fobs c f1 t in
               ((rz r, i_declared (s_inc (f_s f1)), i_recorded (s_inc (f_s f1))) :: l, f2)
  end.
Definition ftrace (c : cfg) (its : list iter) :=
  let '(l, f) := fobs c fine_init its in
  (l, map (map vw) (i_files (s_inc (f_s f))), (i_declared (s_inc (f_s f)), i_recorded (s_inc (f_s f))),
   (i_junk (s_inc (f_s f)) + Z.of_nat (List.length (f_closing f)) + (if is_some (i_rep (s_inc (f_s f))) then 1 else 0))).
"""


def correspond_fine(ctx, traces):
    nbad = 0
    small = [t for t in traces if sum(len(i[1]) for i in t["its"]) <= 80]
    big = [t for t in traces if sum(len(i[1]) for i in t["its"]) > 80]
    shards = [small[i:i + 40] for i in range(0, len(small), 40)] + [big[i:i + 6] for i in range(0, len(big), 6)]
    for si, part in enumerate(shards):
        body = FINE_DEFS
        for t in part:
            cits = []
            for it, fl in zip(t["its"], t["flags"]):
                if it[0] == "calls":
                    ops = list(it[1]) + ([it[2][1]] if it[2] else [])
                    fl = list(fl) + [(True, True)] * (len(ops) - len(fl))
                    cops = [coq_op(o, f) for o, f in zip(ops, fl)]
                    n = len(it[1])
                    react = "None" if not it[2] else "(Some (%d%%nat, %s))" % (it[2][0], cops[n])
                    cits.append("ICalls %s %s" % (coq_list(cops[:n]), react))
                else:
                    ops = list(it[1]) + list(it[2])
                    fl = list(fl) + [(True, True)] * (len(ops) - len(fl))
                    cops = [coq_op(o, f) for o, f in zip(ops, fl)]
                    cits.append("ITimer %s %s" % (coq_list(cops[:len(it[1])]), coq_list(cops[len(it[1]):])))
            body += "Eval vm_compute in ftrace (mkCfg true %s NoFault) %s.\n" % (coq_bool(t["trailing"]), coq_list(cits))
        try:
            vals = ctx.coq_eval("C18_fine_%d" % si, body, requires=REQ)
        except common.CoqEvalError as e:
            ctx.fail("correspondence-broken", "the fine-grained model could not be evaluated: " + str(e)[-1500:], has_input=False)
            return
        for t, (msteps, mfiles, (mdecl, mrec), mtmp) in zip(part, vals):
            ms = [[list(a), b, c] for (a, b, c) in msteps]
            fin = t["final"]
            mf = [[list(x) for x in f] for f in mfiles]
            diffs = []
            if ms != t["steps"]:
                k = next((i for i, (a, b) in enumerate(zip(ms, t["steps"])) if a != b), -1)
                diffs.append("iteration %d (returned numbers, declared, recorded): model %r, implementation %r, %r"
                             % (k, ms[k] if k >= 0 else None, t["steps"][k] if k >= 0 else None,
                                (t["its"][k][0], len(t["its"][k][1])) if k >= 0 else None))
            if mf != [[list(x) for x in f] for f in fin["files"]]:
                diffs.append("incident files: model %r, implementation %r" % ([[x[1] for x in f][:8] for f in mf],
                                                                              [[x[1] for x in f][:8] for f in fin["files"]]))
            if (mdecl, mrec) != (fin["declared"], fin["recorded"]):
                diffs.append("declared/recorded: model %r, implementation %r" % ((mdecl, mrec), (fin["declared"], fin["recorded"])))
            if mtmp != fin["tmp"]:
                diffs.append("unfinished incidents: model %d, implementation %d .tmp files" % (mtmp, fin["tmp"]))
            ctx.traces += 1
            if diffs:
                nbad += 1
                if nbad <= 3:
                    ctx.fail("correspondence/fine", "%s: model and implementation disagree: %s" % (t["name"], "; ".join(diffs)[:1800]),
                             replay=dict(name=t["name"], trailing=t["trailing"],
                                         iterations=t["its"] if len(str(t["its"])) < 4000 else "long"), has_input=False)
    ctx.extra["correspondence_fine_traces"] = len(traces)
    ctx.extra["correspondence_fine_disagreements"] = nbad


# ====================================================================== every writer of log files reads back
ABSENT = "<no facility kwarg>"
# text facilities, no facility at all, and legal non-text ones: explicit None, numbers, bytes, a tuple
WF_FACS = [ABSENT, "big.facility", "big.facility.sub", "bigger", "other/x", None, 7, b"big.facility", ("big", 1), ""]
FILTER_OPTS = [[], ["--above", "UNUSUAL"], ["--above", "30"], ["--strip-facility", "big.facility"], ["--strip-facility", "big"],
               ["--strip-facility", ""], ["--strip-facility", "7"], ["--strip-facility", "None"],
               ["--above", "23", "--strip-facility", "other"], ["--from", "loc"], ["--from", "zz"], ["--before", "4000000000"],
               ["--after", "4000000000"], ["--above", "0"], ["--above", "41"]]


def canon_rec(r):
    return json.dumps(r, sort_keys=True)


def expected_filter(recs, opts, flog):
    """independent reading of `flogtool filter`'s documented selection"""
    o = dict(zip(opts[::2], opts[1::2]))
    levelmap = dict(NOISY=flog.NOISY, OPERATIONAL=flog.OPERATIONAL, UNUSUAL=flog.UNUSUAL, INFREQUENT=flog.INFREQUENT,
                    CURIOUS=flog.CURIOUS, WEIRD=flog.WEIRD, SCARY=flog.SCARY, BAD=flog.BAD)
    out = []
    for r in recs:
        if "d" in r:
            d = r["d"]
            if "--above" in o:
                a = levelmap[o["--above"]] if o["--above"] in levelmap else int(o["--above"])
                if d["level"] < a:
                    continue
            if "--strip-facility" in o and isinstance(d.get("facility", ""), str) \
                    and d.get("facility", "").startswith(o["--strip-facility"]):
                continue
            if "--from" in o and not r["from"].startswith(o["--from"]):
                continue
            if "--before" in o and d["time"] >= int(o["--before"]):
                continue
            if "--after" in o and d["time"] <= int(o["--after"]):
                continue
        out.append(r)
    return out


def writer_family(ctx, impl):
    """LogFileObserver (plain, .bz2), incident reporters, flogtool tail --save-to (plain, bz2), log gatherer (incl.
    rotation), incident gatherer, and flogtool filter from each of these into a new plain file / a new .bz2 file / in
    place: whatever is written must come back through flogfile.get_events with the same records"""
    import bz2, shutil
    from foolscap.logging import log as flog, flogfile, filter as ffilter, tail as ftail, gatherer as fgath
    runs = []
    nhist = ctx.n(7, 80)
    with impl.E.quiet():
        for h in range(nhist):
            fixed = h == 0
            rng = ctx.rng
            rig = impl.LoggerRig("writers", True, rng.random() < 0.5 and not fixed, logfile=True)
            L = rig.L
            lfo2_path = os.path.join(rig.dir, "all2.flog.bz2")
            lfo2 = flog.LogFileObserver(lfo2_path, level=0)
            L.addObserver(lfo2.msg)
            hist = []
            nmsg = len(WF_FACS) if fixed else rng.randint(3, 25)
            for cid in range(nmsg):
                if fixed:
                    fac, lvl = WF_FACS[cid % len(WF_FACS)], [10, 20, 23, 30, 35, 40, 20, 25, 20, 30][cid]
                    vs = [["int", 1], ["str", u"thr\u00e9e"], ["cyclist"], ["deep", 3000], ["badrepr"], ["none"]][cid % 6]
                else:
                    fac, lvl = rng.choice(WF_FACS), rng.choice([5, 10, 20, 23, 25, 30, 35, 40])
                    vs = impl.gen_value(rng, rng.choices(["ok", "odd", "bad"], [0.7, 0.2, 0.1])[0])
                kw = dict(cid=cid, level=lvl, x=impl.build(vs))
                if fac is not ABSENT:
                    kw["facility"] = fac
                hist.append([repr(fac), lvl, vs])
                L.msg(u"m%d \u00e9" % cid, **kw)
                rig.turn()
            L.msg("final trigger", cid=nmsg, level=flog.WEIRD)
            hist.append([repr(ABSENT), flog.WEIRD, ["none"]])
            rig.turn()
            rig.timer()
            rig.close()
            lfo2._stop()
            emitted = list(rig.order)
            want_all = [[e["num"], e["level"], e["message"]] for e in emitted]
            replay0 = dict(history=hist)

            def read(path, what, replay):
                try:
                    return list(flogfile.get_events(path))
                except Exception as e:
                    ctx.fail("oracle/written-file-unreadable", "%s: %s cannot be read back with flogfile.get_events: %s: %s"
                             % (what, os.path.basename(path), type(e).__name__, e), replay=replay)
                    return None

            def whole(path, what):
                recs = read(path, what, dict(replay0, writer=what))
                if recs is None:
                    return None
                got = [[r["d"].get("num"), r["d"].get("level"), r["d"].get("message")] for r in recs if "d" in r]
                if got != want_all or not recs or "header" not in recs[0]:
                    ctx.fail("oracle/written-file-differs", "%s: %d events were written, read back %d; first difference at %d"
                             % (what, len(want_all), len(got), next((i for i, (a, b) in enumerate(zip(got, want_all)) if a != b),
                                                                   min(len(got), len(want_all)))), replay=dict(replay0, writer=what))
                ctx.case(["writer", what, hist if len(hist) < 12 else [len(hist), hist[-2]]], nontrivial=True)
                ctx.hist("writer_path", what)
                return recs
            sources = []
            r = whole(rig.lfo_path, "LogFileObserver(plain)")
            sources.append(("logfile-plain", rig.lfo_path, r))
            r = whole(lfo2_path, "LogFileObserver(.bz2)")
            sources.append(("logfile-bz2", lfo2_path, r))
            # flogtool tail --save-to
            for kind, opener, fn in (("plain", lambda p: open(p, "wb"), "tail.flog"), ("bz2", lambda p: bz2.BZ2File(p, "w"), "tail.flog.bz2")):
                p = os.path.join(rig.dir, fn)
                sv = ftail.LogSaver("nodeid", opener(p))
                sv.emit_header({"foolscap": "x"}, 123)
                for e in emitted:
                    try:
                        sv.remote_msg(e)
                    except Exception as ex:
                        ctx.fail("oracle/writer-raises", "tail.LogSaver.remote_msg raised %s: %s" % (type(ex).__name__, ex),
                                 replay=dict(replay0, writer="tail-" + kind))
                sv.disconnected()
                sources.append(("tail-" + kind, p, whole(p, "tail.LogSaver(%s)" % kind)))
            # log gatherer: savefile, then rotation
            class G(object):
                basedir = rig.dir
                bzip = None
                format_time = fgath.GathererService.format_time
                _open_savefile = fgath.GathererService._open_savefile
                msg = fgath.GathererService.msg
                do_rotate = fgath.GathererService.do_rotate
            g = G()
            g._open_savefile(1000000000.0)
            for e in emitted:
                try:
                    g.msg("nodeid", e)
                except Exception as ex:
                    ctx.fail("oracle/writer-raises", "GathererService.msg raised %s: %s" % (type(ex).__name__, ex),
                             replay=dict(replay0, writer="gatherer"))
            rotated = []
            g.do_rotate().addCallback(rotated.append)
            g._savefile.close()
            if rotated:
                sources.append(("gatherer", rotated[0], whole(rotated[0], "log gatherer savefile (rotated)")))
                read(g._savefile_name, "log gatherer savefile (fresh)", dict(replay0, writer="gatherer-fresh"))
            # incident files (reporter), and the incident gatherer's copy of the first one
            for fn in rig.published:
                p = os.path.join(rig.incdir, fn)
                recs = read(p, "incident reporter", dict(replay0, writer="incident"))
                sources.append(("incident", p, recs))
                ctx.hist("writer_path", "incident reporter")
            inc = [x for x in sources if x[0] == "incident" and x[2]]
            if inc:
                recs = inc[0][2]
                class IO(object):
                    tubid_s = "tubx"
                p = os.path.join(rig.dir, "gathered-incident.flog.bz2")
                fgath.IncidentObserver.save_incident(IO(), p, (recs[0]["header"], [r_["d"] for r_ in recs[1:]]))
                back = read(p, "incident gatherer save_incident", dict(replay0, writer="incident-gatherer"))
                if back is not None and ([canon_rec(back[0]["header"])] + [canon_rec(b["d"]) for b in back[1:]]
                                         != [canon_rec(recs[0]["header"])] + [canon_rec(r_["d"]) for r_ in recs[1:]]):
                    ctx.fail("oracle/written-file-differs", "incident gatherer: the saved incident differs from the fetched one",
                             replay=dict(replay0, writer="incident-gatherer"))
                sources.append(("incident-gathered", p, back))
                ctx.hist("writer_path", "incident gatherer")
            # flogtool filter from every source
            k = 0
            for sname, spath, srecs in sources:
                if not srecs:
                    continue
                src_bz2 = spath.endswith(".bz2")
                for target in ("new-plain", "new-bz2", "inplace"):
                    optsets = FILTER_OPTS if fixed else [rng.choice(FILTER_OPTS), rng.choice(FILTER_OPTS[:8])]
                    if fixed and sname not in ("logfile-plain", "logfile-bz2", "incident"):
                        optsets = FILTER_OPTS[:6]
                    for opts in optsets:
                        k += 1
                        work = os.path.join(rig.dir, "f%d-src%s" % (k, ".flog.bz2" if src_bz2 else ".flog"))
                        shutil.copyfile(spath, work)
                        if target == "inplace":
                            args, outp = opts + [work], work
                        else:
                            outp = os.path.join(rig.dir, "f%d-out%s" % (k, ".flog.bz2" if target == "new-bz2" else ".flog"))
                            args = opts + [work, outp]
                        replay = dict(replay0, source=sname, source_is_bz2=src_bz2, target=target, options=opts)
                        what = "flogtool filter %s <%s file from %s>%s" % (" ".join(opts), "bz2" if src_bz2 else "plain", sname,
                                                                        "" if target == "inplace" else " <%s>" % target)
                        o = ffilter.FilterOptions()
                        o.stdout, o.stderr = io_mod.StringIO(), io_mod.StringIO()
                        try:
                            o.parseOptions(args)
                            ffilter.Filter().run(o)
                        except Exception as e:
                            ctx.fail("oracle/filter-raises", "%s raised %s: %s" % (what, type(e).__name__, e), replay=replay)
                            continue
                        back = read(outp, what, replay)
                        want = expected_filter(srecs, opts, flog)
                        ctx.case(["filter", sname, target, opts, len(srecs)], nontrivial=True)
                        ctx.hist("filter_target", "%s %s" % ("bz2-source" if src_bz2 else "plain-source", target))
                        if back is not None and [canon_rec(b) for b in back] != [canon_rec(w) for w in want]:
                            ctx.fail("oracle/written-file-differs", "%s: kept %d records, expected %d of %d"
                                     % (what, len(back), len(want), len(srecs)), replay=replay)
                        leftovers = [f for f in os.listdir(rig.dir) if f.endswith(".tmp")]
                        if leftovers:
                            ctx.fail("oracle/filter-leftovers", "%s left %r behind" % (what, leftovers), replay=replay)
                        if target == "inplace" and back is not None and read(work, what, replay) is None:
                            pass
                        # model input: only --above / --strip-facility are modelled
                        oo = dict(zip(opts[::2], opts[1::2]))
                        if set(oo) <= {"--above", "--strip-facility"} and all(isinstance(r_["d"].get("level"), int) for r_ in srecs if "d" in r_):
                            lm = dict(UNUSUAL=flog.UNUSUAL)
                            above = None if "--above" not in oo else lm.get(oo["--above"]) if oo["--above"] in lm else int(oo["--above"])
                            pre = oo.get("--strip-facility")
                            frecs = [("header" in r_, 0 if "header" in r_ else r_["d"]["level"],
                                      bool(pre is not None and "d" in r_ and isinstance(r_["d"].get("facility", ""), str)
                                           and r_["d"].get("facility", "").startswith(pre)), i)
                                     for i, r_ in enumerate(srecs)]
                            idx = {canon_rec(r_): i for i, r_ in enumerate(srecs)}
                            runs.append(dict(above=above, strip=pre is not None, final_bz2=outp.endswith(".bz2"),
                                             inplace=target == "inplace", recs=frecs, what=what,
                                             got=None if back is None else [idx.get(canon_rec(b), -1) for b in back]))
                        for f in (work, outp):
                            if os.path.exists(f):
                                os.unlink(f)
    return runs


def correspond_writers(ctx, runs):
    nbad = 0
    for s0 in range(0, len(runs), 150):
        part = runs[s0:s0 + 150]
        body = "Open Scope Z_scope.\nDefinition ids (o : option (list frec)) := match o with Some l => (true, map fr_id l) | None => (false, []) end.\n"
        for r in part:
            recs = coq_list(["mkFrec %s %s %s %s" % (coq_bool(a), coq_Z(b), coq_bool(c), coq_Z(d)) for a, b, c, d in r["recs"]])
            body += "Eval vm_compute in ids (filter_run %s %s %s %s %s).\n" % (
                "None" if r["above"] is None else "(Some %s)" % coq_Z(r["above"]), coq_bool(r["strip"]), coq_bool(r["final_bz2"]),
                coq_bool(r["inplace"]), recs)
        try:
            vals = ctx.coq_eval("C18_writers_%d" % (s0 // 150), body, requires=REQ)
        except common.CoqEvalError as e:
            ctx.fail("correspondence-broken", "the file model could not be evaluated: " + str(e)[-1500:], has_input=False)
            return
        for r, (okm, mids) in zip(part, vals):
            ctx.traces += 1
            m = mids if okm else None
            if m != r["got"]:
                nbad += 1
                if nbad <= 3:
                    ctx.fail("correspondence/filter", "%s: model reads back %r, implementation %r" % (r["what"], m, r["got"]),
                             replay=dict(what=r["what"], recs=r["recs"][:40]), has_input=False)
    ctx.extra["correspondence_filter_runs"] = len(runs)
    ctx.extra["correspondence_filter_disagreements"] = nbad


# ====================================================================== hostile calls, format_message
def hostile_calls(ctx, impl):
    """every hostile leaf under every call shape, on a logger with everything attached: msg never raises, numbers increase"""
    from foolscap.logging import log as flog
    with impl.E.quiet():
        rig = impl.LoggerRig("hostile", True, True, logfile=True)
        from foolscap.logging import publish
        fo = impl.FakeObserver()
        sub = publish.Subscription(fo, rig.L)
        sub.subscribe(True)
        last = -1
        cid = 0
        leaves = impl.LEAVES_OK + impl.LEAVES_ODD + impl.LEAVES_BAD
        calls = []
        for leaf in leaves:
            for shape in ["plain", "format", "format-missing", "message-kw", "posargs", "posargs2"]:
                for lvl in (20, 30):
                    calls.append(["msg", None, cid % 5 if cid % 5 != 1 else 0, lvl, leaf, shape, cid])
                    cid += 1
        for v in sorted(impl.BAD_CALLS):
            calls.append(["bad", v, cid])
            cid += 1
        extra = [dict(args=(), kw={}), dict(args=(None,), kw={}), dict(args=(impl.BadStr(),), kw={}),
                 dict(args=("%s %s", 1), kw={}), dict(args=("%d", "x"), kw={}), dict(args=("m",), kw=dict(parent="zz")),
                 dict(args=("m",), kw=dict(stacktrace=True)), dict(args=("m",), kw=dict(time="yesterday")),
                 dict(args=("m",), kw=dict(failure="not a failure")), dict(args=("m",), kw=dict(level=True)),
                 dict(args=("m",), kw=dict(level=29.5)), dict(args=("m",), kw=dict(level=float("nan"))),
                 dict(args=("m",), kw=dict(facility=impl.Plain())), dict(args=("m",), kw=dict(format=5)),
                 dict(args=("m",), kw=dict(format=impl.BadStr())), dict(args=("m",), kw=dict(incarnation=impl.BadRepr())),
                 dict(args=(b"bytes %s",), kw={}), dict(args=("m",), kw={"weird key": 1, "from-twisted": impl.BadBoth()})]
        for c in calls:
            r, exc, _ = impl.call_msg(rig, c)
            ctx.case(["hostile", c], nontrivial=True)
            if exc is not None:
                ctx.fail("oracle/msg-raises", "log.msg raised %r for %r" % (exc, c), replay=dict(op=c))
            elif not isinstance(r, int) or r <= last:
                ctx.fail("oracle/numbers-not-increasing", "msg returned %r after %r for %r" % (r, last, c), replay=dict(op=c))
            else:
                last = r
        for j, c in enumerate(extra):
            try:
                r = rig.L.msg(*c["args"], **c["kw"])
                rig.turn()
            except Exception as e:
                ctx.fail("oracle/msg-raises", "log.msg raised %r for extra call #%d %r" % (e, j, sorted(c["kw"])), replay=dict(extra=j))
                continue
            ctx.case(["hostile-extra", j], nontrivial=True)
            if not isinstance(r, int) or r <= last:
                ctx.fail("oracle/numbers-not-increasing", "msg returned %r after %r for extra call #%d" % (r, last, j),
                         replay=dict(extra=j))
            else:
                last = r
        try:
            r = rig.L.err(ValueError("x"))
            rig.L.err(impl.build(["failure"]), "why")
            rig.turn()
        except Exception as e:
            ctx.fail("oracle/msg-raises", "log.err raised %r" % (e,), replay=dict(call="err"))
        # re-entrant calls (not in the Coq model): an immediate observer that logs, a value whose __repr__ / __str__ logs
        inner = []

        def reenter(ev):
            if ev.get("reenter") and len(inner) < 50:
                inner.append((ev["num"], rig.L.msg("logged from inside an observer", cid=-1, level=ev["level"])))
        rig.L.addImmediateObserver(reenter)

        class LogsInStr(object):
            def __str__(self_):
                inner.append((None, rig.L.msg("logged from inside __str__", cid=-1)))
                return "text"
            __repr__ = __str__
        for j, kw in enumerate([dict(reenter=True, level=20), dict(reenter=True, level=30), dict(message=LogsInStr()),
                                dict(x=LogsInStr(), level="bad level"), dict(reenter=True, level=20, facility=[1])]):
            try:
                r = rig.L.msg(*(() if "message" in kw else ("outer %d" % j,)), cid=-1, **kw)
                rig.turn()
            except Exception as e:
                ctx.fail("oracle/msg-raises", "log.msg raised %r for re-entrant call #%d" % (e, j), replay=dict(reentrant=j))
                continue
            ctx.case(["hostile-reentrant", j], nontrivial=True)
            if not isinstance(r, int) or r <= last:
                ctx.fail("oracle/numbers-not-increasing", "msg returned %r after %r for re-entrant call #%d" % (r, last, j),
                         replay=dict(reentrant=j))
            else:
                last = r
            for outer, got in inner:
                if not isinstance(got, int) or got <= r or (outer is not None and outer != r):
                    ctx.fail("oracle/numbers-not-increasing", "a call made from inside call #%d (which returned %r) returned %r"
                             % (j, r, got), replay=dict(reentrant=j))
                last = max(last, got) if isinstance(got, int) else last
            del inner[:]
        rig.L.removeImmediateObserver(reenter)
        # (review 2, finding 4) the limit of "never raises": msg's handler is `except Exception`, so a BaseException that is
        # not an Exception raised by a __str__ escapes.  Observation only (either answer is recorded, none is a failure).
        class KI(object):
            def __str__(self_):
                raise KeyboardInterrupt()
        try:
            rig.L.msg(message=KI(), cid=-1)
            ctx.extra["observation_keyboardinterrupt_in_str"] = "caught by msg()"
        except KeyboardInterrupt:
            ctx.extra["observation_keyboardinterrupt_in_str"] = ("escapes msg(): log.py catches `except Exception` only "
                                                                "(stated next to C18_msg_total)")
        rig.turn()
        if len(sub.queue) > sub.MAX_QUEUE_SIZE or sub.in_flight > sub.MAX_IN_FLIGHT:
            ctx.fail("oracle/subscriber-queue-over-limit", "after the hostile calls queue=%d in_flight=%d" % (len(sub.queue), sub.in_flight),
                     replay=dict(call="hostile"))
        rig.timer()
        rig.close()
    ctx.hist("hostile_calls", "n", len(calls) + len(extra))


# ====================================================================== re-entrant calls (lib/LogReent.v)
def gen_tree(rng, depth=0):
    return [gen_tree(rng, depth + 1) for i in range(rng.choice([0, 0, 1, 2, 3] if depth < 3 else [0]))]


def coq_tree(t):
    return "Call None %s" % coq_list(["(%s)" % coq_tree(k) for k in t])


def reentrant_trees(ctx, impl):
    """call trees on the real logger: an immediate observer (or an application observer run from the eventual queue, or a
    __str__ of the message) makes the inner calls of each event; the numbers returned, in the order the calls start"""
    from foolscap.logging import log as flog
    out = []
    fixed = [[[[]], []], [[[[[]]]]], [[], [], []]]
    with impl.E.quiet():
        for i in range(len(fixed) + ctx.n(40, 600)):
            forest = fixed[i] if i < len(fixed) else [gen_tree(ctx.rng) for k in range(ctx.rng.randint(1, 3))]
            via = ["immediate", "str", "immediate-weird"][i % 3]
            rig = impl.LoggerRig("reent", True, True, logfile=True)
            L = rig.L
            for k in range(ctx.rng.randint(0, 4)):
                L.msg("before", cid=-1)
            seq0 = L.msg("last before", cid=-1)
            order, errors = [], []

            def do(node, lvl):
                idx = len(order)
                order.append(None)
                try:
                    if via == "str":
                        class M(object):
                            def __str__(self_):
                                for kid in node:
                                    do(kid, lvl)
                                return "text"
                        order[idx] = L.msg(M(), cid=-1, level=lvl)
                    else:
                        order[idx] = L.msg("node", cid=-1, level=lvl, kids=node)
                except Exception as e:
                    errors.append(e)

            def obs(ev):
                if "kids" in ev and not ev.get("_done"):
                    ev["_done"] = True
                    for kid in ev["kids"]:
                        do(kid, ev["level"])
            if via != "str":
                L.addImmediateObserver(obs)
            for t in forest:
                do(t, 30 if via == "immediate-weird" else 20)
                rig.turn()
            after = L.msg("after", cid=-1)
            rig.timer()
            rig.close()
            replay = dict(forest=forest, via=via)
            n = len(order)
            if errors:
                ctx.fail("oracle/msg-raises", "log.msg raised %r inside a tree of re-entrant calls (%s)" % (errors[0], via), replay=replay)
            elif order != list(range(seq0 + 1, seq0 + 1 + n)) or after != seq0 + n + 1:
                ctx.fail("oracle/numbers-not-increasing", "re-entrant calls (%s) made in start order returned %r after %r, the next call "
                         "%r: not seq+1, seq+2, .." % (via, order[:30], seq0, after), replay=replay)
            ctx.case(["reentrant", via, forest], nontrivial=n > len(forest))
            ctx.hist("reentrant_calls_per_forest", min(n, 12))
            out.append(dict(forest=forest, seq0=seq0, order=order, after=after, via=via))
    return out


def correspond_reentrant(ctx, runs):
    body = "Open Scope Z_scope.\n"
    for r in runs:
        body += "Eval vm_compute in rcalls %s %s.\n" % (coq_Z(r["seq0"]), coq_list([coq_tree(t) for t in r["forest"]]))
    try:
        vals = ctx.coq_eval("C18_reent", body, requires=REQ + ["Verif.lib.LogReent"])
    except common.CoqEvalError as e:
        ctx.fail("correspondence-broken", "the re-entrancy model could not be evaluated: " + str(e)[-1500:], has_input=False)
        return
    nbad = 0
    for r, (seq, rets) in zip(runs, vals):
        ctx.traces += 1
        if rets != r["order"] or seq + 1 != r["after"]:
            nbad += 1
            if nbad <= 3:
                ctx.fail("correspondence/reentrant", "call forest %r (%s): model returns %r then %d, implementation %r then %r"
                         % (r["forest"], r["via"], rets, seq + 1, r["order"], r["after"]), replay=dict(forest=r["forest"], via=r["via"]),
                         has_input=False)
    ctx.extra["correspondence_reentrant_forests"] = len(runs)
    ctx.extra["correspondence_reentrant_disagreements"] = nbad


def gen_event_dict(rng, impl):
    """an event dict as format_message may see it: from log.msg, from json.loads, or off the wire (bytes)"""
    def val():
        r = rng.random()
        if r < 0.5:
            return impl.build(impl.gen_value(rng, rng.choice(["ok", "ok", "odd"])))
        return rng.choice(["text", b"bytes", 5, None, "%s", "%(a)s", "%d %d", "100%", "%(message)s", b"\xff%s", u"é %(x)s",
                           (1, 2), [], {}, ("a",), impl.BadStr(), impl.BadBoth(), impl.BadRepr()])
    e = {}
    keys = rng.sample(["format", "message", "args", "a", "x", "num", "level"], rng.randint(0, 5))
    for k in keys:
        e[k] = val()
    if rng.random() < 0.3:
        e = {(k.encode() if rng.random() < 0.5 else k): v for k, v in e.items()}
    return e


ODD_KEY_EVENTS = [{5: 1}, {b"\xff": 1, "message": "m"}, {None: 2, "message": "m"}, {("a",): 1, "format": "%(x)s"},
                  {b"caf\xc3\xa9": 1, "message": "ok"}, {b"message": b"\xff bytes"}]


def fmt_model_input(e):
    """event dict -> Coq term of type list (fkey * fval) (lib/LogFmt.v)"""
    names = {"format": 1, "message": 2, "args": 3}
    out = []
    for k, v in e.items():
        if isinstance(k, str):
            kt = "FKText %d" % names.get(k, 10 + len(out))
        elif isinstance(k, bytes):
            try:
                kt = "FKBytes %d true" % names.get(k.decode("utf-8"), 10 + len(out))
            except UnicodeDecodeError:
                kt = "FKBytes %d false" % (10 + len(out))
        else:
            kt = "FKOther"
        if isinstance(v, str):
            vt = "FVText 20"
        elif isinstance(v, bytes):
            try:
                v.decode("utf-8")
                vt = "FVBytes 20 true"
            except UnicodeDecodeError:
                vt = "FVBytes 20 false"
        elif isinstance(v, (tuple, list)) and k in ("args", b"args"):
            vt = "FVArgs"
        else:
            try:
                repr(v)
                vt = "FVObj true"
            except Exception:
                vt = "FVObj false"
        out.append("(%s, %s)" % (kt, vt))
    return "[" + "; ".join(out) + "]"


def format_total(ctx, impl):
    from foolscap.logging import log as flog
    n = ctx.n(1500, 30000)
    cases = []
    for i in range(len(ODD_KEY_EVENTS) + n):
        if i < len(ODD_KEY_EVENTS):
            e = dict(ODD_KEY_EVENTS[i])
        else:
            e = gen_event_dict(ctx.rng, impl)
            if ctx.rng.random() < 0.02:
                e[ctx.rng.choice([7, None, b"\xfe\xff", (1, 2), 2.5])] = "odd key"
        odd = any(not isinstance(k, (str, bytes)) for k in e) or any(isinstance(k, bytes) and not _utf8(k) for k in e)
        outcome = None
        try:
            t = flog.format_message(e)
        except Exception as ex:
            outcome = "raise"
            if odd:
                ctx.fail("oracle/format-raises-nontext-key", "format_message raised %r on an event dict with keys %r (a key that is "
                         "neither text nor utf-8 bytes; ensure_dict_str_keys runs outside the try)" % (ex, sorted(map(repr, e))),
                         replay=dict(keys=sorted(map(repr, e)), values=[repr(type(v)) for v in e.values()]))
            else:
                ctx.fail("oracle/format-raises", "format_message raised %r on an event with keys %r" % (ex, sorted(map(repr, e))),
                         replay=dict(keys=sorted(map(repr, e)), values=[repr(type(v)) for v in e.values()]))
        else:
            if not isinstance(t, str):
                ctx.fail("oracle/format-raises", "format_message returned %r (not text)" % (type(t),), replay=dict(keys=sorted(map(repr, e))))
            ctx.case(["fmt", sorted(map(repr, e)), [type(v).__name__ for v in e.values()], t[:40]], nontrivial=True)
            fb = t.endswith("[formatting failed]")
            outcome = "formatted" if not fb else "unprintable" if t.startswith("[unprintable message]") else \
                "nomessage" if t.startswith("[no message]") else "fallback"
            ctx.hist("format_outcome", "fallback" if fb else "formatted")
        if i < len(ODD_KEY_EVENTS) + ctx.n(400, 3000):
            cases.append((fmt_model_input(e), outcome, sorted(map(repr, e))))
    return cases


def _utf8(b):
    try:
        b.decode("utf-8")
        return True
    except UnicodeDecodeError:
        return False


FMT_DEFS = """
Open Scope Z_scope.
Definition fo (r : res fout) : Z :=
  match r with
  | Raise _ => 0 | Ok Formatted => 1 | Ok (Fallback MUnprintable) => 2 | Ok (Fallback MNoMessage) => 3 | Ok (Fallback _) => 4
  end.
Definition F (e : list (fkey * fval)) := (fo (format_message true e), fo (format_message false e)).
"""


def correspond_format(ctx, cases):
    """the model run with both outcomes of the % operator: the implementation's outcome must be one of the two (raise /
    formatted / fallback kinds), and raising must agree exactly"""
    code = {"raise": 0, "formatted": 1, "unprintable": 2, "nomessage": 3, "fallback": 4}
    nbad = 0
    for s0 in range(0, len(cases), 450):
        part = cases[s0:s0 + 450]
        body = FMT_DEFS + "".join("Eval vm_compute in F %s.\n" % c[0] for c in part)
        try:
            vals = ctx.coq_eval("C18_fmt_%d" % (s0 // 450), body, requires=JREQ + ["Verif.lib.LogFmt"])
        except common.CoqEvalError as e:
            ctx.fail("correspondence-broken", "the format_message model could not be evaluated: " + str(e)[-1500:], has_input=False)
            return
        for (term, outcome, keys), (a, b) in zip(part, vals):
            ctx.traces += 1
            got = code[outcome]
            if got not in (a, b) or ((got == 0) != (a == 0)):
                nbad += 1
                if nbad <= 3:
                    ctx.fail("correspondence/format", "format_message on %s (keys %r): model %r (with / without a working %% operator), "
                             "implementation %s" % (term, keys, (a, b), outcome), replay=dict(event=term), has_input=False)
    ctx.extra["correspondence_format_cases"] = len(cases)
    ctx.extra["correspondence_format_disagreements"] = nbad


# ====================================================================== the JSON fallback chain (lib/LogJson.v)
JREQ = ["Verif.lib.PyLite", "Verif.gen.LogJsonGen", "Verif.lib.LogJson"]

JSON_DEFS = """
Open Scope Z_scope.
Definition fcode (c : fixedstr) : Z :=
  match c with FAt => 0 | FMessage => 1 | FRepr => 2 | FExcRepr => 3 | FStr => 4 | FTraceback => 5 | FFailure => 6
  | FUnJSONable => 7 | FUnreprable => 8 | FReallyUnreprable => 9 | FText => 10 | FKeyPlace => 11 | FUnreprKey => 12
  | FValPlace => 13 end.
Definition kflat (k : pkey) : list Z :=
  match k with
  | KStr s => [0; s] | KInt z => [1; z] | KFloat f => [2; f] | KBool b => [3; if b then 1 else 0] | KNone => [4; 0]
  | KReprOf s => [5; s] | KFixed c => [6; fcode c] | _ => [7; 0]
  end.
Fixpoint flat (j : jv) : list Z :=
  match j with
  | JNull => [0] | JBool b => [1; if b then 1 else 0] | JInt z => [2; z] | JFloat f => [3; f] | JStr s => [4; s]
  | JFixed c => [5; fcode c]
  | JDerived d s => [6; match d with DRepr => 0 | DExcRepr => 1 | DStrOf => 2 | DTraceback => 3 end; s]
  | JList l => 7 :: Z.of_nat (List.length l) :: flat_map flat l
  | JObj kv => 8 :: Z.of_nat (List.length kv) :: flat_map (fun e => kflat (fst e) ++ flat (snd e)) kv
  | JDeep n x => 9 :: n :: flat x
  end.
Definition ecode (e : exn) : Z := match e with ETypeError => 0 | EValueError => 1 | ERecursionError => 2 | EOther => 3 end.
Definition out (r : res (jv * Z)) : Z * list Z :=
  match r with Ok (j, st) => (st, flat j) | Raise e => (-1, [ecode e]) end.
Definition W (e : pv) := out (serialize_st cpython (wrap (PStr 50) (PFloat 51) e)).
Definition H (e : pv) := out (serialize_st cpython (header (PStr 52) e [])).
Definition R (e : pv) := out (serialize_st cpython e).
"""

J_SCALARS = [["none"], ["bool", True], ["bool", False], ["int", 0], ["int", -5], ["int", 2 ** 64 - 1], ["int", 2 ** 64],
             ["int", -2 ** 70], ["float", 1.5], ["float", -0.25], ["nan"], ["str", "text"], ["str", u"é中"], ["str", u"\ud800"],
             ["str", ""]]
J_OPAQUE = [["bytes", "ab\xff"], ["obj"], ["badstr"], ["badrepr"], ["badboth"], ["reallybad"], ["failure"], ["set", [1]], ["setbad"]]
J_LASTRESORT = [["deep", 3000, ["list", None, []]], ["deep", 5000, ["int", 1]], ["pow2", 16600], ["pow2", 14290],
                ["negpow2", 15000]]
J_KEYS_OK = [["str", "k"], ["str", "num"], ["int", 3], ["int", -1], ["float", 2.5], ["bool", True], ["none"]]
J_KEYS_ODD = [["bytes", "k"], ["tuple", [1, 2]], ["obj"], ["badrepr"]]

# one witness per family (earlier seeded changes and every distinct path through the three stages)
J_FIXED = [
    ["int", 1],
    ["badrepr"],
    ["dict", None, [[["tuple", [1, 2]], ["int", 3]]]],                                # stage 2: key json refuses
    ["dict", None, [[["badrepr"], ["int", 1]], [["bytes", "k"], ["obj"]]]],               # stage 2: key whose repr raises
    ["list", "a", [["int", 1], ["ref", "a"]]],                                           # stage 2: list containing itself
    ["dict", "d", [[["str", "a"], ["int", 1]], [["str", "self"], ["ref", "d"]]]],         # stage 2: dict containing itself
    ["tuple", [["list", "b", [["tuple", [["ref", "b"]]]]]]],                             # cycle through a tuple
    ["deep", 3000, ["list", None, []]],                                                  # stage 3: RecursionError in both encoders
    ["pow2", 16600],                                                                     # stage 3: ValueError (digit limit) twice
    ["dict", None, [[["str", "in"], ["dict", None, [[["str", "in2"], ["dict", None, [[["str", "in3"], ["int", 5]]]]]]]], [["int", 7], ["pow2", 15000]]]],
    ["dict", None, [[["tuple", [1]], ["deep", 3000, ["int", 1]]]]],                       # TypeError first, then RecursionError
    ["dict", "c", [[["str", "k"], ["ref", "c"]], [["str", "h"], ["pow2", 16600]]]],     # a cycle met by _last_resort
    ["dict", None, [[["pow2", 16600], ["int", 1]]]],                                   # an integer key too large to print
    ["list", None, [["deep", 40, ["badrepr"]], ["set", [1]], ["failure"], ["reallybad"]]],
    ["deep", 200, ["dict", None, [[["bytes", "k"], ["int", 1]]]]],                        # stage 2 at depth
]


def gen_jspec(rng, depth=0, names=()):
    r = rng.random()
    if depth < 4 and r < 0.22:
        nm = "n%d" % rng.randrange(10 ** 6) if rng.random() < 0.4 else None
        inner = names + ((nm,) if nm else ())
        return ["list", nm, [gen_jspec(rng, depth + 1, inner) for i in range(rng.randint(0, 3))]]
    if depth < 4 and r < 0.30:
        return ["tuple", [gen_jspec(rng, depth + 1, names) for i in range(rng.randint(0, 3))]]
    if depth < 4 and r < 0.55:
        nm = "n%d" % rng.randrange(10 ** 6) if rng.random() < 0.4 else None
        inner = names + ((nm,) if nm else ())
        kv, used = [], set()
        for i in range(rng.randint(0, 4)):
            ks = rng.choice(J_KEYS_OK + J_KEYS_ODD) if rng.random() < 0.5 else ["str", "k%d" % i]
            tag = repr(ks)
            if tag in used or (ks[0] == "int" and "bool" in used) or (ks[0] == "bool" and "int" in used):
                continue
            used.add(tag)
            used.add(ks[0])
            kv.append([ks, gen_jspec(rng, depth + 1, inner)])
        return ["dict", nm, kv]
    if names and r < 0.63:
        return ["ref", rng.choice(names)]
    if depth < 4 and r < 0.68:
        return ["deep", rng.choice([1, 2, 5, 40, 150]), gen_jspec(rng, depth + 1, names)]
    if r < 0.72:
        return rng.choice(J_LASTRESORT)
    if r < 0.86:
        return rng.choice(J_OPAQUE)
    return rng.choice(J_SCALARS)


def spec_kinds(sp, acc=None):
    """which kinds of value that only the last-resort record can hold a spec contains (for the signature)"""
    acc = set() if acc is None else acc
    k = sp[0]
    if k == "deep":
        if sp[1] > 900:
            acc.add("deep-nesting")
        spec_kinds(sp[2], acc)
    elif k in ("pow2", "negpow2"):
        if sp[1] >= 14285:
            acc.add("huge-int")
    elif k == "list":
        for x in sp[2]:
            spec_kinds(x, acc)
    elif k == "tuple" and sp[1] and isinstance(sp[1][0], list):
        for x in sp[1]:
            spec_kinds(x, acc)
    elif k == "dict":
        for ks, x in sp[2]:
            spec_kinds(ks, acc)
            spec_kinds(x, acc)
    return acc


def json_family(ctx, impl):
    """every value through serialize_wrapper / serialize_header / serialize_to_json_utf8 of the real flogfile module:
    never raises, the event's number / level / message read back; a whole file of them through get_events"""
    from foolscap.logging import flogfile
    import bz2
    cases = []
    specs = [(x, how) for x in J_FIXED + J_LASTRESORT + J_OPAQUE + J_SCALARS[:6] for how in ("wrapper", "header", "raw")]
    for i in range(ctx.n(220, 5000)):
        specs.append((gen_jspec(ctx.rng), ctx.rng.choice(["wrapper", "wrapper", "header", "raw"])))
    lines = []
    with impl.E.quiet():
        for k, (x, how) in enumerate(specs):
            num = k if k % 7 else 2 ** 64 - 1 - k
            jb = impl.JBuilder()
            try:
                xv, xt = jb.val(x)
            except (KeyError, TypeError):
                continue          # a ["ref"] to a name that is not an enclosing container / an unhashable key
            fmt_event = how != "raw" and k % 5 == 3
            if how == "raw":
                obj, term = xv, xt
            elif fmt_event:
                # (review 2, finding 2) an event logged with format=: NO 'message' key, a float level, a caller's number that is
                # text, named arguments (one scalar, one arbitrary): C18_format_event_reads_back / C18_event_field_reads_back
                oddnum = k % 2 == 1
                obj = dict(num=("n%d" % k) if oddnum else num, level=29.5, format=u"f%d %%(x)s %%(a)d" % k, x=xv, a=5)
                term = ("PDict 10 [(KStr 7, %s); (KStr 8, PFloat %d); (KStr 10, PStr %d); (KStr %d, %s); (KStr %d, PInt 5)]"
                        % ("PStr %d" % jb.reg(obj["num"]) if oddnum else "PInt %d" % num, jb.reg(29.5), jb.reg(obj["format"]),
                           jb.reg("x"), xt, jb.reg("a")))
            else:
                obj = dict(num=num, level=30, message=u"m%d é" % k, x=xv)
                term = ("PDict 10 [(KStr 7, PInt %d); (KStr 8, PInt 30); (KStr 9, PStr %d); (KStr %d, %s)]"
                        % (num, jb.reg(obj["message"]), jb.reg("x"), xt))
            jb.reg("tub"), jb.reg("incident")
            jb.table[50], jb.table[51], jb.table[52] = "tub", 1.5, "incident"
            kind, got = impl.real_serialize(obj, how)
            kinds = sorted(spec_kinds(x))
            replay = dict(value=x, through=how)
            ctx.case(["json", how, x], nontrivial=True)
            ctx.hist("json_through", how)
            if kind == "raise":
                ctx.fail("oracle/serialize-raises" + ("-" + kinds[0] if kinds else ""),
                         "flogfile.serialize_%s raises %s for an event holding %r" % (how if how != "raw" else "to_json_utf8", got, x),
                         replay=replay)
            elif fmt_event:
                d = got.get("d") if how == "wrapper" else got.get("header", {}).get("trigger")
                back = None if not isinstance(d, dict) else [d.get("num"), d.get("level"), d.get("format"), d.get("a"), "message" in d]
                if back != [obj["num"], 29.5, obj["format"], 5, False]:
                    ctx.fail("oracle/readback-differs", "a format event (num=%r, level=29.5, format=%r, a=5) holding %r written with "
                             "serialize_%s reads back as num/level/format/a/has-message %r" % (obj["num"], obj["format"], x, how, back),
                             replay=replay)
                ctx.hist("json_format_events", "odd-num" if isinstance(obj["num"], str) else "int-num")
            elif how != "raw":
                d = got.get("d") if how == "wrapper" else got.get("header", {}).get("trigger")
                back = None if not isinstance(d, dict) else [d.get("num"), d.get("level"), d.get("message")]
                if back != [num, 30, obj["message"]]:
                    ctx.fail("oracle/readback-differs", "an event (num=%d, level=30, message=%r) holding %r written with serialize_%s "
                             "reads back as num/level/message %r" % (num, obj["message"], x, how, back), replay=replay)
                if how == "wrapper":
                    lines.append((obj, [num, 30, obj["message"]]))
            cases.append(dict(spec=x, how=how, term=term, kind=kind, got=got, jb=jb))
        # ---- a whole file (plain and .bz2): MAGIC + one wrapper line per event, read with get_events
        d = impl.fresh_dir("jsonfile")
        for fn, opener in (("all.flog", lambda p: open(p, "wb")), ("all.flog.bz2", lambda p: bz2.BZ2File(p, "w"))):
            p = os.path.join(d, fn)
            wrote = []
            f = opener(p)
            f.write(flogfile.MAGIC)
            for obj, want in lines:
                try:
                    flogfile.serialize_wrapper(f, obj, from_="tub", rx_time=1.5)
                    wrote.append(want)
                except Exception:
                    pass          # reported above as serialize-raises
            f.close()
            try:
                back = [[r["d"].get("num"), r["d"].get("level"), r["d"].get("message")] for r in flogfile.get_events(p)]
            except Exception as e:
                back = None
                ctx.fail("oracle/written-file-unreadable", "a file of %d wrapper lines cannot be read back with get_events: %s: %s"
                         % (len(wrote), type(e).__name__, e), replay=dict(file=fn, events=len(wrote)))
            if back is not None and back != wrote:
                k = next((i for i, (a, b) in enumerate(zip(back, wrote)) if a != b), min(len(back), len(wrote)))
                ctx.fail("oracle/written-file-differs", "%s: %d events written, %d read back; first difference at %d: %r / %r"
                         % (fn, len(wrote), len(back), k, back[k:k + 1], wrote[k:k + 1]), replay=dict(file=fn, events=len(wrote)))
            ctx.case(["json-file", fn, len(lines)], nontrivial=True)
    return cases


# ====================================================================== the reader's framing: lines against block boundaries
# get_events has to cut the (decompressed) byte stream into the lines the writers produced, however the stream is read.
# Family: a reader that works block by block (any block size, counted from the start of the file or from behind the magic
# line) and mistreats a line that ENDS exactly at a block boundary, a line whose newline is the FIRST byte of the next block,
# a line longer than several blocks, or a file that ends exactly at a boundary.  Every history below is written by the real
# writers (LogFileObserver plain / .bz2, both incident reporters) and padded so that lines end exactly at the offsets.
FRAMING_MAXPAD = 20000


def framing_targets(base, delta, top, decimal=False):
    """offsets at which a line has to end: base + B (+ delta) for every block size B"""
    if decimal:
        sizes = [1000, 3000, 10000, 30000, 100000, 300000, 1000000]
    else:
        sizes = [2 ** k for k in range(9, 23)]
    return [base + b + delta for b in sizes if b <= top]


def framing_lines(raw):
    """[(length including the newline, cid of the event on that line or None)]"""
    out = []
    for ln in raw.split(b"\n")[:-1]:
        cid = None
        if ln.startswith(b"{"):
            try:
                rec = json.loads(ln.decode("utf-8"))
                if "d" in rec and isinstance(rec["d"].get("cid"), int) and rec["d"]["cid"] >= 0:
                    cid = rec["d"]["cid"]
            except ValueError:
                pass
        out.append((len(ln) + 1, cid))
    return out


def framing_plan(lines, targets, n):
    """pads per event such that the lines of the second pass end exactly at as many targets as possible (greedy, in file
    order; a line grows by exactly one byte per padding character) -> (pads, targets that will be hit, index after the last
    padded event)"""
    pads = [0] * n
    reserve = 2 * max(l for l, c in lines) + 64
    cum, ti, hit, last = 0, 0, [], 0
    for length, cid in lines:
        while ti < len(targets) and targets[ti] < cum + length:
            ti += 1
        if cid is None or ti >= len(targets):
            cum += length
            continue
        gap = targets[ti] - cum - length
        if gap <= FRAMING_MAXPAD:
            pad = gap
            hit.append(targets[ti])
            ti += 1
            last = cid + 1
        else:
            pad = min(FRAMING_MAXPAD, gap - reserve)
        pads[cid] = pad
        cum += length + pad
    return pads, hit, last


# (name, writer, trigger_at, base: 0 = offsets from the start of the file / 1 = from behind the magic line, delta, decimal,
#  file ends at the last offset, long line)
FRAMING_FIXED = [
    ("logfile/behind-magic", "logfile", None, 1, 0, False, False, 0),
    ("logfile/from-start", "logfile", None, 0, 0, False, False, 0),
    ("logfile/newline-first-in-block", "logfile", None, 1, 1, False, False, 0),
    ("logfile/newline-first-in-block-from-start", "logfile", None, 0, 1, False, False, 0),
    ("logfile/decimal-blocks", "logfile", None, 1, 0, True, False, 0),
    ("logfile/decimal-blocks-from-start", "logfile", None, 0, 0, True, False, 0),
    ("logfile/ends-at-boundary", "logfile", None, 1, 0, False, True, 0),
    ("logfile/ends-at-boundary-from-start", "logfile", None, 0, 0, False, True, 0),
    ("logfile/line-longer-than-blocks", "logfile", None, 1, 0, False, False, 1100000),
    ("incident/behind-magic", "incident", None, 1, 0, False, False, 0),
    ("incident/from-start", "incident", None, 0, 0, False, False, 0),
    ("incident-trailing/behind-magic", "incident", "late", 1, 0, False, False, 0),
    ("incident-trailing/newline-first-in-block", "incident", "late", 1, 1, False, False, 0),
]


def framing_case(ctx, impl, name, writer, trigger_at, targets, n, ends_exact=False, long_line=0):
    from foolscap.logging import flogfile
    magic = len(flogfile.MAGIC)
    trig = None if trigger_at is None else max(1, n - 95)      # the rest are trailing events (limit 100)
    # ---- first pass: where do the lines end without padding?
    pads0 = [0] * n
    if long_line:
        pads0[1] = long_line
    paths, seen = impl.write_framing_history("framing", writer, pads0, trig)
    if not paths:
        ctx.fail("oracle/incident-lost", "framing history %s: no incident file was published" % name, replay=dict(case=name))
        return
    raw = impl.raw_content(sorted(paths.items())[0][1])
    pads, hit, last = framing_plan(framing_lines(raw), targets, n)
    for i, p_ in enumerate(pads0):
        pads[i] += p_
    if ends_exact:
        pads = pads[:last]
    # ---- second pass: the padded history, read back with get_events
    paths, seen = impl.write_framing_history("framing", writer, pads, None if trig is None else min(trig, len(pads)))
    for label, path in sorted(paths.items()):
        raw = impl.raw_content(path)
        ends = [t for t in hit if raw[t - 1:t] == b"\n"]
        if ends != hit:
            ctx.extra["framing_alignment_missed"] = ctx.extra.get("framing_alignment_missed", 0) + 1
        for t in ends:
            ctx.hist("framing_line_ends_at", "other (random block sizes)" if name.startswith("random/") else t)
        what = "%s (%s): %d events, file of %d bytes%s, lines end at offsets %r" % (
            name, label, len(pads), len(raw), " (ends exactly at the last offset)" if ends_exact and ends and ends[-1] == len(raw) else "",
            ends)
        replay = dict(case=name, writer=writer, file=label, event_message="'e%04d \\u00e9\\r\\x0b\\x0c\\x1c\\x1e\\x85\\u2028\\u2029 ' % i + 'x' * pad, level=OPERATIONAL, facility='framing', cid=i",
                      pads=pads,
                      trigger_before_event=trig, line_end_offsets=ends, magic_length=magic, file_size=len(raw))
        ctx.case(["framing", name, label, pads], nontrivial=bool(ends))
        ctx.hist("framing_writer", label)
        if label == "incident":
            want = sorted(([e["num"], e["level"], e["message"]] for e in seen), key=lambda v: v[0])
        else:
            want = [[e["num"], e["level"], e["message"]] for e in seen]
        try:
            recs = list(flogfile.get_events(path))
        except Exception as e:
            ctx.fail("oracle/written-file-unreadable", "%s cannot be read back with flogfile.get_events: %s: %s"
                     % (what, type(e).__name__, str(e)[:200]), replay=replay)
            continue
        got = [[r["d"].get("num"), r["d"].get("level"), r["d"].get("message")] for r in recs if isinstance(r, dict) and "d" in r]
        hdr = recs[0].get("header") if recs and isinstance(recs[0], dict) else None
        if got != want or not isinstance(hdr, dict):
            k = next((i for i, (a, b) in enumerate(zip(got, want)) if a != b), min(len(got), len(want)))
            ctx.fail("oracle/written-file-differs", "%s: %d events were written, %d read back%s; first difference at #%d: %s / %s"
                     % (what, len(want), len(got), "" if isinstance(hdr, dict) else ", no header record", k,
                        repr(got[k:k + 1])[:120], repr(want[k:k + 1])[:120]), replay=replay)
        elif label == "incident":
            t = hdr.get("trigger")
            tw = [[e["num"], e["level"], e["message"]] for e in seen if e.get("cid") == -1]
            if not isinstance(t, dict) or [[t.get("num"), t.get("level"), t.get("message")]] != tw:
                ctx.fail("oracle/readback-differs", "%s: the header's trigger reads back as %s, emitted %r" % (what, repr(t)[:200], tw),
                         replay=replay)


def reader_framing(ctx, impl):
    from foolscap.logging import flogfile
    magic = len(flogfile.MAGIC)
    with impl.E.quiet():
        for name, writer, trig, base, delta, decimal, ends_exact, long_line in FRAMING_FIXED:
            # quick: block sizes up to 1 MiB for the plain/.bz2 log file, 256 KiB elsewhere
            top = 2 ** 20 if (name in ("logfile/behind-magic", "logfile/from-start") or decimal) else 2 ** 18
            if ctx.tier != "quick":
                top = 2 ** 22
            targets = framing_targets(base * magic, delta, top, decimal)
            n = 40 + 2 * len(targets) + top // FRAMING_MAXPAD + (95 if trig else 0)
            framing_case(ctx, impl, name, writer, trig, targets, n, ends_exact, long_line)
        # thorough: block sizes that are no round numbers, several multiples of them, random short lines in between
        for i in range(ctx.n(0, 60)):
            rng = ctx.rng
            b = rng.choice([rng.randrange(600, 5000), rng.randrange(5000, 70000), 4096 * rng.randint(1, 40), 1 << rng.randint(9, 18)])
            base = rng.choice([0, magic])
            delta = rng.choice([0, 0, 0, 1])
            targets = [base + b * k + delta for k in range(1, rng.randint(2, 9))]
            writer, trig = rng.choice([("logfile", None), ("logfile", None), ("incident", None), ("incident", "late")])
            n = 40 + 2 * len(targets) + targets[-1] // FRAMING_MAXPAD + (95 if trig else 0) + rng.randint(0, 30)
            framing_case(ctx, impl, "random/%s block %d from %d +%d" % (writer, b, base, delta), writer, trig, targets, n)


STAGE_EXC = {0: "TypeError", 1: "ValueError", 2: "RecursionError", 3: "RuntimeError"}


def correspond_json(ctx, impl, cases):
    nbad = 0
    learned = impl.learned_texts()
    stage_hist = {}
    for s0 in range(0, len(cases), 250):
        part = cases[s0:s0 + 250]
        body = JSON_DEFS
        for c in part:
            body += "Eval vm_compute in %s (%s).\n" % ({"wrapper": "W", "header": "H", "raw": "R"}[c["how"]], c["term"])
        try:
            vals = ctx.coq_eval("C18_json_%d" % (s0 // 250), body, requires=JREQ)
        except common.CoqEvalError as e:
            ctx.fail("correspondence-broken", "the JSON model could not be evaluated: " + str(e)[-1500:], has_input=False)
            return
        for c, (st, toks) in zip(part, vals):
            ctx.traces += 1
            ctx.hist("json_stage_model", st)
            if st == -1:
                model = ("raise", STAGE_EXC[toks[0]])
                same = c["kind"] == "raise" and (c["got"] == model[1] or (model[1] == "RuntimeError" and c["got"] != "TypeError"))
            else:
                try:
                    mv = c["jb"].decode(toks, learned)
                except Exception as e:
                    mv = "<undecodable model answer: %r>" % (e,)
                model = ("ok", mv)
                same = c["kind"] == "ok" and impl.same_json(mv, c["got"])
            if not same:
                nbad += 1
                if nbad <= 3:
                    ctx.fail("correspondence/json", "serialize_%s of %r: model (stage %d) %s, implementation %s"
                             % (c["how"], c["spec"], st, repr(model)[:500], repr((c["kind"], c["got"]))[:500]),
                             replay=dict(value=c["spec"], through=c["how"]), has_input=False)
    ctx.extra["correspondence_json_cases"] = len(cases)
    ctx.extra["correspondence_json_disagreements"] = nbad


# ====================================================================== corpus / model witnesses
def run_corpus(ctx, impl):
    from foolscap.logging import log as flog
    for p in sorted(glob.glob(os.path.join(common.VERIF, "corpus", "C18", "*.json"))):
        c = json.load(open(p))
        if c["kind"] == "format":
            for spec in c["events"]:
                e = {k: impl.build(v) for k, v in spec}
                try:
                    t = flog.format_message(e)
                    assert isinstance(t, str)
                except Exception as ex:
                    ctx.fail(c["signature"], "%s: format_message raised %r on %r" % (os.path.basename(p), ex, spec),
                             replay=dict(corpus=os.path.basename(p), event=spec))
                ctx.case(["corpus-format", spec], nontrivial=True)
        elif c["kind"] == "format_keys":
            for spec in c["events"]:
                jb = impl.JBuilder()
                e = {}
                for ks, vs in spec:
                    e[jb.key(ks)[0]] = jb.val(vs)[0]
                try:
                    t = flog.format_message(e)
                    assert isinstance(t, str)
                except Exception as ex:
                    ctx.fail(c["signature"], "%s: format_message raised %r on an event dict with keys %r"
                             % (os.path.basename(p), ex, sorted(map(repr, e))), replay=dict(corpus=os.path.basename(p), event=spec))
                ctx.case(["corpus-format-keys", spec], nontrivial=True)
        elif c["kind"] == "trace":
            for cfg in c["cfgs"]:
                before = len(ctx.failures)
                t = run_trace(ctx, impl, tuple(cfg), c["ops"], name="corpus", judge=True)
                fin = t["final"]
                # the witness must pass completely: everything declared is recorded, nothing left behind
                want = c.get("want_recorded")
                if want is not None and (fin["recorded"] != want or fin["tmp"] != 0) and len(ctx.failures) == before:
                    ctx.fail(c["signature"], "%s (cfg %r): recorded %d incidents (expected %d), %d .tmp files left"
                             % (os.path.basename(p), cfg, fin["recorded"], want, fin["tmp"]),
                             replay=dict(corpus=os.path.basename(p), cfg=cfg, ops=c["ops"]))
                ctx.case(["corpus-trace", os.path.basename(p), cfg], nontrivial=True)
        ctx.hist("corpus", c["kind"])


def replay_json_witness(ctx, impl):
    """Example ex_huge_num_lost of lib/LogJsonProofs.v (why C18_event_reads_back bounds the number): an explicit num=2^64
    next to a value only the last-resort record can hold is replaced by the placeholder text; 2^64-1 survives"""
    from foolscap.logging import flogfile
    got = []
    for num in (2 ** 64 - 1, 2 ** 64):
        f = io_mod.BytesIO()
        try:
            flogfile.serialize_wrapper(f, dict(num=num, level=30, message="m", x=impl.build(["deep", 3000])), from_="t", rx_time=1.0)
            got.append(json.loads(f.getvalue().decode("utf-8"))["d"].get("num"))
        except Exception as e:       # (the JSON family reports this with its input)
            got.append(e)
    ctx.case(["witness", "ex_huge_num_lost"], nontrivial=True)
    ctx.traces += 1
    if got[0] != 2 ** 64 - 1 or not isinstance(got[1], str):
        ctx.fail("correspondence/example-ex_huge_num_lost", "the Example ex_huge_num_lost of lib/LogJsonProofs.v does not describe the "
                 "implementation: numbers 2^64-1, 2^64 next to a 3000-deep value read back as %r" % (got,),
                 replay=dict(nums=["2**64-1", "2**64"]), has_input=False)
    ctx.extra["observation_explicit_num_beyond_2_64"] = ("log.msg(num=N) with |N| >= 2**64 (the caller's own number) reads back as the "
                                                         "placeholder text when the event also holds a value that needs the last-resort record")


def replay_model_witnesses(ctx, impl):
    replay_json_witness(ctx, impl)
    """props/C18.v has no *_refuted theorem on this tree; the Examples of lib/LogBufProofs.v are replayed on the real code
    (ex_incident_trailing, ex_incident_nontrailing_then_later, ex_negative_limit)"""
    deep = ["deep", 3000]
    for name, cfg, ops, want in [
        ("ex_incident_trailing", (True, True),
         [["msg", None, 0, 20, deep, "plain", 0], ["msg", None, 2, 20, ["int", 1], "plain", 1], ["msg", None, 0, 30, ["int", 1], "plain", 2],
          ["msg", None, 0, 20, ["list", [deep, ["badrepr"]]], "plain", 3], ["msg", None, 0, 20, ["int", 1], "plain", 4], ["timer"]],
         dict(files=[[2, 0, 1, 2, 3, 4]], recorded=1, declared=1)),
        ("ex_incident_nontrailing_then_later", (True, False),
         [["msg", None, 0, 20, deep, "plain", 0], ["msg", None, 0, 30, ["hugeint", 5000], "plain", 1],
          ["msg", None, 2, 40, ["int", 1], "plain", 2]],
         dict(files=[[1, 0, 1], [2, 0, 1, 2]], recorded=2, declared=2)),
        ("ex_negative_limit", (False, False),
         [["size", 0, 20, -1], ["msg", None, 0, 20, ["int", 1], "plain", 0]],
         dict(files=[], recorded=0, declared=0, bufs=[-1])),
    ] + [
        ("ex_fault_bounded/" + v, (True, True),
         [["size", 0, 30, 2], ["fault", 2, v]] + [["msg", None, 0, 30, ["int", 1], "plain", i] for i in range(5)],
         dict(files=[], recorded=0, declared=10, bufs=[3, 4, -1, -2, -3, -4, -5])) for v in ("rmdir", "notadir", "factory")
    ] + [
        ("ex_fault_qualifier_bounded", (True, False),
         [["size", 0, 35, 1], ["fault", 1, ""]] + [["msg", None, 0, 35, ["int", 1], "plain", i] for i in range(3)],
         dict(files=[], recorded=0, declared=0, bufs=[2, -1, -2, -3])),
        # the seeded scenario at scale: a healthy incident, then the directory disappears and 60 more triggers arrive
        ("fault_after_healthy_incident", (True, True),
         [["size", 0, 30, 5], ["msg", None, 0, 30, ["int", 1], "plain", 0], ["timer"], ["fault", 2, "rmdir"]]
         + [["msg", None, 0, 30, ["int", 1], "plain", i] for i in range(1, 61)],
         dict(files=[[0, 0]], recorded=1, declared=121, bufs=[56, 57, 58, 59, 60] + [-i - 1 for i in range(1, 61)])),
    ]:
        t = run_trace(ctx, impl, cfg, ops, name="witness", judge=True)
        fin = t["final"]
        got = dict(files=[[v[1] for v in f] for f in fin["files"]], recorded=fin["recorded"], declared=fin["declared"])
        if "bufs" in want:
            got["bufs"] = [v[1] for f, d in fin["bufs"] for l, q in d for v in q]
        ctx.case(["witness", name], nontrivial=True)
        ctx.traces += 1
        if got != want:
            ctx.fail("correspondence/example-" + name, "the Example %s of lib/LogBufProofs.v does not describe the implementation: "
                     "model %r, implementation %r" % (name, want, got), replay=dict(cfg=list(cfg), ops=ops), has_input=False)
