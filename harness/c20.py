"""C20 -- FURLs and connection hints parse totally, reversibly and in bounded time."""
import glob, itertools, json, os, random, re, subprocess, sys, time
from concurrent.futures import ThreadPoolExecutor
from harness import common
from harness.common import coq_list

PATS = ["AUTH_STURDYREF_RE", "OLD_STYLE_HINT_RE", "NEW_STYLE_HINT_RE", "TOR_HINT_RE", "I2P_HINT_RE"]
REQ = ["Verif.lib.PyLite", "Verif.lib.Regex", "Verif.gen.FurlGen", "Verif.lib.Furl"]
KINDS = {"tcp": "KTcp", "tor": "KTor", "i2p": "(KI2p None)", "i2p+port": "(KI2p (Some 7777%Z))",
         "plug-ok": "(KPlugin (fun h => Ok (EpTcp h 1%Z)))", "plug-invalid": "(KPlugin (fun _ => invalid))",
         "plug-keyerror": "(KPlugin (fun _ => Exc \"KeyError\"))", "plug-deferred-fail": "(KPlugin (fun _ => Exc \"KeyError\"))"}
HANDLER_SETS = [
    {"tcp": "tcp"},
    {"tcp": "tcp", "tor": "tor", "i2p": "i2p"},
    {"tcp": "tor"},
    {"tor": "tcp", "i2p": "tor", "tcp": "i2p"},
    {},
    {"a": "tcp", "": "tor", "x": "i2p"},
]
# handler sets beyond foolscap's three plain handlers: an i2p handler with a default port, third-party plugins that answer
# with an endpoint / InvalidHintError / another exception (synchronously or through a failed Deferred)
EXTRA_HANDLER_SETS = [
    {"tcp": "tcp", "i2p": "i2p+port"},
    {"tcp": "tcp", "x": "plug-ok", "a": "plug-invalid", "i2p": "plug-keyerror", "tor": "plug-deferred-fail"},
    {"tcp": "plug-ok", "i2p": "i2p+port", "": "plug-keyerror"},
]
RAISING_PLUGINS = {"plug-keyerror": "KeyError", "plug-deferred-fail": "KeyError"}
SPECIAL = ":.[]%-,/@\n"
ODD = ["\u0663", "\u212a", "\u00e9", "\x00", "\uff11", "\U0001d7d8", " ", "_", "+", "\r", "\u0130", "A", "Z", "7", "8", "0"]


def zs(s):
    return "[" + ";".join(str(ord(c)) for c in s) + "]"


def tail(s, n=2500):
    return s[-n:]


# ------------------------------------------------------------------------------ generators

def gen_host(rng):
    k = rng.randrange(8)
    if k == 0:
        return ".".join(str(rng.choice([0, 1, 10, 127, 192, 255, 256, 999, 8])) for _ in range(4))
    if k == 1:
        return ".".join(rng.choice(["1", "01", "\u0663", "25", "2555", ""]) for _ in range(rng.choice([3, 4, 4, 5])))
    if k == 2:
        return "[" + rng.choice(["::1", "fe80::1%en0", "::FFFF:1.2.3.4", "1:2:3", "g::1", "::1%", "1.2.3.4", "%a", ""]) + "]"
    if k == 3:
        return rng.choice(["127.0.0.1", "10.1.2.3", "192.168.0.9", "8.8.8.8", "224.0.0.1", "0.0.0.0", "240.0.0.1", "169.254.1.1"])
    n = rng.randrange(1, 9)
    return "".join(rng.choice("abzAZ09.-") for _ in range(n))


# characters that have a Unicode numeric property but are NOT decimal digits: str.isdigit() / str.isnumeric() accept
# (some of) them, \d and int() do not -- superscripts, circled / parenthesised / full-stop digits, Ethiopic and Tai Lue
# digits, Kharoshthi, fractions, Roman numerals, CJK numerals
NUMERIC_NOT_DECIMAL = ["\u00b2", "\u00b3", "\u00b9", "\u2070", "\u2078", "\u2460", "\u2474", "\u2488", "\u24f5", "\u2776",
                       "\u1369", "\u19da", "\U00010a40", "\U0001f101", "\u00bd", "\u2167", "\u3007", "\u4e09", "\u0f2a"]


def numeric_witnesses():
    """each such character alone and next to an ASCII digit in every digit position of every hint form"""
    out = []
    for c in NUMERIC_NOT_DECIMAL:
        out += ["example.org:" + c, "example.org:8" + c, "10.1.2.3:" + c, "example.org:" + c * 5, "tcp:h:" + c, "tcp:h:8" + c,
                "tor:h:" + c + "0", "i2p:h:" + c, "1.2.3." + c + ":80", c + ".2.3.4:80", "tcp:[::" + c + "]:1"]
    return out


def gen_port(rng):
    k = rng.randrange(8)
    if k == 1 and rng.random() < 0.5:
        return "".join(rng.choice(NUMERIC_NOT_DECIMAL + list("0123456789")) for _ in range(rng.randrange(1, 6)))
    if k == 0:
        return rng.choice(["", "0", "00000", "99999", "100000", "080", "\u0663\u0664", "1\n", "1_0", "+1", " 1", "1 "])
    return str(rng.randrange(0, 10 ** rng.randrange(1, 7)))


def gen_hint(rng):
    k = rng.randrange(10)
    h, p = gen_host(rng), gen_port(rng)
    if k <= 1:
        return "%s:%s" % (h, p)
    if k <= 4:
        return "tcp:%s:%s" % (h, p)
    if k == 5:
        return "tor:%s:%s" % (h, p)
    if k == 6:
        return "i2p:%s" % h + (":" + p if rng.random() < 0.6 else "")
    if k == 7:
        return rng.choice(["", ":", "::", "tcp", "tcp:", "tcp::", "foo:bar", "x:y:1", "unix:/tmp/s", "tcp:a:1:2", "a:1:2",
                           "i2p:", "i2p::", "tor::1", "tcp:[:1", "tcp:]:1", "a.b", "1:1", "tcp:1"])
    return "%s:%s:%s" % (rng.choice(["a", "x", "", "tcp", "tor", "i2p", "TCP"]), h, p)


def mutate(rng, s):
    s = list(s)
    for _ in range(rng.randrange(1, 3)):
        k = rng.randrange(5)
        pos = rng.randrange(len(s) + 1)
        c = rng.choice(SPECIAL) if rng.random() < 0.6 else rng.choice(ODD + list("ab19"))
        if k == 0:
            s.insert(pos, c)
        elif k == 1 and s:
            del s[min(pos, len(s) - 1)]
        elif k == 2 and s:
            s[min(pos, len(s) - 1)] = c
        elif k == 3 and s:
            i = min(pos, len(s) - 1)
            s[i:i + 1] = s[i:i + 1] * rng.randrange(2, 5)
        else:
            s.append(c)
    return "".join(s)


B32 = "abcdefghijklmnopqrstuvwxyz234567"


# ---- the whole alphabet the FURL grammar allows, field by field (pb://TUBID@HINT,HINT/NAME):
#   tub id : 1..32 characters c with c.lower() in the base32 alphabet; characters after the 32nd are an ignored
#            extension (generated without '@' and '/')
#   hint   : non-empty, anything but ',' and '/'   (so '@', ':', '%', newline, "pb:" ... are legal)
#   name   : non-empty, anything but newline       (so '/', '@', ',' and a whole second FURL are legal)
SEPARATORS = ["@", "/", ",", ":", "%", "\n", "pb://", "pb:", "[", "]", ".", "-", " ", "\\", "?", "#", "=", "\x00", "\r", "\t"]
WIDE = ["\u00e9", "\u0663", "\u212a", "\uff20", "\uff0f", "\u2044", "\U0001d7d8", "\U0001f600", "\u0130", "\u00df", "\u3000",
        "\ufeff", "\u202e", "\x7f", "\x80"]


def wide_text(rng, forbidden, lo=1, hi=9):
    out = []
    for _ in range(rng.randrange(lo, hi + 1)):
        k = rng.random()
        if k < 0.45:
            c = rng.choice(SEPARATORS)
        elif k < 0.75:
            c = rng.choice("abcxyzABZ0179")
        elif k < 0.9:
            c = rng.choice(WIDE)
        else:
            c = chr(rng.choice([rng.randrange(0x20, 0x7f), rng.randrange(0xa0, 0xd800), rng.randrange(0xe000, 0x110000)]))
        out.append(c)
    t = "".join(out)
    for f in forbidden:
        t = t.replace(f, "")
    return t


def gen_opaque_hint(rng):
    k = rng.randrange(6)
    if k == 0:
        return gen_hint(rng).replace("/", "").replace(",", "") or "x:1"
    if k == 1:
        return rng.choice(["ssh:user@gateway.example:22", "proxy:me@corp.example:3128", "x:k=v@w", "y:@", "@:1", "@", "@@", "a@b@c",
                           "tcp:a@b:1", "u@127.0.0.1:80", "pb:", "mailto:a@b", "%", "tcp:[fe80::1%en0]:1", "h\n", "\n"])
    return wide_text(rng, [",", "/"]) or "@"


def gen_triple(rng):
    """a well-formed (tub id, hints, name) over the full alphabet of each field"""
    n = rng.choice([1, 2, 5, 16, 31, 32, 32, 32, 32])
    alpha = B32 + ("ABCXYZ" if rng.random() < 0.3 else "") + ("\u212a" if rng.random() < 0.1 else "")
    tub = "".join(rng.choice(alpha) for _ in range(n))
    if n == 32 and rng.random() < 0.25:
        tub += wide_text(rng, ["@", "/"], 1, 5)                # ignored extension
    hints = [gen_opaque_hint(rng) for _ in range(rng.choice([0, 1, 1, 2, 2, 3, 5]))]
    name = wide_text(rng, ["\n"]) or "n"
    if rng.random() < 0.2:
        name = rng.choice(["name", "a/b/c", "na@me", "mail@host/x", "n?q#f", "pb://a@h/n", "@", "/", ",", "x@y,z/w"])
    return tub, hints, name


def gen_furl(rng):
    if rng.random() < 0.35:
        t, h, n = gen_triple(rng)
        return rng.choice(["", "", "", "x", "pb://", "a@pb://"]) + "pb://" + t + "@" + ",".join(h) + "/" + n + rng.choice(["", "", "", "\n"])
    n = rng.choice([1, 2, 31, 32, 33, 40, 8])
    tub = "".join(rng.choice(B32 + ("ABZ\u212a" if rng.random() < 0.2 else "") + ("189=!" if rng.random() < 0.1 else ""))
                  for _ in range(n))
    hints = [gen_hint(rng).replace("/", "").replace(",", "") for _ in range(rng.choice([0, 1, 1, 2, 3]))]
    if rng.random() < 0.15:
        hints.insert(rng.randrange(len(hints) + 1), "")
    name = "".join(rng.choice("abcXYZ019-_./@,: \u00e9") for _ in range(rng.randrange(0, 7)))
    if rng.random() < 0.1:
        name += "\n"
    pre = rng.choice(["pb://"] * 8 + ["pbu://", "pb:/", "", "xpb://", "pb://pb://"])
    return pre + tub + "@" + ",".join(hints) + "/" + name


def exhaustive(prefix, alphabet, maxlen):
    for n in range(maxlen + 1):
        for t in itertools.product(alphabet, repeat=n):
            yield prefix + "".join(t)


# ------------------------------------------------------------------------------ Coq evaluation

def par_eval(ctx, jobs):
    """jobs: [(name, body)] -> [values]  (several coqc processes side by side)"""
    def one(j):
        try:
            return ctx.coq_eval(j[0], j[1], requires=REQ)
        except common.CoqEvalError as e:
            return e
    with ThreadPoolExecutor(max_workers=8) as ex:
        return list(ex.map(one, jobs))


def gen_methods():
    """the method (search/match) each pattern is applied with, as translated from the source"""
    txt = open(os.path.join(common.COQ, "gen", "FurlGen.v")).read()
    out = {}
    for p in PATS:
        mm = re.search(r"Definition %s_method : method := (MSearch|MMatch)\." % p, txt)
        out[p] = {"MSearch": "search", "MMatch": "match"}[mm.group(1)] if mm else "search"
    return out


def py_spans(v):
    if v == "None":
        return None
    assert isinstance(v, tuple) and v[0] == "Some", v
    return [list(x) for x in v[1]]


def correspond_regex(ctx, impl, cases):
    """cases: [(pattern index, string)]; model `spans` against re's match object"""
    meths = gen_methods()
    jobs = []
    CH = 800
    for k in range(0, len(cases), CH):
        chunk = cases[k:k + CH]
        body = ("\nDefinition pats := [%s].\nDefinition meths := [%s].\n" % ("; ".join(PATS), "; ".join(p + "_method" for p in PATS))
                + "Definition cases : list (nat * list Z) := " + coq_list(["(%d%%nat, %s%%Z)" % (i, zs(s)) for i, s in chunk]) + ".\n"
                + "Eval vm_compute in map (fun c => spans (nth (fst c) pats AUTH_STURDYREF_RE) (nth (fst c) meths MSearch) (snd c)) cases.\n")
        jobs.append(("C20_rx_%d" % (k // CH), body))
    res = par_eval(ctx, jobs)
    nbad = 0
    for k, r in enumerate(res):
        chunk = cases[k * CH:(k + 1) * CH]
        if isinstance(r, Exception):
            ctx.fail("correspondence-broken", "the regex model could not be evaluated: " + tail(str(r), 1500), has_input=False)
            return
        (vals,) = r
        for (i, s), v in zip(chunk, vals):
            mine = py_spans(v)
            theirs = impl.run_pattern(PATS[i], s, meths[PATS[i]])
            ctx.traces += 1
            ctx.case(["rx", i, s], nontrivial=True)
            ctx.hist("regex outcome", "%s:%s" % (PATS[i], "match" if theirs is not None else "no-match"))
            if mine != theirs:
                nbad += 1
                if nbad <= 3:
                    ctx.fail("correspondence/regex", "model matcher and re disagree on %s.%s(%r): model %r, re %r"
                             % (PATS[i], meths[PATS[i]], s, mine, theirs),
                             replay=dict(pattern=PATS[i], string=s, model=mine, impl=theirs), has_input=False)
    ctx.extra["regex_correspondence_cases"] = len(cases)
    ctx.extra["regex_correspondence_disagreements"] = nbad


def furl_obs(r):
    if r[0] == "ok":
        _, t, h, n = r
        return [[1], [ord(c) for c in t], [ord(c) for c in n]] + [[ord(c) for c in x] for x in h]
    if r[2]:
        return [[0]]
    if r[1] == "UnicodeDecodeError":
        return [[-3]]
    if r[3]:
        return [[-1]]
    return [[-2]]


def ep_obs(r):
    if r[0] == "ok":
        kind, host, port, host2 = r[1]
        code = {"tcp": 1, "tor": 2, "i2p": 3}.get(kind, 9)
        return [[code], [ord(c) for c in host], [] if port is None else [port]]
    if r[2]:
        return [[0]]
    return {"ValueError": [[-1]], "TypeError": [[-3]], "KeyError": [[-4]]}.get(r[1], [[-2]])


def correspond_functions(ctx, impl, furls, hints):
    """decode_furl / convert_legacy_hint / get_endpoint: model against the real functions"""
    jobs = []
    CH = 400
    for k in range(0, len(furls), CH):
        chunk = furls[k:k + CH]
        body = ("\nDefinition cases : list (list Z) := " + coq_list([zs(s) + "%Z" for s in chunk]) + ".\n"
                + "Eval vm_compute in map (fun s => furl_code (decode_furl s)) cases.\n")
        jobs.append(("C20_furl_%d" % (k // CH), body))
    nf = len(jobs)
    hcases = []
    for s, hs in hints:
        # tor's address filter is an input of the model: ask the real function about the host the
        # handler will see (group 1 of the converted hint)
        np_hosts = []
        conv = impl.convert_legacy(s)
        if conv[0] == "ok":
            sp = impl.run_pattern("TOR_HINT_RE", conv[1])
            if sp is not None:
                host = conv[1][sp[1][0]:sp[1][1]]
                if impl.nonpublic(host) == ("ok", True):
                    np_hosts.append(host)
        hcases.append((s, hs, np_hosts))
    for k in range(0, len(hcases), CH):
        chunk = hcases[k:k + CH]
        rows = []
        for s, hs, nps in chunk:
            hl = coq_list(["(%s%%Z, %s)" % (zs(n), KINDS[kd]) for n, kd in hs.items()])
            rows.append("(%s%%Z, %s, %s)" % (zs(s), hl, coq_list([zs(x) + "%Z" for x in nps])))
        body = ("\nDefinition cases : list (list Z * list (list Z * hkind) * list (list Z)) := " + coq_list(rows) + ".\n"
                + "Definition conv_code (r : res (list Z)) := match r with Ok v => 1%Z :: v | Exc _ => [0%Z] end.\n"
                + "Eval vm_compute in map (fun c => let '(s, hs, nps) := c in "
                  "(conv_code (convert_legacy_hint s), ep_code (get_endpoint hs (fun h => existsb (list_eqb h) nps) s))) cases.\n")
        jobs.append(("C20_hint_%d" % (k // CH), body))
    res = par_eval(ctx, jobs)
    nbad = 0
    for k, r in enumerate(res):
        if isinstance(r, Exception):
            ctx.fail("correspondence-broken", "the FURL/hint model could not be evaluated: " + tail(str(r), 1500), has_input=False)
            return
        (vals,) = r
        if k < nf:
            chunk = furls[k * CH:(k + 1) * CH]
            for s, v in zip(chunk, vals):
                theirs = furl_obs(impl.decode(s))
                ctx.traces += 1
                if v != theirs:
                    nbad += 1
                    if nbad <= 3:
                        ctx.fail("correspondence/decode_furl", "model and decode_furl disagree on %r: model %r, implementation %r"
                                 % (s, v, theirs), replay=dict(furl=s, model=v, impl=theirs), has_input=False)
        else:
            chunk = hcases[(k - nf) * CH:(k - nf + 1) * CH]
            for (s, hs, nps), (mconv, mep) in zip(chunk, vals):
                c = impl.convert_legacy(s)
                tconv = [1] + [ord(x) for x in c[1]] if c[0] == "ok" else [0]
                tep = ep_obs(impl.get_endpoint(s, hs))
                ctx.traces += 1
                if mconv != tconv or mep != tep:
                    nbad += 1
                    if nbad <= 3:
                        ctx.fail("correspondence/get_endpoint", "model and implementation disagree on hint %r with handlers %r: "
                                 "model convert=%r endpoint=%r, implementation convert=%r endpoint=%r"
                                 % (s, hs, mconv, mep, tconv, tep),
                                 replay=dict(hint=s, handlers=hs, model=[mconv, mep], impl=[tconv, tep]), has_input=False)
    ctx.extra["function_correspondence_cases"] = len(furls) + len(hcases)
    ctx.extra["function_correspondence_disagreements"] = nbad


# ------------------------------------------------------------------------------ direct oracle

B32_LOWER = "abcdefghijklmnopqrstuvwxyz234567"           # rfc4648 base32, lower case (written out here, not read from the source)
# characters that are NOT base32, to be put at every position of the tub id field
FOREIGN = ["\n", "\r", "\x00", "\t", "\x0b", "\x0c", "\x1c", "\x1d", "\x1e", "\x1f", "\x85", "\u2028", "\u2029", " ", "\xa0",
           "0", "1", "8", "9", "\uff12", "\uff41", "\u0663", "=", "-", "_", ".", ":", ",", "%", "!", "~", "\x7f", "\u00e9", "\u0131",
           "\u017f", "\u0130", "\U0001d7d8", "\r\n", "\n\n"]


def malformed_tubid_furls(ctx, rng):
    """every foreign character at EVERY position of the tub id field, for fields shorter than, equal to and longer than
    the 32-character window (so also at the last position of the window and of shorter fields); '/' and '@' too"""
    out = []
    lengths = ctx.n([1, 2, 5, 31, 32, 33], [1, 2, 3, 5, 8, 16, 30, 31, 32, 33, 34, 40])
    for L in lengths:
        base = "".join(rng.choice(B32_LOWER) for _ in range(L))
        for pos in range(L):
            for c in FOREIGN + ["/", "@"]:
                out.append("pb://" + base[:pos] + c + base[pos + 1:] + "@h:1/n")          # replaced
            if pos in (0, L - 1, min(31, L - 1), min(32, L - 1)):
                for c in FOREIGN:
                    out.append("pb://" + base[:pos + 1] + c + base[pos + 1:] + "@h:1/n")  # inserted after pos
    return out


def wellformed_problem(t, h, n):
    """the well-formedness clause of the decode theorem (FurlProofs.decode_wf), judged independently of the source"""
    if not isinstance(t, str) or not (1 <= len(t) <= 32):
        return "the tub id %r does not have 1..32 characters" % (t,)
    for i, c in enumerate(t):
        lo = c.lower()
        if not lo or any(x not in B32_LOWER for x in lo):
            return "the tub id %r is not made of base32 characters: %r at position %d" % (t, c, i)
    for x in h:
        if not isinstance(x, str) or x == "" or "," in x or "/" in x:
            return "hint %r is empty or contains ',' or '/'" % (x,)
    if not isinstance(n, str) or n == "" or "\n" in n:
        return "the name %r is empty or contains a newline" % (n,)
    return None


def oracle_furl(ctx, impl, s):
    r = impl.decode(s)
    if r[0] == "exc":
        ctx.hist("decode_furl", r[1])
        ctx.case(["furl", repr(s)], nontrivial=False)
        if not (r[2] or r[3]):
            ctx.fail("oracle/decode-other-exception", "decode_furl(%r) raised %s, neither BadFURLError nor ValueError" % (s, r[1]),
                     replay=dict(furl=repr(s), exception=r[1]))
        return None
    _, t, h, n = r
    ctx.hist("decode_furl", "ok")
    ctx.case(["furl", repr(s)], nontrivial=True)
    oracle_spelling(ctx, s, (t, h, n))
    bad = wellformed_problem(t, h, n)
    if bad:
        ctx.fail("oracle/decode-not-wellformed", "decode_furl(%r) did not raise BadFURLError but returned (%r, %r, %r): %s"
                 % (s, t, h, n, bad), replay=dict(furl=s, decoded=[t, h, n], problem=bad))
    try:
        again = impl.encode(t, h, n)
        r2 = impl.decode(again)
    except Exception as e:
        r2 = ("exc", type(e).__name__, False, False)
        again = None
    if r2 != ("ok", t, h, n):
        ctx.fail("oracle/roundtrip", "decode_furl(%r) = %r but decoding the re-encoded FURL %r gives %r" % (s, r[1:], again, r2[1:]),
                 replay=dict(furl=repr(s), decoded=[t, h, n], reencoded=again, second=repr(r2)))
    return (t, h, n)


def spelled_by(s, t, h, n):
    """is (t, h, n) what the string s spells?  Independent of the pattern: s must be
    <anything> 'pb://' TUBFIELD '@' HINTS '/' NAME [newline]  where TUBFIELD has no '@' (the FIRST '@' after the scheme
    ends it) and starts with t (t = its first 32 characters), HINTS = ','.join(h), NAME = n."""
    tail = "@" + ",".join(h) + "/" + n
    for end in ("", "\n"):
        if not s.endswith(tail + end):
            continue
        head = s[:len(s) - len(tail + end)]
        cut = head.rfind("@")                           # the tub id field cannot contain '@'
        region = head[cut + 1:]
        i = region.find("pb://")
        # the scheme occurrence that was matched lies after the last '@' of `head` (its field has no '@')
        while i != -1:
            field = region[i + 5:]
            if field and field[:32] == t:
                return True
            i = region.find("pb://", i + 1)
    return False


def oracle_spelling(ctx, s, d):
    """decoder side of "re-encoding gives an equivalent FURL": the decoded parts are the ones s spells"""
    t, h, n = d
    if not isinstance(s, str):
        return
    if not spelled_by(s, t, h, n):
        ctx.fail("oracle/decode-not-equivalent", "decode_furl(%r) = (%r, %r, %r): these are not the parts the FURL spells (tub id field "
                 "up to the first '@', hints up to the next '/', name = the rest); re-encoding gives %r"
                 % (s, t, h, n, "pb://" + t + "@" + ",".join(h) + "/" + n),
                 replay=dict(furl=s, decoded=[t, h, n]))


def oracle_encode_decode(ctx, impl, triple, as_bytes=False):
    """encoder side: for a well-formed (t, h, n), decode(encode(t, h, n)) = (t[:32], h, n), encoding that again
    reproduces the FURL, and SturdyRef / TubRef built from it carry exactly these parts"""
    from foolscap.referenceable import SturdyRef
    t, h, n = triple
    f = impl.encode(t, h, n)
    subj = f
    if as_bytes:
        try:
            subj = f.encode("utf-8")
        except UnicodeEncodeError:
            return f
    want = ("ok", t[:32], list(h), n)
    got = impl.decode(subj)
    ctx.case(["triple", t, h, n, as_bytes], nontrivial=True)
    ctx.hist("encode/decode", "%d hints%s%s" % (min(len(h), 3), ", '@' in a hint" if any("@" in x for x in h) else "",
                                                  ", bytes" if as_bytes else ""))
    if got != want:
        ctx.fail("oracle/encode-decode-roundtrip", "encode_furl(%r, %r, %r) = %r (well-formed), but decode_furl of it gives %r"
                 % (t, h, n, f, got[1:] if got[0] == "ok" else got[1]),
                 replay=dict(tubid=t, hints=h, name=n, furl=f, as_bytes=as_bytes, decoded=repr(got)))
        return f
    if len(t) <= 32 and impl.encode(*got[1:]) != f:
        ctx.fail("oracle/encode-decode-roundtrip", "encode_furl(*decode_furl(%r)) = %r" % (f, impl.encode(*got[1:])),
                 replay=dict(tubid=t, hints=h, name=n, furl=f))
    try:
        sr = SturdyRef(subj)
        parts = (sr.tubID, list(sr.locationHints), sr.name, list(sr.getTubRef().getLocations()), sr.getTubRef().getTubID())
    except Exception as e:
        parts = type(e).__name__
    if parts != (t[:32], list(h), n, list(h), t[:32]):
        ctx.fail("oracle/encode-decode-roundtrip", "SturdyRef(%r) has (tubID, hints, name, TubRef locations, TubRef id) = %r, the FURL "
                 "was built from (%r, %r, %r)" % (f, parts, t[:32], h, n), replay=dict(tubid=t, hints=h, name=n, furl=f))
    return f


def spelling_variants(impl, t, h, n):
    """FURLs whose tub id / name differ from (t, n) only by a normalisation somebody might consider harmless: letter case
    (all, first letter), the Kelvin sign for k, surrounding whitespace or a NUL in the name, Unicode NFC / NFD / NFKC"""
    import unicodedata
    tubs = {t, t.upper(), t.lower(), t[:1].swapcase() + t[1:], t.replace("k", "\u212a"), t.replace("\u212a", "k")}
    names = {n, n.upper(), n.lower(), n + " ", " " + n, n.rstrip("/"), n + "/", unicodedata.normalize("NFD", n),
             unicodedata.normalize("NFKC", n), unicodedata.normalize("NFC", n)}
    out = []
    for t2 in sorted(tubs):
        for n2 in sorted(names):
            if t2 and n2 and "\n" not in n2 and (t2, n2) != (t, n) and (t2 == t or n2 == n):
                out.append(impl.encode(t2, h[:1], n2))
    return out


IDENTITY_WITNESSES = ["pb://q5l37rle6pojjnllrwjyryulavpqdlq5@/name", "pb://Q5L37RLE6POJJNLLRWJYRYULAVPQDLQ5@/name",
                      "pb://q5l37RLE6pojjnllrwjyryulavpqdlq5@127.0.0.1:9900/name", "pb://abk@h:1/Name", "pb://ABK@h:1/Name",
                      "pb://ab\u212a@h:1/Name", "pb://abk@h:1/name", "pb://abk@h:1/Name ", "pb://abk@h:1/\u00e9", "pb://abk@h:1/e\u0301"]


def oracle_identity(ctx, impl, furls):
    """SturdyRef equality / hash agree with (tubID, name); TubRef with tubID"""
    from foolscap.referenceable import SturdyRef, TubRef
    refs = []
    for s in furls:
        try:
            refs.append(SturdyRef(s))
        except Exception:
            pass
    n = 0
    for a in refs:
        for b in refs:
            n += 1
            want = (a.tubID == b.tubID and a.name == b.name)
            got = (a == b)
            ne = (a != b)
            if got != want or ne == got or (got and hash(a) != hash(b)):
                ctx.fail("oracle/sturdyref-identity", "SturdyRef(%r) == SturdyRef(%r) is %r, != is %r, hashes equal %r; "
                         "tub ids equal %r, names equal %r" % (a.url, b.url, got, ne, hash(a) == hash(b),
                                                                a.tubID == b.tubID, a.name == b.name),
                         replay=dict(a=a.url, b=b.url))
            ta, tb = a.getTubRef(), b.getTubRef()
            if (ta == tb) != (a.tubID == b.tubID) or ((ta == tb) and hash(ta) != hash(tb)) or (ta != tb) == (ta == tb):
                ctx.fail("oracle/tubref-identity", "TubRef equality of %r and %r does not follow the tub id" % (a.url, b.url),
                         replay=dict(a=a.url, b=b.url))
    d = {}
    for a in refs:
        d.setdefault(a, []).append(a)
    for k, v in d.items():
        if any((x.tubID, x.name) != (k.tubID, k.name) for x in v):
            ctx.fail("oracle/sturdyref-identity", "dictionary lookup merged SturdyRefs with different (tubID, name)",
                     replay=dict(urls=[x.url for x in v]))
    ctx.extra["identity_pairs"] = n
    ctx.hist("identity", "sturdyrefs", len(refs))


def oracle_hint(ctx, impl, s, hs):
    r = impl.get_endpoint(s, hs)
    ctx.case(["hint", s, sorted(hs.items())], nontrivial=(r[0] == "ok" or ":" in s))
    ctx.hist("get_endpoint", "endpoint:" + r[1][0] if r[0] == "ok" else r[1])
    if r[0] == "exc" and not r[2]:
        conv = impl.convert_legacy(s)
        chosen = hs.get(conv[1].split(":", 1)[0]) if conv[0] == "ok" and ":" in conv[1] else None
        if chosen in RAISING_PLUGINS and r[1] == RAISING_PLUGINS[chosen]:
            pass         # the third-party plugin registered for this hint type raised it itself (C20_hint_exception_origin)
        elif chosen == "i2p+port" and r[1] == "TypeError":
            ctx.fail("oracle/i2p-default-port-typeerror",
                     "get_endpoint(%r) with an i2p handler that was created with a default port (i2p.sam_endpoint(ep, port=%d), handlers %r) "
                     "ended in TypeError, not in an endpoint or InvalidHintError: the hint's own port is passed positionally and "
                     "port=%d by keyword" % (s, impl.I2P_DEFAULT_PORT, hs, impl.I2P_DEFAULT_PORT),
                     replay=dict(hint=s, handlers=hs, exception=r[1],
                                 python="harness.c20_impl.get_endpoint(%r, %r)" % (s, hs)))
        else:
            ctx.fail("oracle/hint-other-exception", "get_endpoint(%r) with handlers %r ended in %s, not InvalidHintError" % (s, hs, r[1]),
                     replay=dict(hint=s, handlers=hs, exception=r[1]))
    if r[0] == "ok":
        kind, host, port, host2 = r[1]
        if host != host2 or not isinstance(host, str) or not (port is None or (isinstance(port, int) and 0 <= port <= 99999)):
            ctx.fail("oracle/hint-bad-endpoint", "get_endpoint(%r) built an endpoint with host %r / %r port %r" % (s, host, host2, port),
                     replay=dict(hint=s, handlers=hs, endpoint=r[1]))
    if "i2p+port" in hs.values():
        d = impl.hint_to_endpoint("i2p+port", s)
        if d[0] == "exc" and not d[2]:
            ctx.fail("oracle/i2p-default-port-typeerror" if d[1] == "TypeError" else "oracle/hint-other-exception",
                     "an i2p handler created with a default port (port=%d): hint_to_endpoint(%r) raised %s, not InvalidHintError"
                     % (impl.I2P_DEFAULT_PORT, s, d[1]), replay=dict(hint=s, handler="i2p+port", exception=d[1]))
    for kind in ("tcp", "tor", "i2p"):
        d = impl.hint_to_endpoint(kind, s)
        if d[0] == "exc" and not d[2]:
            ctx.fail("oracle/hint-other-exception", "%s handler's hint_to_endpoint(%r) raised %s, not InvalidHintError" % (kind, s, d[1]),
                     replay=dict(hint=s, handler=kind, exception=d[1]))


def oracle_history(ctx, impl, furls):
    """parsing is a function of the string: what an earlier caller did to ITS result (hint list of
    decode_furl, SturdyRef.locationHints, TubRef.getLocations()) must not show in a later parse.
    Each case uses a FURL of its own (a unique name suffix), so cases cannot disturb each other."""
    n = 0
    for i, s in enumerate(furls):
        mutation = impl.MUTATIONS[i % len(impl.MUTATIONS)]
        as_bytes = ((i // len(impl.MUTATIONS)) % 2 == 1)
        subject = s + "~h%d" % i                   # still a FURL if s was one; unique per case
        try:
            subject.encode("utf-8")
        except UnicodeEncodeError:
            continue
        probs = impl.history_probe(subject, mutation, as_bytes)
        n += 1
        ctx.case(["history", subject, mutation, as_bytes], nontrivial=True)
        ctx.hist("history", mutation + ("/bytes" if as_bytes else "/str"))
        if probs:
            ctx.fail("oracle/decode-depends-on-history",
                     "decode_furl is not a function of the string: f = %r (%s); decode f, %s on the result's hint list, decode f "
                     "again: %s" % (subject, "bytes" if as_bytes else "str", mutation, "; ".join(probs[:3])),
                     replay=dict(furl=subject, as_bytes=as_bytes, mutation=mutation, problems=probs,
                                 python="harness.c20_impl.history_probe(%r, %r, %r)" % (subject, mutation, as_bytes)))
    ctx.extra["history_cases"] = n


MALFORMED_UTF8 = [b"\xff", b"pb://\xffa@h/n", b"pb://a@h/\xc3", b"\xc0\xaf", b"pb://a@h/\xc0\xaf", b"pb://a@h/\xc1\xbf", b"pb://a@h/\xed\xa0\x80",
                  b"pb://a@h/\xed\xbf\xbf", b"pb://a@h/\xf4\x90\x80\x80", b"pb://a@h/\xe0\x9f\xbf", b"pb://a@h/\xf0\x8f\xbf\xbf", b"pb://a@h/\xe2\x82",
                  b"\xc2", b"pb://a@h/\xf5\x80\x80\x80", b"pb://a@h/\x80", b"pb://a@h/\xbf", b"pb://a@h/\xe2\x28\xa1", b"pb://a@h/\xf0\x9f\x98",
                  # well-formed boundary cases
                  b"pb://a@h/\xf0\x9f\x98\x80", b"pb://a@h/\xef\xbf\xbf", b"pb://a@h/\xed\x9f\xbf", b"pb://a@h/\xee\x80\x80", b"pb://a@h/\xc2\x80",
                  b"pb://a@h/\xdf\xbf", b"pb://a@h/\xe0\xa0\x80", b"pb://a@h/\xf0\x90\x80\x80", b"pb://a@h/\xf4\x8f\xbf\xbf", b"pb://\xe2\x84\xaa@h/n"]


def correspond_bytes(ctx, impl, furls, rng):
    """decode_furl on bytes: the model's strict UTF-8 decoder followed by decode_furl, against the real function"""
    cases = list(MALFORMED_UTF8)
    for f in furls[:ctx.n(150, 1500)]:
        try:
            b = f.encode("utf-8")
        except UnicodeEncodeError:
            continue
        cases.append(b)
        if rng.random() < 0.5 and b:
            i = rng.randrange(len(b))
            cases.append(b[:i] + bytes([rng.choice([0x80, 0xbf, 0xc0, 0xc2, 0xe0, 0xed, 0xf0, 0xf4, 0xf5, 0xff, rng.randrange(0x80, 0x100)])]) + b[i + rng.choice([0, 1]):])
    seen = set()
    cases = [c for c in cases if not (c in seen or seen.add(c))]
    body = ("\nDefinition cases : list (list Z) := " + coq_list(["[" + ";".join(str(x) for x in c) + "]%Z" for c in cases]) + ".\n"
            + "Eval vm_compute in map (fun b => furl_code (decode_furl_bytes b)) cases.\n")
    try:
        (vals,) = ctx.coq_eval("C20_bytes", body, requires=REQ)
    except common.CoqEvalError as e:
        ctx.fail("correspondence-broken", "the bytes-FURL model could not be evaluated: " + tail(str(e), 1200), has_input=False)
        return
    bad = 0
    for b, v in zip(cases, vals):
        r = impl.decode(b)
        theirs = furl_obs(r)
        ctx.traces += 1
        ctx.case(["bytes-furl", list(b)], nontrivial=(r[0] == "ok" or r[1] == "UnicodeDecodeError"))
        ctx.hist("decode_furl(bytes)", "ok" if r[0] == "ok" else r[1])
        if r[0] == "exc" and not (r[2] or r[3]):
            ctx.fail("oracle/decode-other-exception", "decode_furl(%r) raised %s, neither BadFURLError nor a ValueError" % (b, r[1]),
                     replay=dict(furl=repr(b), exception=r[1]))
        if v != theirs:
            bad += 1
            if bad <= 3:
                ctx.fail("correspondence/decode_furl-bytes", "model and decode_furl disagree on the bytes %r: model %r, implementation %r"
                         % (b, v, theirs), replay=dict(furl=repr(b), model=v, impl=theirs), has_input=False)
    ctx.extra["bytes_correspondence_cases"] = len(cases)


def oracle_containment(ctx, impl):
    """per-hint containment on a real Tub: hints whose handler raises (a third-party plugin raising KeyError at once or
    through a failed Deferred, the i2p handler with a default port) must neither escape from getReference nor keep the
    other hints of the same FURL from being tried, and a FURL with only such hints is answered at once"""
    plugins = {"boom": "plug-keyerror", "late": "plug-deferred-fail", "i2p": "i2p+port", "no": "plug-invalid"}
    t = TUBS3[0]
    good = ("good.example.org", 1234)
    hists = [
        ("a usable hint after raising ones", [["getref", "pb://%s@boom:x,i2p:a:80,late:y,no:z,tcp:good.example.org:1234/real" % t], ["advance", 1]], True),
        ("a usable hint before raising ones", [["getref", "pb://%s@tcp:good.example.org:1234,no:z,late:y,i2p:a:80,boom:x/real2" % t], ["advance", 1]], True),
        ("only raising hints", [["getref", "pb://%s@boom:x,late:y,no:z/gift" % t], ["advance", 1]], False),
    ]
    for label, evs, usable in hists:
        try:
            obs = impl.tub_history(evs, plugins=plugins)
        except Exception as e:  # noqa
            ctx.fail("oracle/hint-exception-not-contained", "%s: getReference / the reactor turn raised %s: %s (events %r, handlers %r)"
                     % (label, type(e).__name__, e, evs, plugins), replay=dict(events=evs, handlers=plugins))
            continue
        ctx.case(["containment", label], nontrivial=True)
        connects = [tuple(c) for o in obs for c in o["connects"]]
        fired = obs[-1]["fired"]
        if usable and (good not in connects or 0 in obs[0]["fired"]):
            ctx.fail("oracle/hint-exception-not-contained", "%s: FURL %r on a Tub with handlers %r: connection attempts %r, getReference "
                     "answered early: %r -- the hint tcp:good.example.org:1234 must be tried whatever the other handlers raise"
                     % (label, evs[0][1], plugins, connects, obs[0]["fired"]), replay=dict(events=evs, handlers=plugins, observations=obs))
        if not usable and 0 not in fired:
            ctx.fail("oracle/hint-exception-not-contained", "%s: FURL %r on a Tub with handlers %r is still unanswered one second later"
                     % (label, evs[0][1], plugins), replay=dict(events=evs, handlers=plugins, observations=obs))


CA_POOL = ["beh:%s:%s" % (k, i) for k in ("ok", "cf", "ce", "inv", "key", "late", "val", "lf") for i in "ab"] + \
          ["tcp:h.example:1", "x:y", "nocolon", "tcp:bad:port"]
CA_FIXED = [[], ["beh:key:a"], ["beh:ok:a"], ["beh:key:a", "beh:ok:b", "beh:inv:a", "beh:ok:b", "beh:cf:a"], ["beh:ok:a", "beh:key:a"],
            ["beh:key:a", "beh:ok:a"], ["beh:late:a", "beh:val:a", "x:y", "nocolon"], ["beh:ce:a"], ["beh:cf:a", "beh:cf:a"],
            ["tcp:h.example:1", "beh:ce:b", "nocolon"], ["beh:lf:a"], ["beh:key:a", "beh:lf:a", "beh:lf:b"], ["beh:lf:a", "beh:ok:a"], ["beh:key:a", "beh:key:a", "beh:ok:a", "beh:ok:a"], ["beh:inv:a", "tcp:bad:port"]]


def ca_outcome(impl, h):
    if h.startswith("beh:"):
        return impl.BEH_OUTCOME[h.split(":")[1]]
    return ("HPending", None) if h == "tcp:h.example:1" else ("HRaises", "InvalidHintError")


def correspond_connect_all(ctx, impl, rng, model_ok):
    """TubConnector.connectToAll hint by hint on a real Tub: direct oracle (every hint considered, usable hints dialled
    whatever the others raise, answered at once iff nothing is dialled, failed() at most once) and comparison with
    lib/ConnectAll.v's connect_all on the same hint lists and behaviours"""
    cases = [list(c) for c in CA_FIXED]
    for _ in range(ctx.n(50, 1500)):
        cases.append([rng.choice(CA_POOL) for _ in range(rng.randrange(0, 7))])
    observed = []
    for hints in cases:
        o = impl.connect_all_probe(hints)
        ctx.case(["connect-all", hints], nontrivial=True)
        ctx.hist("connectToAll hints", len(hints))
        observed.append(o)
        distinct = []
        for h in hints:
            if h not in distinct:
                distinct.append(h)
        live = [h for h in distinct if ca_outcome(impl, h)[0] == "HPending"]
        problem = None
        if o is None or o["raised"]:
            problem = "getReference raised %s" % (o and o["raised"])
        elif sorted(o["attempted"]) != sorted(distinct):
            problem = "hints considered: %r, hints of the FURL: %r" % (o["attempted"], distinct)
        elif o["pending"] != len(live) or any(h not in o["valid"] for h in live):
            problem = "%d connection attempts running, the usable hints are %r" % (o["pending"], live)
        elif live and (o["failed"] != 0 or o["answered"] or not o["active"]):
            problem = "a connection attempt is running but the connector reported failure (failed() x %d, answered %r)" % (o["failed"], o["answered"])
        elif not live and (o["failed"] != 1 or not o["answered"] or o["active"]):
            problem = "no hint is usable but getReference is unanswered / failed() ran %d times" % o["failed"]
        if not problem and o.get("late") and o["late"]["n"]:
            # second phase: the endpoints of the beh:lf hints refuse LATER; when nothing else is being dialled the connector must
            # then report failure exactly once and answer getReference, otherwise keep waiting
            la = o["late"]
            still = [h for h in live if not h.startswith("beh:lf:")]
            if la.get("raised"):
                problem = "a connection refused later made the reactor turn raise %s" % la["raised"]
            elif still and (la["failed"] != 0 or la["answered"] or la["pending"] != len(still)):
                problem = "after the late refusals %r are still being dialled, but failed() ran %d times / answered %r" % (still, la["failed"], la["answered"])
            elif not still and (la["failed"] != 1 or not la["answered"] or la["active"]):
                problem = ("every connection attempt has been refused by now (late), but getReference is %s and failed() ran %d times"
                           % ("answered" if la["answered"] else "STILL UNANSWERED", la["failed"]))
        if problem:
            ctx.fail("oracle/hint-exception-not-contained", "TubConnector for the hints %r (beh:<kind>: ok = endpoint that never answers, lf = endpoint that refuses later, cf / ce = "
                     "endpoint.connect() fails / raises, inv / key / val / late = the handler raises InvalidHintError / KeyError / ValueError / "
                     "returns a failed Deferred): %s" % (hints, problem),
                     replay=dict(hints=hints, observed=o, python="harness.c20_impl.connect_all_probe(%r)" % (hints,)))
    ctx.extra["connect_all_cases"] = len(cases)
    if not model_ok:
        return

    def outc(h):
        k, e = ca_outcome(impl, h)
        return "HPending" if e is None else '(%s "%s")' % (k, e)
    rows = []
    for hints in cases:
        table = coq_list(["(%s%%Z, %s)" % (zs(h), outc(h)) for h in sorted(set(hints))])
        rows.append("(%s, %s)" % (table, coq_list([zs(h) + "%Z" for h in reversed(hints)])))
    body = ("\nDefinition cases : list (list (list Z * houtcome) * list (list Z)) := " + coq_list(rows) + ".\n"
            "Definition lookupb (t : list (list Z * houtcome)) (h : list Z) : houtcome :=\n"
            "  match find (fun p => list_eqb h (fst p)) t with Some p => snd p | None => HRaises \"InvalidHintError\" end.\n"
            "Definition rcode (o : option string) : string := match o with Some x => x | None => \"\"%string end.\n"
            "Eval vm_compute in map (fun c => let '(a, v, p, st, r, act, f) := obs (connect_all (lookupb (fst c)) (snd c)) in "
            "(a, v, (p, f), st, (rcode r, act))) cases.\n")
    try:
        (vals,) = ctx.coq_eval("C20_connect_all", body, requires=["Verif.lib.PyLite", "Verif.lib.ConnectAll"])
    except common.CoqEvalError as e:
        ctx.fail("correspondence-broken", "the connectToAll model could not be evaluated: " + tail(str(e), 1200), has_input=False)
        return
    bad = 0
    txt = lambda l: "".join(chr(c) for c in l)
    for hints, o, v in zip(cases, observed, vals):
        ctx.traces += 1
        if o is None:
            continue
        a, va, (p, f), st, (r, act) = v
        mine = dict(attempted=[txt(x) for x in a], valid=[txt(x) for x in va], pending=p, statuses=[[txt(h), c] for h, c in st],
                    reason=r or None, active=act, failed=f)
        theirs = {k: o[k] for k in mine}
        if mine != theirs:
            bad += 1
            if bad <= 2:
                ctx.fail("correspondence/connect-all", "model and TubConnector disagree on the hints %r: model %r, implementation %r"
                         % (hints, mine, theirs), replay=dict(hints=hints, model=mine, impl=theirs), has_input=False)
    ctx.extra["connect_all_disagreements"] = bad


# ------------------------------------------------------------------------------ connectToAll: waiting hints and the late phase

LATE_KINDS = ("ok", "lf", "cf", "inv", "key", "wn", "wx", "wo", "wc", "wi", "wk")
LATE_POOL = ["beh:%s:%s" % (k, i) for k in LATE_KINDS for i in "ab"] + ["beh:wn:c", "beh:lf:c", "tcp:h.example:1", "nocolon"]
LATE_TOR_HINTS = ["tor:example.onion:80", "tor:b.onion:1", "tor:10.0.0.1:80", "tor:not@a@hint:123", "tor:example.onion:123456"]
LATE_TOR_STATES = [("launch", "launch", "never"), ("control_endpoint_maker", "maker", "never"), ("control_endpoint_maker", "bootstrap", "never"),
                   ("control_endpoint", "connect", "never"), ("launch", "launch", "fails"), ("control_endpoint", "socksport", "fails"),
                   ("launch", None, None), ("default_socks", None, None)]
# (hints, schedule, tor state): the witnesses of review-2 finding 1 first -- a Tor that never comes up
LATE_FIXED = [
    (["tor:example.onion:80"], [["timeout"]], ("launch", "launch", "never")),
    (["tor:example.onion:80", "tor:10.0.0.1:80", "tor:not@a@hint:123"], [["timeout"], ["timeout"]], ("control_endpoint_maker", "maker", "never")),
    (["tor:10.0.0.1:80", "tor:not@a@hint:123"], [["timeout"]], ("launch", "launch", "never")),
    (["tor:example.onion:80", "tcp:h.example:1", "beh:key:a"], [["tor-fail"], ["timeout"]], ("control_endpoint_maker", "bootstrap", "never")),
    (["tor:example.onion:80", "tor:b.onion:1"], [["tor-fail"], ["timeout"]], ("launch", "launch", "never")),
    (["tor:example.onion:80", "tor:b.onion:1", "beh:lf:a"], [["tor-up"], ["connfail", "beh:lf:a"], ["timeout"]], ("launch", "launch", "never")),
    (["tor:example.onion:80"], [["timeout"]], ("launch", "launch", "fails")),
    (["tor:example.onion:80", "beh:ok:a"], [["timeout"]], ("launch", None, None)),
    (["beh:wn:a"], [["timeout"]], None), (["beh:wn:a"], [], None), (["beh:wx:a", "beh:wn:a"], [["timeout"]], None),
    (["beh:wi:a"], [["resolve", "beh:wi:a"], ["timeout"]], None), (["beh:wk:a", "beh:inv:a"], [["resolve", "beh:wk:a"]], None),
    (["beh:wo:a"], [["resolve", "beh:wo:a"], ["resolve", "beh:wo:a"], ["timeout"]], None),
    (["beh:wc:a", "beh:wn:a"], [["resolve", "beh:wc:a"], ["timeout"], ["resolve", "beh:wn:a"]], None),
    (["beh:key:a", "beh:wn:a", "beh:wc:a", "beh:lf:a", "beh:wx:a"], [["resolve", "beh:wc:a"], ["connfail", "beh:lf:a"], ["timeout"], ["timeout"]], None),
    (["beh:lf:a", "beh:wc:a"], [["connfail", "beh:lf:a"], ["resolve", "beh:wc:a"], ["timeout"]], None),
    (["beh:wn:a", "beh:wn:a", "beh:lf:a"], [["connfail", "beh:lf:a"], ["connfail", "beh:lf:a"]], None),
]


def late_outcome(impl, h, tor):
    """what the connector sees of the hint h when the reactor is idle after connect(): (constructor, exception class | None)"""
    if h.startswith("beh:") and h.split(":")[1] in impl.BEH_WAIT:
        return ("HWaiting", None)
    if h.startswith("tor:"):
        if tor is None or impl.hint_to_endpoint("tor", h)[0] != "ok":
            return ("HRaises", "InvalidHintError")
        setup, stage, mode = tor
        if stage is None:
            return ("HPending", None)
        return ("HWaiting", None) if mode == "never" else ("HRaises", "ValueError" if stage == "socksport" else "TorDown")
    return ca_outcome(impl, h)


def late_events(impl, hints, schedule, tor):
    """the schedule in the model's vocabulary: per schedule entry a list of (constructor text, hint | None).  The FIRST group is
    implicit: a Tor handler answers an accepted hint through its observer list, i.e. in a LATER reactor turn even when its Tor is
    there or has already failed -- when connect() returns every accepted Tor hint is waiting (HWaiting), and it settles (endpoint /
    the Tor's exception) before the reactor is idle, after all synchronous outcomes of the other hints"""
    distinct = []
    for h in reversed(hints):                 # the order in which connectToAll considers them = the order in which the Tor's observers fire
        if h not in distinct:
            distinct.append(h)
    settle = []
    for h in distinct:
        if tor is not None and h.startswith("tor:") and impl.hint_to_endpoint("tor", h)[0] == "ok":
            k, e = late_outcome(impl, h, tor)
            if k != "HWaiting":
                settle.append(("LResolve %s " + ("HPending" if e is None else '(%s "%s")' % (k, e)), h))
    out = [settle]
    for ev in schedule:
        if ev[0] == "resolve":
            kind = ev[1].split(":")[1] if ev[1].startswith("beh:") else ""
            o = impl.BEH_WAIT.get(kind)
            out.append([("LResolve %s " + ("HWaiting" if o is None else "HPending" if o[1] is None else '(%s "%s")' % o), ev[1])])
        elif ev[0] == "connfail":
            out.append([('LConnFail %s "ConnectionRefusedError"', ev[1])])
        elif ev[0] in ("tor-up", "tor-fail"):
            what = "HPending" if ev[0] == "tor-up" else '(HRaises "TorDown")'
            out.append([("LResolve %s " + what, h) for h in distinct if h.startswith("tor:") and late_outcome(impl, h, tor)[0] == "HWaiting"])
        else:
            out.append([("LTimeout", None)])
    return out


def gen_late_case(impl, rng):
    tor = rng.choice(LATE_TOR_STATES) if rng.random() < 0.4 else None
    pool = LATE_POOL + (LATE_TOR_HINTS * 3 if tor else [])
    hints = [rng.choice(pool) for _ in range(rng.randrange(1, 7))]
    cand = []
    for h in set(hints):
        kind = h.split(":")[1] if h.startswith("beh:") else ""
        if kind in impl.BEH_WAIT or rng.random() < 0.15:
            cand.append(["resolve", h])
        if kind in ("lf", "wo") or (not h.startswith("tor:") and late_outcome(impl, h, tor)[0] in ("HRaises", "HConnectFails", "HWaiting")
                                    and rng.random() < 0.15):
            cand.append(["connfail", h])          # for a hint without a dialled endpoint: nothing happens, in the model too
    if tor and tor[2] == "never":
        cand.append([rng.choice(["tor-up", "tor-fail"])])
    cand.sort()
    rng.shuffle(cand)
    sched = [e for e in cand if rng.random() < 0.7]
    if sched and rng.random() < 0.2:
        sched.append(rng.choice(sched))
    if rng.random() < 0.3:
        sched.insert(rng.randrange(0, len(sched) + 1), ["timeout"])
    if rng.random() < 0.75:
        sched.append(["timeout"])
    # a Tor that comes up / gives up AFTER the connector has given up: the handler's own _connect goes on and its update_status
    # still writes "waiting for Tor bootstrap" ... over the hint's "abandoned" (stale ConnectionInfo text, no effect on the
    # connector); not modelled, so not scheduled
    if ["timeout"] in sched:
        k = sched.index(["timeout"])
        sched = sched[:k] + [e for e in sched[k:] if e[0] not in ("tor-up", "tor-fail")]
    return (hints, sched, tor)


def correspond_connect_late(ctx, impl, rng, model_ok):
    """hints whose handler has NOT answered when connect() returns (a Tor handler whose Tor is starting, a plugin's unfired Deferred) and
    everything that happens afterwards on a real TubConnector: waiting hints resolve, dialled endpoints refuse, the Tor comes up / gives up,
    the connect timer fires.  Direct oracle after every event (a waiting hint keeps the connector waiting; failed() at most once; answered
    as soon as nothing is outstanding and at the latest when the timer fires) and comparison with lib/ConnectAll.v's run_late."""
    cases = [(list(h), [list(e) for e in sc], t) for h, sc, t in LATE_FIXED]
    for _ in range(ctx.n(90, 2500)):
        cases.append(gen_late_case(impl, rng))
    observed = []
    timeout = impl.connection_timeout()
    for hints, sched, tor in cases:
        o = impl.connect_all_probe(hints, schedule=sched, tor=tor)
        observed.append(o)
        ctx.case(["connect-late", hints, sched, list(tor) if tor else None], nontrivial=any(late_outcome(impl, h, tor)[0] == "HWaiting" for h in hints))
        ctx.hist("late schedule length", len(sched))
        for h in set(hints):
            ctx.hist("late hint outcome", late_outcome(impl, h, tor)[0])
        where = ("TubConnector for the hints %r%s (beh:<kind>: wn / wx = the handler never answers [wx: its canceller fails with RuntimeError], wo / wc / wi / wk = it "
                 "answers LATER with an endpoint that never answers / an endpoint that refuses / InvalidHintError / KeyError, ok / lf = endpoint that never "
                 "answers / refuses later, cf / inv / key = connect() refused / InvalidHintError / KeyError at once)"
                 % (hints, ", \"tor\" handler: %s" % tor_state_name(tor) if tor else ""))
        rep = dict(hints=hints, schedule=sched, tor=list(tor) if tor else None, observed=o,
                   python="harness.c20_impl.connect_all_probe(%r, schedule=%r, tor=%r)" % (hints, sched, tor))
        if o is None or o.get("raised") or o.get("trace_raised"):
            ctx.fail("oracle/hint-exception-not-contained", "%s: getReference / a reactor turn of the schedule %r raised %s"
                     % (where, sched, o and (o.get("raised") or o.get("trace_raised"))), replay=rep)
            continue
        # what is outstanding, event by event (the property's view: is there anything left to wait for?)
        out = {h for h in hints if late_outcome(impl, h, tor)[0] in ("HPending", "HWaiting")}
        waiting = {h for h in out if late_outcome(impl, h, tor)[0] == "HWaiting"}
        timed = False
        snaps = [("connect() returned, reactor idle", o)] + [("event %d %r" % (i, sched[i]), sn) for i, sn in enumerate(o["trace"])]
        problem = None
        for k, (label, sn) in enumerate(snaps):
            if k > 0 and not timed:
                ev = sched[k - 1]
                if ev[0] == "timeout":
                    timed = True
                elif ev[0] == "resolve" and ev[1] in waiting:
                    r = impl.BEH_WAIT.get(ev[1].split(":")[1]) if ev[1].startswith("beh:") else None
                    if r is not None:
                        waiting.discard(ev[1])
                        if r[1] is not None:
                            out.discard(ev[1])
                elif ev[0] == "connfail" and ev[1] in out and ev[1] not in waiting and ev[1].startswith(("beh:lf:", "beh:wo:")):
                    out.discard(ev[1])
                elif ev[0] in ("tor-up", "tor-fail"):
                    for h in [h for h in waiting if h.startswith("tor:")]:
                        waiting.discard(h)
                        if ev[0] == "tor-fail":
                            out.discard(h)
            if sn["failed"] > 1:
                problem = ("oracle/connector-reports-twice", "%s: failed() / Tub.connectionFailed ran %d times" % (label, sn["failed"]))
            elif timed and not sn["answered"]:
                problem = ("oracle/getreference-stalls", "%s: the connect timeout (%d s) has passed and getReference is STILL UNANSWERED (failed() x %d, %d "
                           "Deferreds pending, active=%r)" % (label, timeout, sn["failed"], sn["pending"], sn["active"]))
            elif timed and (sn["pending"] or sn["active"] or sn["timer"]):
                problem = ("oracle/connector-unfinished-after-timeout", "%s: after the connect timeout the connector still has %d pending Deferreds / active=%r / timer=%r"
                           % (label, sn["pending"], sn["active"], sn["timer"]))
            elif not timed and out and (sn["answered"] or sn["failed"] or not sn["active"] or not sn["timer"]):
                problem = ("oracle/waiting-hint-dropped", "%s: %r are still outstanding (%r of them waiting for their handler) and the connect timeout has not "
                           "passed, but the connector gave up: answered=%r, failed() x %d, active=%r, timer armed=%r"
                           % (label, sorted(out), sorted(waiting), sn["answered"], sn["failed"], sn["active"], sn["timer"]))
            elif not timed and out and sn["pending"] != len(out):
                problem = ("oracle/waiting-hint-dropped", "%s: %r are outstanding but %d Deferreds are pending" % (label, sorted(out), sn["pending"]))
            elif not timed and not out and (not sn["answered"] or sn["failed"] != 1 or sn["active"]):
                problem = ("oracle/getreference-stalls", "%s: nothing is outstanding any more but getReference is %s (failed() x %d, active=%r): it now "
                           "waits for the connect timeout for nothing" % (label, "answered" if sn["answered"] else "STILL UNANSWERED", sn["failed"], sn["active"]))
            elif any(h in sn["valid"] for h in waiting):
                problem = ("oracle/waiting-hint-dropped", "%s: %r have no endpoint yet but are in validHints %r" % (label, sorted(waiting), sn["valid"]))
            if problem:
                break
        if problem:
            ctx.fail(problem[0], "%s, schedule %r: %s" % (where, sched, problem[1]), replay=rep)
    ctx.extra["connect_late_cases"] = len(cases)
    if not model_ok:
        return
    rows = []
    names = []                                   # the model treats a hint as an opaque key: hints go in as [index], one table per case
    for hints, sched, tor in cases:
        def outc(h):
            k, e = late_outcome(impl, h, tor)
            if tor is not None and h.startswith("tor:") and impl.hint_to_endpoint("tor", h)[0] == "ok":
                k, e = "HWaiting", None           # settles in the implicit first group of late_events
            return k if e is None else '(%s "%s")' % (k, e)
        keys = sorted(set(hints))
        names.append(keys)
        hz = lambda h: "[%d%%Z]" % keys.index(h)
        table = coq_list(["(%s, %s)" % (hz(h), outc(h)) for h in keys])
        evs = [(t % hz(h) if h is not None else t) for group in late_events(impl, hints, sched, tor) for t, h in group if h is None or h in keys]
        wx = coq_list([hz(h) for h in keys if h.startswith("beh:wx:")])
        rows.append("(%s, %s, %s, %s)" % (table, coq_list([hz(h) for h in reversed(hints)]), coq_list(evs), wx))
    vals = []
    CH = 400
    for k in range(0, len(rows), CH):
        body = ("\nDefinition cases : list (list (list Z * houtcome) * list (list Z) * list lev * list (list Z)) := " + coq_list(rows[k:k + CH]) + ".\n"
                "Definition lookupb (t : list (list Z * houtcome)) (h : list Z) : houtcome :=\n"
                "  match find (fun p => list_eqb h (fst p)) t with Some p => snd p | None => HRaises \"InvalidHintError\" end.\n"
                "Definition rcode (o : option string) : string := match o with Some x => x | None => \"\"%string end.\n"
                "Definition code (s : cas) := let '(a, v, p, st, r, act, f) := obs s in (a, v, (p, f), st, (rcode r, act)).\n"
                "Eval vm_compute in map (fun c => let '(t, hs, evs, wx) := c in\n"
                "  let cx := fun h => if existsb (list_eqb h) wx then \"RuntimeError\"%string else \"CancelledError\"%string in\n"
                "  let s0 := connect_all (lookupb t) hs in code s0 :: map code (late_trace cx evs s0)) cases.\n")
        try:
            (v,) = ctx.coq_eval("C20_connect_late_%d" % (k // CH), body, requires=["Verif.lib.PyLite", "Verif.lib.ConnectAll"])
        except common.CoqEvalError as e:
            ctx.fail("correspondence-broken", "the connectToAll late-phase model could not be evaluated: " + tail(str(e), 1200), has_input=False)
            return
        vals += v
    bad = 0
    for (hints, sched, tor), o, v, keys in zip(cases, observed, vals, names):
        ctx.traces += 1
        if o is None or "trace" not in o or len(o["trace"]) != len(sched):
            continue
        txt = lambda l, keys=keys: keys[l[0]]
        groups = [[(t, h) for t, h in g if h is None or h in keys] for g in late_events(impl, hints, sched, tor)]
        # the model has one state per model event; a schedule entry may stand for several (tor-up: one per waiting Tor hint) or none
        idx, pos = [], 0
        for g in groups:                         # groups[0] is the implicit settling of the Tor hints: first comparison after it
            pos += len(g)
            idx.append(pos)
        for k, (i, sn) in enumerate(zip(idx, [o] + o["trace"])):
            a, va, (p, f), st, (r, act) = v[i]
            mine = dict(attempted=[txt(x) for x in a], valid=[txt(x) for x in va], pending=p, statuses=[[txt(h), c] for h, c in st],
                        reason=r or None, active=act, failed=f)
            theirs = {key: sn[key] for key in mine}
            if mine != theirs:
                bad += 1
                if bad <= 2:
                    ctx.fail("correspondence/connect-late", "model (ConnectAll.run_late) and TubConnector disagree on the hints %r%s after %s of the schedule %r: "
                             "model %r, implementation %r" % (hints, ", tor handler %r" % (tor,) if tor else "",
                                                              "connect()" if k == 0 else "event %d" % (k - 1), sched, mine, theirs),
                             replay=dict(hints=hints, schedule=sched, tor=list(tor) if tor else None, model=mine, impl=theirs), has_input=False)
                break
    ctx.extra["connect_late_disagreements"] = bad


# ------------------------------------------------------------------------------ Tor handlers whose Tor is not there

# the family "a hint the handler cannot use" (by what makes it unusable), and three that it can use.  All short: these run
# in-process, and a tree with a super-linear pattern (the CPU-time probes' business, in child processes) must not hang here
TOR_UNUSABLE = [
    ("malformed host", "tor:not@a@hint:123"), ("six-digit port", "tor:example.onion:123456"), ("no port", "tor:example.onion"),
    ("empty port", "tor:example.onion:"), ("RFC1918 address", "tcp:10.0.0.1:1234"), ("loopback address", "tcp:127.0.0.1:80"),
    ("unspecified address", "tor:0.0.0.0:0"), ("multicast address", "tor:224.0.0.1:9"), ("bracketed IPv6", "tor:[::1]:5"),
    ("non-decimal digit in the port", "tor:example.onion:8\u00b2"), ("trailing newline twice", "tor:example.onion:80\n\n"),
    ("empty string", ""), ("no colon", "nocolon"), ("only colons", ":::"),
]
TOR_USABLE = ["tor:example.onion:80", "tcp:8.8.8.8:53", "x:a.b:99999"]


def tor_state_name(st):
    setup, stage, mode = st
    if stage is None:
        return "tor.%s() with a Tor that is there" % setup
    how = {"never": "never gets past", "fails": "fails at", "up-later": "is still at", "fails-later": "is still at (and will fail at)"}[mode]
    return "tor.%s() whose Tor %s the stage '%s'" % (setup, how, stage)


def oracle_tor_states(ctx, impl, hints):
    """classification by a Tor handler is by the string alone: a hint that a handler with a ready Tor rejects with
    InvalidHintError is rejected at once by EVERY Tor handler (each public constructor of connections/tor.py) in EVERY state of
    its Tor (launch / control-port maker / control connection / bootstrap pending for ever, failing, succeeding or failing
    later; no usable SocksPort) -- never left waiting for the Tor, never answered with the Tor's own error; a hint that is
    accepted ends in the same endpoint once the Tor is there, and until then / instead only waits / fails with the Tor.
    Directly on handler.hint_to_endpoint and through connection.get_endpoint; several hints to one handler, as for one FURL."""
    states = impl.tor_states()
    ctx.extra["tor_states"] = len(states)
    ref_cache = {}

    def ref(h):
        if h not in ref_cache:
            ref_cache[h] = impl.hint_to_endpoint("tor", h)          # the classification: a handler that never waits
        return ref_cache[h]

    def judge(st, via, batch, res):
        setup, stage, mode = st
        for h, o in zip(batch, res):
            r = ref(h)
            now, later = o["now"], o["later"]
            ctx.case(["tor-state", setup, stage, mode, via, h], nontrivial=True)
            if via == "get_endpoint":
                # the dispatch in front of the handler: legacy conversion, then only "tor:" / "tcp:" hints reach it
                c = impl.convert_legacy(h)
                h2 = c[1] if c[0] == "ok" else h
                r = ref(h2) if (":" in h2 and h2.split(":", 1)[0] in ("tor", "tcp")) else ("exc", "InvalidHintError", True)
            kind = "endpoint" if r[0] == "ok" else ("invalid" if r[2] else "other")
            ctx.hist("tor handler state", "%s/%s: %s hint" % (stage or "ready", mode or "-", kind))
            where = "%s, %s" % (tor_state_name(st), "handler.hint_to_endpoint" if via == "handler" else "connection.get_endpoint")
            rep = dict(hint=h, hints_given_to_the_handler=batch, setup=setup, stage=stage, mode=mode, via=via, observed=o, classification=list(r),
                       python="harness.c20_impl.tor_probe(%r, %r, %r, %r, %r)" % (setup, stage, mode, batch, via))
            if kind == "other":
                continue                                            # already reported by the plain hint oracle
            if kind == "invalid":
                if now == ["pending"]:
                    ctx.fail("oracle/hint-classification-stalls",
                             "%s: the hint %r is not usable (%s) and a handler with a ready Tor answers InvalidHintError, but here the Deferred "
                             "is still unanswered when the reactor is idle: the classification waits for the Tor (afterwards: %s)"
                             % (where, h[:60], "InvalidHintError", later[1] if len(later) > 1 else "still pending"), replay=rep)
                elif now[0] != "exc" or not now[2]:
                    ctx.fail("oracle/hint-other-exception" if now[0] == "exc" else "oracle/hint-depends-on-tor-state",
                             "%s: the unusable hint %r ended in %s, not in InvalidHintError (which a handler with a ready Tor answers)"
                             % (where, h[:60], now[1] if now[0] == "exc" else "an endpoint"), replay=rep)
                continue
            # an accepted hint: its fate is the Tor's
            if stage is None:
                want_now = want_later = ["ok", list(r[1])]
            elif mode == "fails":
                want_now = want_later = ["exc", "ValueError" if stage == "socksport" else "TorDown", False]
            else:
                want_now = ["pending"]
                want_later = {"never": ["pending"], "up-later": ["ok", list(r[1])], "fails-later": ["exc", "TorDown", False]}[mode]
            if now != want_now or later != want_later:
                ctx.fail("oracle/hint-depends-on-tor-state",
                         "%s: the usable hint %r (endpoint %r with a ready Tor): the caller holds %r, later %r; expected %r, later %r"
                         % (where, h[:60], r[1], now, later, want_now, want_later), replay=rep)

    # 1. fixed witnesses: every kind of unusable hint, each ALONE on a fresh handler, in every state; then as one batch with
    #    usable hints around them (the Tor has been asked for by an earlier hint)
    fixed = [h for _, h in TOR_UNUSABLE]
    for st in states:
        for via in ("handler", "get_endpoint"):
            if via == "get_endpoint" and st[0] not in ("launch", "control_endpoint_maker", "default_socks"):
                continue
            for h in (fixed if via == "handler" else fixed[:6]):
                judge(st, via, [h], impl.tor_probe(st[0], st[1], st[2], [h], via))
            batch = [TOR_USABLE[0]] + fixed[:8] + TOR_USABLE[1:] + fixed[8:]
            judge(st, via, batch, impl.tor_probe(st[0], st[1], st[2], batch, via))
    # 2. the generated hint stream, five to a handler, round-robin over the states
    k = 0
    for i in range(0, len(hints), 5):
        st = states[k % len(states)]
        k += 1
        batch = hints[i:i + 5]
        judge(st, "handler", batch, impl.tor_probe(st[0], st[1], st[2], batch, "handler"))


def oracle_tor_tub(ctx, impl):
    """"an untrusted FURL cannot stall the process", with a Tor handler registered whose Tor is still starting / cannot be had:
    a FURL whose tor hints are all unusable is answered at once (nothing to wait for), and a usable tcp hint next to them is
    dialled at once"""
    t = TUBS3[0]
    bad = "tor:not@a@hint:123,tor:10.0.0.1:80,tor:example.onion:123456"
    for st in (("launch", "launch", "never"), ("control_endpoint_maker", "maker", "never"), ("control_endpoint", "connect", "fails"),
               ("control_endpoint_maker", "bootstrap", "fails-later")):
        plugins = {"tor": "tor@%s@%s@%s" % st}
        for label, furl, usable in (("only unusable tor hints", "pb://%s@%s/gift" % (t, bad), False),
                                    ("a usable tcp hint after unusable tor hints", "pb://%s@%s,tcp:good.example.org:1234/real" % (t, bad), True)):
            evs = [["getref", furl], ["advance", 1]]
            try:
                obs = impl.tub_history(evs, plugins=plugins)
            except Exception as e:  # noqa
                ctx.fail("oracle/hint-exception-not-contained", "%s, Tub with %s: getReference / the reactor turn raised %s: %s"
                         % (label, tor_state_name(st), type(e).__name__, e), replay=dict(events=evs, handlers=plugins))
                continue
            ctx.case(["tor-tub", label, list(st)], nontrivial=True)
            connects = [tuple(c) for o in obs for c in o["connects"]]
            if usable and (("good.example.org", 1234) not in [tuple(c) for c in obs[0]["connects"]] or 0 in obs[0]["fired"]):
                ctx.fail("oracle/getreference-stalls", "%s: getReference(%r) on a Tub whose \"tor\" handler is %s: connection attempts started "
                         "at once %r (all: %r), answered early: %r -- tcp:good.example.org:1234 must be dialled whatever the Tor does"
                         % (label, furl, tor_state_name(st), obs[0]["connects"], connects, obs[0]["fired"]),
                         replay=dict(events=evs, handlers=plugins, observations=obs, python="harness.c20_impl.tub_history(%r, plugins=%r)" % (evs, plugins)))
            if not usable and 0 not in obs[0]["fired"]:
                ctx.fail("oracle/getreference-stalls", "%s: getReference(%r) on a Tub whose \"tor\" handler is %s is still unanswered when the "
                         "reactor is idle%s: no hint of the FURL is usable, there is nothing to wait for"
                         % (label, furl, tor_state_name(st), " and one second later" if 0 not in obs[-1]["fired"] else ""),
                         replay=dict(events=evs, handlers=plugins, observations=obs, python="harness.c20_impl.tub_history(%r, plugins=%r)" % (evs, plugins)))
    # a hint the handler ACCEPTS, with a Tor that never comes up: the FURL waits for the Tor (nothing is reported while the connect
    # timer runs) and is answered when the timer has fired -- the asynchronous path connectionTimedOut -> cancel -> _connectionFailed
    timeout = impl.connection_timeout()
    for st in (("launch", "launch", "never"), ("control_endpoint_maker", "maker", "never"), ("control_endpoint", "bootstrap", "never")):
        plugins = {"tor": "tor@%s@%s@%s" % st}
        for label, furl in (("only a usable tor hint", "pb://%s@tor:example.onion:80/svc" % t),
                            ("a usable tor hint among unusable ones", "pb://%s@%s,tor:example.onion:80/svc" % (t, bad))):
            evs = [["getref", furl], ["advance", timeout - 1], ["advance", 2]]
            try:
                obs = impl.tub_history(evs, plugins=plugins)
            except Exception as e:  # noqa
                ctx.fail("oracle/hint-exception-not-contained", "%s, Tub with %s: getReference / the reactor turn raised %s: %s"
                         % (label, tor_state_name(st), type(e).__name__, e), replay=dict(events=evs, handlers=plugins))
                continue
            ctx.case(["tor-tub-never-up", label, list(st)], nontrivial=True)
            rep = dict(events=evs, handlers=plugins, observations=obs, python="harness.c20_impl.tub_history(%r, plugins=%r)" % (evs, plugins))
            if 0 in obs[1]["fired"]:
                ctx.fail("oracle/waiting-hint-dropped", "%s: getReference(%r) on a Tub whose \"tor\" handler is %s was answered (%s) %s, while the handler "
                         "is still waiting for its Tor and the connect timeout (%d s) has not passed" % (label, furl, tor_state_name(st), obs[1]["fired"][0],
                         "at once" if 0 in obs[0]["fired"] else "within %d s" % (timeout - 1), timeout), replay=rep)
            elif 0 not in obs[2]["fired"]:
                ctx.fail("oracle/getreference-stalls", "%s: getReference(%r) on a Tub whose \"tor\" handler is %s is STILL UNANSWERED %d s later "
                         "(connect timeout %d s): a Tor that never comes up stalls the caller" % (label, furl, tor_state_name(st), timeout + 1, timeout), replay=rep)
            elif obs[2]["fired"][0] != "NegotiationError":
                ctx.note("oracle_tor_tub: %s with %s answered with %s at the timeout" % (label, tor_state_name(st), obs[2]["fired"][0]))



TOR_MODEL_STATES = [   # (model state, real handler in that state)
    ("TorReady", ("control_endpoint_maker", None, None)), ("TorReady", ("default_socks", None, None)),
    ("TorStarting", ("control_endpoint_maker", "maker", "never")), ("TorStarting", ("launch", "launch", "never")),
    ('(TorFails "TorDown")', ("control_endpoint_maker", "maker", "fails")), ('(TorFails "TorDown")', ("launch", "launch", "fails")),
    ('(TorFails "ValueError")', ("control_endpoint", "socksport", "fails")),
]


def correspond_tor_states(ctx, impl, hints):
    """lib/TorState.v tor_handler (the translated step order against a Tor that is ready / starting / failing) and real handlers in
    those states, on the same hints"""
    pool = [h for _, h in TOR_UNUSABLE] + TOR_USABLE
    cases = [(h, ms, st) for h in pool for ms, st in TOR_MODEL_STATES]
    for i, h in enumerate([h for h in hints if len(h) < 200][:ctx.n(100, 1800)]):
        ms, st = TOR_MODEL_STATES[i % len(TOR_MODEL_STATES)]
        cases.append((h, ms, st))
    rows = []
    for h, ms, st in cases:
        nps = []
        sp = impl.run_pattern("TOR_HINT_RE", h)
        if sp is not None:
            host = h[sp[1][0]:sp[1][1]]
            if impl.nonpublic(host) == ("ok", True):
                nps.append(host)
        rows.append("(%s%%Z, %s, %s)" % (zs(h), ms, coq_list([zs(x) + "%Z" for x in nps])))
    vals = []
    CH = 500
    for k in range(0, len(rows), CH):
        body = ("\nDefinition cases : list (list Z * tor_state * list (list Z)) := " + coq_list(rows[k:k + CH]) + ".\n"
                "Eval vm_compute in map (fun c => let '(s, st, nps) := c in outcome_code (tor_handler (fun h => existsb (list_eqb h) nps) st s)) cases.\n")
        try:
            (v,) = ctx.coq_eval("C20_tor_%d" % (k // CH), body, requires=REQ + ["Verif.lib.TorState"])
        except common.CoqEvalError as e:
            ctx.fail("correspondence-broken", "the Tor-state model could not be evaluated: " + tail(str(e), 1200), has_input=False)
            return
        vals += v
    bad = 0
    for (h, ms, st), mine in zip(cases, vals):
        o = impl.tor_probe(st[0], st[1], st[2], [h], "handler")[0]["now"]
        theirs = [[-9]] if o == ["pending"] else ep_obs(("ok", o[1]) if o[0] == "ok" else ("exc", o[1], o[2]))
        ctx.traces += 1
        if mine != theirs:
            bad += 1
            if bad <= 2:
                ctx.fail("correspondence/tor-state", "model tor_handler and the real handler disagree on the hint %r with %s (model state %s): "
                         "model %r, implementation %r ([[-9]] = the caller is still waiting)" % (h, tor_state_name(st), ms, mine, theirs),
                         replay=dict(hint=h, setup=list(st), model=mine, impl=theirs), has_input=False)
    ctx.extra["tor_state_correspondence_cases"] = len(cases)
    ctx.extra["tor_state_correspondence_disagreements"] = bad


# ------------------------------------------------------------------------------ SturdyRefs that arrive as copies

TUBS3 = ["q5l37rle6pojjnllrwjyryulavpqdlq5", "u5vgfpug7qhkxdtj76tcfh6bmzyo6w5s", "abc"]
STALE_EXTRAS = [                                  # attributes a sender of another version / a stored blob may carry
    {}, {"_key": "STALE"}, {"_key": "SAME"}, {"_hash": 12345}, {"_cached_key": "STALE"}, {"key": "STALE"},
    {"_distinguishing": "STALE", "_tubref": "x"}, {"tubref": "pb://zzz"}, {"_SturdyRef__key": "STALE"}, {"_eq_key": "STALE"},
]
# state that would shadow a method of the class (fixed by 5adbf0d: only the four known attributes are taken)
SHADOW_EXTRAS = [{"_distinguishers": "x"}, {"_distinguishers": "STALE"}, {"getTubRef": 3}, {"getURL": "x", "__hash__": 1},
                 {"__eq__": "x", "__class__": "y"}, {"setCopyableState": 0, "_distinguishers": 0}]


def build_refs(ctx, impl, rng):
    """[(how, tubID, name, SturdyRef)] built locally, round-tripped, and received from attribute dictionaries"""
    from foolscap.referenceable import SturdyRef
    out = []
    names = ["alice", "bob", "a/b@c", "\u00e9"]
    for t in TUBS3:
        for n in names:
            f1 = "pb://%s@tcp:one.example.org:1234/%s" % (t, n)
            f2 = "pb://%s@tcp:two.example.org:99,10.1.2.3:8/%s" % (t, n)
            out.append(("local", t, n, SturdyRef(f1)))
            out.append(("round-tripped", t, n, impl.roundtripped_sturdyref(f2)))
            for k, extra in enumerate(STALE_EXTRAS):
                other_t = TUBS3[(TUBS3.index(t) + 1) % 3]
                other_n = names[(names.index(n) + 1) % len(names)]
                fill = {"STALE": [True, other_t, other_n] if k % 2 else [True, t, other_n], "SAME": [True, t, n]}
                st = {"url": f2 if k % 2 else f1, "tubID": t, "locationHints": ["x:%d" % k], "name": n}
                for a, v in extra.items():
                    st[a] = tuple(fill[v]) if v in fill else v
                if (k + len(n)) % 7 == 3:
                    del st["url"]                     # a sender need not send every attribute
                out.append(("received%s" % (sorted(extra) or ""), t, n, impl.received_sturdyref(st)))
    return out


def oracle_identity_copies(ctx, impl, rng):
    """identity is judged on the tub id and name a reference HAS, however it was built"""
    refs = build_refs(ctx, impl, rng)
    pairs = []
    for i, (ha, ta, na, a) in enumerate(refs):
        if (a.tubID, a.name) != (ta, na):
            ctx.fail("oracle/sturdyref-copy-identity", "a %s SturdyRef has (tubID, name) = %r, its state said %r" % (ha, (a.tubID, a.name), (ta, na)),
                     replay=dict(how=ha, tubID=ta, name=na))
        for j, (hb, tb, nb, b) in enumerate(refs):
            if (i * 7 + j * 3) % 5 and ha == hb == "local":
                continue
            same = (ta, na) == (tb, nb)
            v = impl.identity_verdict(a, b)
            ctx.case(["copy-identity", ha, hb, ta, na, tb, nb], nontrivial=True)
            ok = (v == [True, False, True, True, True]) if same else (isinstance(v, list) and v[0] is False and v[1] is True
                                                                      and v[3] is False and v[4] is False)
            pairs.append((ta, na, tb, nb, v[0] if isinstance(v, list) else None, impl.lt_verdict(a, b)))
            lt, gt = impl.lt_verdict(a, b), impl.lt_verdict(b, a)
            if ok and [lt, same, gt].count(True) != 1:
                ctx.fail("oracle/sturdyref-order", "SturdyRef %s (tubID %s.., name %r) vs %s (tubID %s.., name %r): a < b is %r, a == b is %r, "
                         "b < a is %r -- exactly one must hold" % (ha, ta[:6], na, hb, tb[:6], nb, lt, same, gt),
                         replay=dict(a=dict(how=ha, tubID=ta, name=na), b=dict(how=hb, tubID=tb, name=nb), verdict=[lt, same, gt]))
            if not ok:
                ctx.fail("oracle/sturdyref-copy-identity",
                         "SturdyRef %s (tubID %s.., name %r) vs %s (tubID %s.., name %r): tub id and name are %s, but "
                         "[==, !=, same hash, dict hit, set hit] = %s" % (ha, ta[:6], na, hb, tb[:6], nb,
                                                                          "EQUAL" if same else "DIFFERENT", v),
                         replay=dict(a=dict(how=ha, tubID=ta, name=na), b=dict(how=hb, tubID=tb, name=nb), verdict=v,
                                     python="harness.c20_impl.received_sturdyref(state) / identity_verdict(a, b)"))
    ctx.hist("identity", "pairs incl. received copies", len(pairs))
    # state that shadows a method of the class
    from foolscap.referenceable import SturdyRef
    t, n = TUBS3[0], "alice"
    loc = SturdyRef("pb://%s@h:1/%s" % (t, n))
    for extra in SHADOW_EXTRAS:
        st = {"url": "pb://%s@h:1/%s" % (t, n), "tubID": t, "locationHints": ["h:1"], "name": n}
        st.update({k: (tuple([True, t, "bob"]) if v == "STALE" else v) for k, v in extra.items()})
        r = impl.received_sturdyref(st)
        v = impl.identity_verdict(r, loc)
        ctx.case(["copy-identity-shadow", sorted(extra)], nontrivial=True)
        try:
            usable = (r.getTubRef().getTubID() == t and r.getURL() == st["url"] and r.getTubRef() == loc.getTubRef())
        except Exception as e:  # noqa
            usable = type(e).__name__
        if usable is not True and v == [True, False, True, True, True]:
            v = "getTubRef()/getURL(): %s" % usable
        if v != [True, False, True, True, True]:
            ctx.fail("oracle/sturdyref-copy-shadows-method",
                     "a received SturdyRef whose state carries the attribute %s (tubID and name equal to a local reference's): "
                     "[==, !=, same hash, dict hit, set hit] = %s" % (sorted(extra), v),
                     replay=dict(state={k: repr(x) for k, x in st.items()}, verdict=v))
    return pairs


def correspond_identity(ctx, pairs):
    """the model's sref_eqb on the same (tub id, name) pairs"""
    # replay of FurlProofs.sturdy_lt_incomplete on the real class: a reference without a URL cannot be ordered against a complete one
    from foolscap.referenceable import SturdyRef
    from harness import c20_impl as _impl
    inc = [_impl.lt_verdict(SturdyRef(), SturdyRef("pb://a@h:1/n")), _impl.lt_verdict(SturdyRef("pb://a@h:1/n"), SturdyRef()),
           _impl.lt_verdict(SturdyRef(), SturdyRef())]
    ctx.note("SturdyRef() < SturdyRef(furl), SturdyRef(furl) < SturdyRef(), SturdyRef() < SturdyRef() on the real class: %r "
             "(model sturdy_lt_incomplete: TypeError, TypeError, False); ordering is not part of the property: recorded, not judged" % (inc,))
    ctx.extra["sturdy_lt_incomplete_replay"] = [str(x) for x in inc]
    if inc != ["TypeError", "TypeError", False]:
        ctx.fail("correspondence/sturdyref-lt", "references without a URL: the real class gives %r, the model TypeError, TypeError, False" % (inc,),
                 replay=dict(observed=[str(x) for x in inc]), has_input=False)
    rows = ["(%s%%Z, %s%%Z, %s%%Z, %s%%Z)" % (zs(a), zs(b), zs(c), zs(d)) for a, b, c, d, _, _ in pairs]
    rows = rows[:2000]
    body = ("\nDefinition cases : list (list Z * list Z * list Z * list Z) := " + coq_list(rows) + ".\n"
            "Definition mk (t n : list Z) := {| sr_tub := Some t; sr_hints := []; sr_name := Some n; sr_url := None |}.\n"
            "Definition lt_code (r : res bool) := match r with Ok true => 1%Z | Ok false => 0%Z | Exc _ => (-1)%Z end.\n"
            "Eval vm_compute in map (fun c => let '(a, b, c0, d) := c in (sref_eqb (mk a b) (mk c0 d), lt_code (sref_ltb (mk a b) (mk c0 d)))) cases.\n")
    try:
        (vals,) = ctx.coq_eval("C20_ident", body, requires=REQ)
    except common.CoqEvalError as e:
        ctx.fail("correspondence-broken", "the identity model could not be evaluated: " + tail(str(e), 1200), has_input=False)
        return
    bad = 0
    for (a, b, c, d, got, lt), (mv, mlt) in zip(pairs, vals):
        ctx.traces += 1
        if {True: 1, False: 0}.get(lt, -1) != mlt:
            bad += 1
            if bad <= 2:
                ctx.fail("correspondence/sturdyref-lt", "model sref_ltb code %r, implementation < gives %r for (%r, %r) vs (%r, %r)"
                         % (mlt, lt, a, b, c, d), replay=dict(a=[a, b], b=[c, d]), has_input=False)
        if got is not None and got != mv:
            bad += 1
            if bad <= 2:
                ctx.fail("correspondence/sturdyref-eq", "model sref_eqb = %r, implementation == gives %r for (%r, %r) vs (%r, %r)"
                         % (mv, got, a, b, c, d), replay=dict(a=[a, b], b=[c, d]), has_input=False)
    ctx.extra["identity_correspondence_cases"] = len(vals)


# ------------------------------------------------------------------------------ one Tub, histories of getReference

BAD_HINTSETS = ["future:stuff:7,udp:10.0.0.1:53", "tcp:host:NOTAPORT,tcp:[::1:80", "", "x", "tor:a.b:80,i2p:abc", "tcp:a:123456"]
GOOD_HINTSETS = ["tcp:good.example.org:1234", "good2.example.org:7", "future:x:1,tcp:ok.example.org:80", "tcp:[::1]:9,udp:1.2.3.4:5"]


def gen_history(rng):
    tubs = rng.sample(TUBS3[:2] + ["aaaaaaaabbbbbbbbccccccccdddddddd"], rng.choice([1, 1, 2]))
    evs = []
    for _ in range(rng.randrange(2, 8)):
        k = rng.random()
        if k < 0.7:
            t = rng.choice(tubs)
            usable = rng.random() < 0.45
            hs = rng.choice(GOOD_HINTSETS if usable else BAD_HINTSETS)
            evs.append(["getref", "pb://%s@%s/n%d" % (t, hs, len(evs))])
        else:
            evs.append(["advance", rng.choice([0, 1, 59, 60, 119, 120, 121, 500])])
    return evs


def oracle_tub_histories(ctx, impl, rng):
    """"an untrusted FURL cannot stall the process": on one real Tub (default handlers, recorded endpoints that never
    answer, virtual clock) play getReference calls for FURLs with and without usable hints and let time pass; every
    getReference must be answered once the connect timeout has passed, and a FURL with a usable hint must start a
    connection attempt unless one for that tub is still running."""
    timeout = impl.connection_timeout()
    hists = []
    for i, bad in enumerate(BAD_HINTSETS):               # fixed two-step witnesses first
        t = TUBS3[i % 2]
        hists.append([["getref", "pb://%s@%s/gift" % (t, bad)], ["getref", "pb://%s@tcp:good.example.org:1234/real" % t],
                      ["advance", timeout + 1]])
    hists.append([["getref", "pb://%s@/a" % TUBS3[0]], ["getref", "pb://%s@/b" % TUBS3[0]], ["getref", "pb://%s@x:1/c" % TUBS3[0]],
                  ["advance", 60], ["getref", "pb://%s@/d" % TUBS3[0]], ["getref", "pb://%s@y:2/e" % TUBS3[0]], ["advance", 61]])
    hists += [gen_history(rng) for _ in range(ctx.n(40, 600))]
    cases = []
    for evs in hists:
        evs = evs + [["advance", timeout + 1]]
        usable = []
        for e in evs:
            if e[0] == "getref":
                d = impl.decode(e[1])
                hs = d[2] if d[0] == "ok" else []
                usable.append(any(impl.get_endpoint(h, {"tcp": "tcp"})[0] == "ok" for h in hs))
            else:
                usable.append(None)
        obs = impl.tub_history(evs)
        ctx.case(["tub-history", evs], nontrivial=True)
        ctx.hist("tub history length", len(evs))
        live_until = {}                                   # tub id -> time its running attempt ends
        now = 0
        issued = {}
        problem = None
        for i, (e, o) in enumerate(zip(evs, obs)):
            if e[0] == "getref":
                t = impl.decode(e[1])[1]
                issued[i] = now
                running = live_until.get(t, -1) > now
                if usable[i] and not running:
                    if not o["connects"]:
                        problem = "event %d: getReference(%r) has a usable hint and no attempt to that tub is running, but no connection attempt started" % (i, e[1])
                    live_until[t] = now + timeout
                if not usable[i] and not running and i not in o["fired"]:
                    problem = problem or "event %d: getReference(%r) has no usable hint but is still unanswered" % (i, e[1])
            else:
                now += e[1]
            for j, at in issued.items():
                if now - at >= timeout + 1 and j not in o["fired"]:
                    problem = problem or ("getReference(%r) (event %d) is still unanswered %d s later (connect timeout %d s)"
                                          % (evs[j][1], j, now - at, timeout))
            if problem:
                break
        if problem:
            ctx.fail("oracle/getreference-stalls", "history on one Tub %r: %s" % (evs, problem),
                     replay=dict(events=evs, observations=obs, python="harness.c20_impl.tub_history(events)"))
        cases.append((evs, usable, obs))
    ctx.extra["tub_histories"] = len(cases)
    return cases


def correspond_tub(ctx, cases):
    tubs = {}
    rows = []
    from harness import c20_impl as impl
    for evs, usable, obs in cases:
        items = []
        for e, u in zip(evs, usable):
            if e[0] == "getref":
                t = impl.decode(e[1])[1]
                items.append("GetRef %d%%Z %s" % (tubs.setdefault(t, len(tubs) + 1), "true" if u else "false"))
            else:
                items.append("Advance %d%%Z" % e[1])
        rows.append(coq_list(items))
    body = ("\nDefinition cases : list (list cev) := " + coq_list(rows) + ".\n"
            "Eval vm_compute in map (ctrace connector_stored_before_connect CONNECTION_TIMEOUT cinit) cases.\n")
    try:
        (vals,) = ctx.coq_eval("C20_tub", body, requires=REQ + ["Verif.lib.Connector"])
    except common.CoqEvalError as e:
        ctx.fail("correspondence-broken", "the connector model could not be evaluated: " + tail(str(e), 1200), has_input=False)
        return
    bad = 0
    for (evs, usable, obs), tr in zip(cases, vals):
        ctx.traces += 1
        num = {}
        for i, e in enumerate(evs):
            if e[0] == "getref":
                num[i] = len(num)
        started = set()
        for i, (e, o, m) in enumerate(zip(evs, obs, tr)):
            if e[0] == "getref" and o["connects"]:
                started.add(num[i])
            mine = (sorted(m[0]), sorted(m[1]))
            theirs = (sorted(num[j] for j in o["fired"]), sorted(started))
            if mine != theirs:
                bad += 1
                if bad <= 2:
                    ctx.fail("correspondence/tub-connectors", "after event %d of %r the model has (answered, started) = %r, the Tub %r"
                             % (i, evs, mine, theirs), replay=dict(events=evs, model=repr(tr), impl=obs), has_input=False)
                break
    ctx.extra["tub_correspondence_disagreements"] = bad


# ------------------------------------------------------------------------------ CPU time

def run_probe(payload, limit):
    """child process, killed after `limit` seconds -> (points, last started size or None, timed_out)"""
    cmd = [common.PY, os.path.join(common.VERIF, "harness", "c20_impl.py")]
    try:
        r = subprocess.run(cmd, input=json.dumps(payload), env=common.impl_env(), capture_output=True, text=True, timeout=limit)
        out, timed_out = r.stdout, False
        err = r.stderr if r.returncode != 0 else ""
        if r.returncode == -24:                      # SIGXCPU: the probe's own CPU-time limit (see c20_impl.probe)
            timed_out, err = True, ""
    except subprocess.TimeoutExpired as e:
        out = e.stdout or ""
        if isinstance(out, bytes):
            out = out.decode("utf-8", "replace")
        timed_out, err = True, ""
    pts, started = [], None
    for line in out.splitlines():
        if line.startswith("@@START@@"):
            started = json.loads(line[9:])
        elif line.startswith("@@POINT@@"):
            pts.append(json.loads(line[9:]))
            started = None
    return pts, started, timed_out, err


def timing(ctx, impl):
    fams = impl.FAMILIES
    nmax = ctx.n(51200, 204800)
    limit = ctx.n(120, 300)          # wall-clock backstop only; a probe stops by itself once one call exceeds `cap`

    def one(name):
        kind = fams[name][0]
        n0 = 500 if kind == "furl" else 25
        return name, run_probe(dict(family=name, n0=n0, nmax=nmax, cap=0.3), limit)
    with ThreadPoolExecutor(max_workers=8) as ex:
        results = list(ex.map(one, sorted(fams)))
    table = {}
    for name, (pts, started, timed_out, err) in results:
        kind, build = fams[name]
        if err:
            ctx.fail("harness-exception", "timing probe %s failed: %s" % (name, tail(err, 1500)), has_input=False)
            continue
        sig = "oracle/superlinear-hint" if kind == "hint" else "oracle/furl-quadratic"
        what_fn = "convert_legacy_hint + hint_to_endpoint" if kind == "hint" else "decode_furl"
        if timed_out:
            n = started["n"] if started else None
            ctx.fail(sig, "%s did not finish within %d s on family %s at n=%s (sizes that finished: %s)"
                     % (what_fn, limit, name, n, [(p["n"], round(p["t"], 4)) for p in pts]),
                     replay=dict(family=name, n=n, points=pts, python="see harness/c20_impl.py FAMILIES[%r]" % name))
            table[name] = dict(timeout_at=n)
            continue
        if len(pts) == 1 and pts[0]["t"] > 0.3:
            # the smallest size already exceeds the per-call cap: nothing to compare it with, and no need to
            ctx.fail(sig, "%s takes %.2f s of CPU on a %d-character input of family %s"
                     % (what_fn, pts[0]["t"], pts[0]["length"], name),
                     replay=dict(family=name, points=pts, input_python="harness.c20_impl.FAMILIES[%r][1](%d)" % (name, pts[0]["n"])))
            table[name] = dict(n_small=pts[0]["length"], t_small=round(pts[0]["t"], 4))
            continue
        if len(pts) < 2:
            ctx.fail("harness-exception", "timing probe %s produced %d points" % (name, len(pts)), has_input=False)
            continue
        a, b = pts[0], pts[-1]
        growth = (b["t"] / max(a["t"], 1e-7)) / (b["length"] / float(a["length"]))
        table[name] = dict(n_small=a["length"], t_small=round(a["t"], 7), n_big=b["length"], t_big=round(b["t"], 7),
                           growth_over_linear=round(growth, 2))
        ctx.case(["time", name], nontrivial=True)
        # linear cost: growth <= ~1 (fixed overhead makes it smaller); quadratic: ~ n_big/n_small
        if growth >= 8.0 and b["t"] >= 0.02:
            s_small = "%d chars in %.5f s" % (a["length"], a["t"])
            ctx.fail(sig, "%s is super-linear on family %s: %s, %d chars in %.3f s (%.0fx the time for %.0fx the length)"
                     % (what_fn, name, s_small, b["length"], b["t"], b["t"] / max(a["t"], 1e-7), b["length"] / float(a["length"])),
                     replay=dict(family=name, points=pts, input_python="harness.c20_impl.FAMILIES[%r][1](%d)" % (name, b["n"])))
    ctx.extra["cpu_time"] = table


def corpus(ctx, impl):
    ws = []
    for path in sorted(glob.glob(os.path.join(common.VERIF, "corpus", "C20", "*.json"))):
        w = json.load(open(path))
        w["name"] = os.path.basename(path)
        ws.append(w)
    # all witnesses in one child process (one interpreter start-up), each under its own CPU-time limit; when the kernel
    # ends the child on a witness (SIGXCPU) that witness has failed and the remaining ones go to a new child.
    # Judged on CPU time; the wall-clock limit is only a backstop for a loaded machine.
    verdict = {}                        # name -> ("ok", cpu seconds) | ("timeout", None) | ("skipped", why)
    todo = list(ws)
    while todo:
        batch = [dict(name=w["name"], parts=w["parts"], kind=w["kind"], cpu_limit=w.get("limit_s", 2.0)) for w in todo]
        pts, started, timed_out, err = run_probe(dict(batch=batch), 240.0 + 20.0 * len(batch))
        for p in pts:
            verdict[p["name"]] = ("ok", p["t"])
        if timed_out and started is not None:
            verdict[started["name"]] = ("timeout", None)
        elif err or timed_out:
            first = next(w for w in todo if w["name"] not in verdict)
            verdict[first["name"]] = ("skipped", tail(err, 600) if err else "the child process did not reach the call within the wall-clock backstop")
        left = [w for w in todo if w["name"] not in verdict]
        if len(left) == len(todo):
            break
        todo = left
    for w in ws:
        name, s = w["name"], "".join(p * k for p, k in w["parts"])
        kind, t = verdict.get(name, ("skipped", "not run"))
        ctx.case(["corpus", name], nontrivial=True)
        if kind == "skipped":
            if "did not reach" in str(t) or t == "not run":
                ctx.note("corpus probe %s: %s (machine load); skipped" % (name, t))
            else:
                ctx.fail("harness-exception", "corpus probe %s failed: %s" % (name, t), has_input=False)
            continue
        if kind == "timeout" or t > w.get("limit_s", 2.0):
            ctx.fail("oracle/superlinear-hint" if w["kind"] == "hint" else "oracle/furl-quadratic",
                     "regression witness %s: %r... (%d chars) took %s" % (name, s[:40], len(s),
                                                                          "more than %.1f s of CPU" % w.get("limit_s", 2.0) if kind == "timeout" else "%.2f s" % t),
                     replay=dict(witness=name, parts=w["parts"]))
            continue           # never run it in-process
        if w["kind"] == "hint":
            hs = w.get("handlers", {"tcp": "tcp"})
            r = impl.get_endpoint(s, hs)
            got = r[1] if r[0] == "exc" else "endpoint"
            if got != w["expect"]:
                ctx.fail(w.get("signature") or ("oracle/hint-other-exception" if r[0] == "exc" else "oracle/hint-bad-endpoint"),
                         "regression witness %s (%s): get_endpoint(%r... %d chars) with handlers %r gave %s, expected %s"
                         % (name, w.get("comment", ""), s[:40], len(s), hs, got, w["expect"]),
                         replay=dict(witness=name, parts=w["parts"], got=got))


def model_steps(ctx, impl):
    """the model's step counts on the adversarial hint families stay under the proved bound (evidence only)"""
    rows = []
    names = [n for n in sorted(impl.FAMILIES) if impl.FAMILIES[n][0] == "hint"]
    for n in names:
        for k in (40, 80):
            rows.append(zs(impl.FAMILIES[n][1](k)) + "%Z")
    body = ("\nDefinition cases : list (list Z) := " + coq_list(rows) + ".\n"
            "Eval vm_compute in map (fun s => map (fun p => re_steps p MSearch s) [OLD_STYLE_HINT_RE; NEW_STYLE_HINT_RE; TOR_HINT_RE; I2P_HINT_RE]) cases.\n")
    try:
        (vals,) = ctx.coq_eval("C20_steps", body, requires=REQ, timeout=60)
    except common.CoqEvalError as e:
        ctx.note("model step counts not evaluated: " + tail(str(e), 300))
        return
    tab = {}
    for i, n in enumerate(names):
        tab[n] = dict(n40=vals[2 * i], n80=vals[2 * i + 1])
    ctx.extra["model_steps_old_new_tor_i2p"] = tab


# ------------------------------------------------------------------------------ entry point

def _phase(ctx, label, _state={}):
    """CPU seconds (this process + finished children) spent since the previous call, kept in the evidence"""
    t = os.times()
    now = t.user + t.system + t.children_user + t.children_system
    if "last" in _state:
        ctx.extra.setdefault("phase_cpu_s", {})[label] = round(now - _state["last"], 1)
    _state["last"] = now


def run(ctx):
    _phase(ctx, "start")
    ctx.rule = ("regex cases = (pattern, string): every string of length <= L over a 7..10-symbol alphabet behind the pattern's "
                "literal prefix, grammar-generated hints/FURLs and 1-2 character mutations of them (special characters "
                ": . [ ] %% - , / @ newline, non-ASCII digits, Kelvin sign, NUL); function cases = FURL strings through "
                "decode_furl/encode_furl/SturdyRef and (hint, handler set) through convert_legacy_hint/get_endpoint with the "
                "real tcp/tor/i2p handlers; (hint, Tor handler constructor, stage at which its Tor sticks, pending / failing / later) with 14 kinds of unusable hint as fixed witnesses; well-formed (tub id, hints, name) triples over the full alphabet of each field ('@' ':' '%%' "
                "newline unicode in hints, '/' '@' ',' in names, ignored tub id extension) through encode_furl then decode_furl / "
                "SturdyRef / TubRef, str and bytes; history cases = decode a FURL, mutate the hint list of that result (6 kinds, str and bytes), "
                "decode an equal string again; non-trivial = decoded successfully / contains a colon; CPU time on %d adversarial "
                "families with doubling sizes in a killed-on-timeout child process" % len(__import__("harness.c20_impl", fromlist=["x"]).FAMILIES))
    ctx.assumptions = [
        "sre's work is within a constant factor of the model matcher's step count (checked only by CPU-time growth on adversarial families)",
        "\\d, str.lower and int() digit values are taken from the running interpreter's unicodedata (regenerated every run)",
        "tor.is_non_public_numeric_address (ipaddress module) is an input of the model; its own totality is tested, not proved",
        "the handlers are exercised up to the endpoint constructor (i2p: constructor arguments recorded); the Tor handlers additionally with a Tor that is ready / "
        "pending for ever / failing / succeeding or failing later at each stage of each public constructor's _connect (txtorcon.launch_tor, build_tor_connection, "
        "TorConfig.from_protocol and allocate_tcp_port replaced by gates; no Tor process, no sockets)",
        "tor._Common._maybe_connect / observer.OneShotObserverList are hand-modelled as the three Tor states of lib/TorState.v (ready / starting / fails with e), "
        "tied by ordered shape facts and by the comparison with real handlers in those states; add_context's status update is dropped and assumed not to raise",
        "six.ensure_str on bytes = strict UTF-8 decoding is hand-modelled (Furl.utf8_dec) and compared with the real decode_furl on bytes; non-str/bytes arguments (TypeError) are outside the quantifier",
        "a third-party plugin is abstracted to the outcome of its hint_to_endpoint per hint (endpoint / exception class); a Deferred it returns is taken at its final result",
        "TubConnector.connectToAll / _connectionFailed / checkForFailure / failed and the timer path connectionTimedOut / shutdown / cancelRemainingConnections are hand-modelled (lib/ConnectAll.v: no peer ever completes a connection, so pendingNegotiations stays empty; late phase = waiting hints resolve, pending connects fail, the timer fires, in any order), tied by ordered shape facts and compared with real TubConnectors event by event on every run; _connectionFailed's own logging / str(reason.value) is assumed not to raise",
        "Deferred.cancel() is taken to fail the Deferred at once with the error its canceller chooses (CancelledError without one): the cancellation error per hint is a parameter (cx) of the timer theorems; the set order of pendingConnections is modelled as a list order (statuses of different hints do not depend on it)",
        "a Tor handler's own status updates AFTER its hint was cancelled (its _connect goes on when the Tor comes up later and overwrites 'abandoned' with e.g. 'waiting for Tor bootstrap' in the ConnectionInfo) are outside the model and not scheduled in the correspondence",
        "get_endpoint's status / logging effects (connectionInfo._describe_connection_handler, _set_connection_status, describe_handler, log.err) are dropped by the translation and assumed not to raise",
    ]
    ok, log = ctx.coq_build(["props/C20.vo"])
    from harness import c20_impl as impl
    before = len(ctx.failures)
    rng = ctx.rng

    _phase(ctx, "coq build")
    # 0. regression witnesses (each one first in a child process with a time limit)
    corpus(ctx, impl)
    _phase(ctx, "corpus witnesses")

    # 1. inputs
    hints = []
    for _ in range(ctx.n(500, 20000)):
        h = gen_hint(rng)
        if rng.random() < 0.5:
            h = mutate(rng, h)
        hints.append(h)
    hints += ["a:" + "1" * 5, "a:" + "1" * 6, "a:080", "tcp:a:1\n", "a:1\n", "tcp:[::1]:1", "tcp:[[::1]]:1", "i2p:a:0", "i2p:a",
              "tor:10.0.0.1:80", "tor:8.8.8.8:80", "10.0.0.1:80", "tor:\u0661.\u0662.\u0663.\u0664:80", "a:\u0663",
              "tcp:[1:2%e.0]:5", "tcp:[1.2.3.4]:5", "tcp:[1:1.2.3.4]:5", "tcp:[12.3.4.5]:6", "tcp:[123.4.5.6]:7", "tcp:[1234.5.6.7]:8"]
    hint_cases = [(h, HANDLER_SETS[i % len(HANDLER_SETS)] if i % 3 else HANDLER_SETS[1]) for i, h in enumerate(hints)]
    # fixed witnesses: hosts that look like a dotted quad but are not an IPv4 address, through every handler set with tor
    for h in ("tor:256.1.1.1:80", "tor:010.0.0.1:80", "tor:\u0661.\u0662.\u0663.\u0664:80", "tor:999.999.999.999:1", "1.1.256.127:2706",
              "i2p:a:123456", "tor:a:123456", "tcp:a:123456", "a:123456", "i2p:a:99999", "i2p:a:", "i2p:a:0000000",
              "tor:1.2.3.4:5", "tor:127.0.0.1:5", "tor:[::1]:5", "tor:1.2.3:4", "tor:1.2.3.4.5:6", "tor:0.0.0.0:0"):
        for hs in (HANDLER_SETS[1], HANDLER_SETS[2], HANDLER_SETS[3]):
            hint_cases.append((h, hs))
    hint_cases = [(h, HANDLER_SETS[1]) for h in numeric_witnesses()] + hint_cases      # fixed witnesses first: simplest report
    for h in ("i2p:a:80", "i2p:a", "i2p:a:0", "i2p:abc.i2p:99999", "i2p:a:00000", "i2p:a:", "i2p:a:123456", "x:anything", "x:", "a:b", ":x",
              "tor:a:1", "tcp:h:1", "h:1", "tcp:h:x", "i2p", "nocolon"):
        for hs in EXTRA_HANDLER_SETS:
            hint_cases.append((h, hs))
    for i, h in enumerate(hints[:ctx.n(90, 3000)]):
        hint_cases.append((h, EXTRA_HANDLER_SETS[i % len(EXTRA_HANDLER_SETS)]))
    furls = []
    for _ in range(ctx.n(500, 20000)):
        f = gen_furl(rng)
        if rng.random() < 0.4:
            f = mutate(rng, f)
        furls.append(f)
    furls += ["pb://a@/n", "pb://a@,/n", "pb://a@h,/n", "pb://a@h/", "pb://@h/n", "pb://a@h/n\n", "pb://a@h/n\n\n", "pb://a/b@c/d",
              "xxpb://a@h/n", "pb://pb://a@h/n", "pb://\u212a@h/n", "pb://\u0130@h/n", "pb://A2@h/n", "pb://a1@h/n", "pb://a@h/n/m",
              "pb://" + "a" * 40 + "@h/n", "pb://" + "a" * 32 + "!!@h/n", "pb://a@h@i/n", "pb://a@h/n@m", "", "pb://", "pb://a@h"]

    # fixed witnesses of the "foreign character in the tub id" family first, then the systematic stream
    furls += ["pb://" + "a" * 31 + "\n@host:1/name", "pb://abc\n@h:1/n", "pb://" + "a" * 32 + "\n@h:1/n", "pb://a\r@h/n", "pb://\n@h/n",
              "pb://" + "a" * 31 + "\x85@h/n", "pb://" + "a" * 31 + " @h/n", "pb://" + "a" * 31 + "\uff12@h/n", "pb://ab\x00@h/n"]
    tub_stream = malformed_tubid_furls(ctx, rng)
    ctx.extra["malformed_tubid_furls"] = len(tub_stream)

    # well-formed triples over the full alphabet of each field; their encodings also go through every FURL check below
    triples = []
    for t in ("q5l37rle6pojjnllrwjyryulavpqdlq5", "abc", "q5l37rle6pojjnllrwjyryulavpqdlq5,ext"):
        for h in ([], ["127.0.0.1:9900"], ["ssh:user@gateway.example:22"], ["tcp:a.example:1", "proxy:me@corp.example:3128", "b.example:2"],
                  ["x:k=v@w", "y:@", "@:1"], ["@"], ["a\nb"], ["pb:a@b"]):
            for n in ("name", "a/b/c", "na@me", "mail@host/x", "\u00e9t\u00e9", "pb://x@y/z", ","):
                triples.append((t, h, n))
    triples += [gen_triple(rng) for _ in range(ctx.n(600, 20000))]       # the plain ones above come first: simplest witness
    enc = []
    for i, tr in enumerate(triples):
        enc.append(oracle_encode_decode(ctx, impl, tr, as_bytes=False))
        if i % 5 == 0:
            oracle_encode_decode(ctx, impl, tr, as_bytes=True)
    seen_f = set(furls)
    furls += [f for f in enc[:ctx.n(400, 20000)] if not (f in seen_f or seen_f.add(f))]

    _phase(ctx, "generation + encode/decode oracle")
    # 2. direct oracle on the real code
    n_acc = 0
    for k, f in enumerate(tub_stream):
        d = oracle_furl(ctx, impl, f)
        n_acc += d is not None
        if k % ctx.n(12, 3) == 0:
            furls.append(f)                          # a share of the stream also goes through the model correspondence
    ctx.hist("malformed tub id stream", "accepted", n_acc)
    ctx.hist("malformed tub id stream", "rejected", len(tub_stream) - n_acc)
    decoded = [oracle_furl(ctx, impl, s) for s in furls]
    for s in furls[:60]:
        try:
            b = s.encode("utf-8")
        except UnicodeEncodeError:
            continue
        oracle_furl(ctx, impl, b)
    for b in (b"\xff", b"pb://\xffa@h/n", b"pb://a@h/\xc3"):
        oracle_furl(ctx, impl, b)
    pool = [s for s, d in zip(furls, decoded) if d is not None]
    ident = pool[:ctx.n(60, 300)]
    # add re-encodings and variants that differ only in hints / only in name / only in tub id
    for s, d in list(zip(furls, decoded))[:400]:
        if d is not None and len(ident) < ctx.n(110, 500):
            t, h, n = d
            ident += [impl.encode(t, [], n), impl.encode(t, ["x:1"], n), impl.encode(t, h, n + "z"), impl.encode((t + "a")[:32], h, n)]
    # fixed witnesses and the systematic "differs only by a normalisation" family (letter case, Kelvin sign, whitespace, NFC/NFD)
    variants = list(IDENTITY_WITNESSES)
    for s, d in list(zip(furls, decoded))[:400]:
        if d is not None and len(variants) < ctx.n(90, 400):
            variants += spelling_variants(impl, *d)[:ctx.n(6, 12)]
    oracle_identity(ctx, impl, variants + ident)
    for h, hs in hint_cases:
        oracle_hint(ctx, impl, h, hs)
    oracle_tor_states(ctx, impl, hints[:ctx.n(250, 20000)])
    ctx.sample(dict(furl=furls[0], decoded=repr(impl.decode(furls[0]))))
    ctx.sample(dict(hint=hints[0], handlers=hint_cases[0][1], result=repr(impl.get_endpoint(*hint_cases[0]))))
    ctx.sample(dict(hint=hints[1], handlers=hint_cases[1][1], result=repr(impl.get_endpoint(*hint_cases[1]))))

    _phase(ctx, "direct oracle")
    # 3. correspondence with the Coq model
    model_ok = ok
    if not ok:
        model_ok, _ = ctx.coq_build(["lib/Furl.vo"])
    if model_ok:
        L = ctx.n(3, 4)
        alpha_h = ["a", "1", ":", ".", "[", "]", "%"] + ctx.n([], ["-", "\n", "\u0663"])
        alpha_f = ["a", "@", "/", ",", "\n", "p", ":"] + ctx.n([], ["b", "\u212a", "7"])
        rx = []
        rx += [(0, s) for s in exhaustive("pb://", alpha_f, L)] + [(0, s) for s in exhaustive("", alpha_f, L - 1)]
        rx += [(1, s) for s in exhaustive("", alpha_h, L)] + [(1, s) for s in exhaustive("1.1.1.", alpha_h, L - 1)]
        rx += [(2, s) for s in exhaustive("tcp:", alpha_h, L)] + [(2, s) for s in exhaustive("tcp:[a", alpha_h, L - 1)]
        rx += [(3, s) for s in exhaustive("", alpha_h, L)] + [(3, s) for s in exhaustive("x:a", alpha_h, L - 1)]
        rx += [(4, s) for s in exhaustive("i2p:", alpha_h, L)] + [(4, s) for s in exhaustive("i2p:a", alpha_h, L - 1)]
        for h in hints:
            for i in (1, 2, 3, 4):
                rx.append((i, h))
            c = impl.convert_legacy(h)
            if c[0] == "ok" and c[1] != h:
                rx.append((2, c[1]))
        for f in furls:
            rx.append((0, f))
        for name in sorted(impl.FAMILIES):
            kind, build = impl.FAMILIES[name]
            for k in (7, 23):
                s = build(k)
                rx += [(0, s)] if kind == "furl" else [(i, s) for i in (1, 2, 3, 4)]
        seen = set()
        rx = [c for c in rx if not (c in seen or seen.add(c))]
        correspond_regex(ctx, impl, rx)
        correspond_functions(ctx, impl, furls, hint_cases)
        correspond_bytes(ctx, impl, furls, rng)
        ok_t = True
        if not ok:
            ok_t, _ = ctx.coq_build(["lib/TorState.vo"])
        if ok_t:
            correspond_tor_states(ctx, impl, hints)
        if ok:
            model_steps(ctx, impl)

    _phase(ctx, "regex / function / bytes correspondence")
    # 3a. identity of references that arrive as copies; getReference histories on one real Tub
    id_pairs = oracle_identity_copies(ctx, impl, rng)
    tub_cases = oracle_tub_histories(ctx, impl, rng)
    oracle_containment(ctx, impl)
    oracle_tor_tub(ctx, impl)
    ok_ca = model_ok
    if model_ok and not ok:
        ok_ca, _ = ctx.coq_build(["lib/ConnectAll.vo"])
    correspond_connect_all(ctx, impl, rng, ok_ca)
    correspond_connect_late(ctx, impl, random.Random(rng.getrandbits(64)), ok_ca)
    if model_ok:
        correspond_identity(ctx, id_pairs)
        ok_c = True
        if not ok:
            ok_c, _ = ctx.coq_build(["lib/Connector.vo"])
        if ok_c:
            correspond_tub(ctx, tub_cases)

    _phase(ctx, "identity copies / tub histories / connectToAll")
    # 3b. history independence (last of the in-process checks: on a defective tree it leaves altered results behind)
    hist_pool = [s for s, d in zip(furls, decoded) if d is not None and len(d[1]) >= 1][:ctx.n(120, 2000)]
    hist_pool += [s for s, d in zip(furls, decoded) if d is not None and len(d[1]) == 0][:ctx.n(12, 100)]
    hist_pool += [s for s, d in zip(furls, decoded) if d is None][:ctx.n(12, 100)]
    hist_pool += ["pb://q5l37rle6pojjnllrwjyryulavpqdlq5@tcp:one.example.com:9900,tor:abcdefghij234567.onion:80,10.0.0.7:9901/swissnumber/with/slashes"]
    oracle_history(ctx, impl, hist_pool)

    _phase(ctx, "history independence")
    # 4. CPU time growth (child processes)
    timing(ctx, impl)
    _phase(ctx, "cpu-time families")

    if not ok:
        # reported even when the oracle also found something: a listed known finding must not mask a broken proof
        ctx.fail("proof-broken", "the Coq development for C20 no longer builds against the regenerated gen/FurlGen.v "
                 "(theorem closure props/C20.vo):\n" + tail(log), replay=dict(log=tail(log, 6000)), has_input=False)
