"""Shared machinery for every property check.

A property module `harness/cNN.py` exposes `run(ctx)`.  It uses `ctx` to
  * regenerate the translated Coq files and build the property's proof closure
    (`ctx.coq_build`),
  * evaluate the model inside Coq on generated cases (`ctx.coq_eval`),
  * record what was explored (`ctx.case`, `ctx.sample`, `ctx.hist`),
  * report failures (`ctx.fail`) -- the decision between KNOWN-FINDING and
    VIOLATION is taken here, from /verif/known_findings.json, never by the module.
"""
import fcntl, hashlib, json, os, random, re, subprocess, sys, time

VERIF = os.path.dirname(os.path.dirname(os.path.abspath(__file__)))
REPO = os.environ.get("VERIF_REPO", "/repo")
SRC = os.path.join(REPO, "src", "foolscap")
COQ = os.path.join(VERIF, "coq")
BUILD = os.path.join(VERIF, "_build")
PY = "/venv/bin/python"

FORBIDDEN = re.compile(
    r"\b(Admitted|admit|Axiom|Axioms|Parameter|Parameters|Conjecture|Conjectures|"
    r"Hypothesis|Hypotheses|Variable|Variables|Abort)\b|Unset\s+Guard|Unset\s+Positivity|"
    r"Unset\s+Universe\s+Checking|bypass_check|type-in-type|impredicative-set|Admit\s+Obligations|give_up")

STD_AXIOMS_OK = {
    # axioms declared by the standard library which a file may legitimately depend on;
    # every one actually seen is copied into the evidence file's trusted_base.
    "functional_extensionality_dep", "FunctionalExtensionality.functional_extensionality_dep",
    "proof_irrelevance", "ProofIrrelevance.proof_irrelevance",
    "Classical_Prop.classic", "classic", "Eqdep.Eq_rect_eq.eq_rect_eq", "eq_rect_eq", "JMeq_eq",
    "JMeq.JMeq_eq", "propositional_extensionality", "PropExtensionality.propositional_extensionality",
}


def impl_env():
    env = dict(os.environ)
    env["PYTHONPATH"] = os.path.join(REPO, "src") + os.pathsep + VERIF
    env["PYTHONHASHSEED"] = "0"
    env["WARNER_FOOLSCAP_VERIF"] = "1"
    return env


class CoqValueParser:
    """Parses what `Eval vm_compute in e.` prints for e built from lists, pairs,
    numbers, booleans, strings and applied constructors into Python values:
    list -> list, pair/tuple -> tuple, number -> int, true/false -> bool,
    "..." -> str, `C a b` -> ("C", a, b), `C` -> "C"."""
    tok = re.compile(r'\s*(\[|\]|\(|\)|;|,|"(?:[^"]|"")*"|-?\d+|[A-Za-z_][A-Za-z_0-9\'.]*|%[a-zA-Z_]+|:=|:|=)')

    def __init__(self, text):
        self.toks = []
        pos = 0
        text = text.strip()
        while pos < len(text):
            m = self.tok.match(text, pos)
            if not m:
                raise ValueError("cannot tokenise Coq output at %r" % text[pos:pos + 40])
            t = m.group(1)
            pos = m.end()
            if t.startswith("%"):
                continue
            self.toks.append(t)
        self.i = 0

    def peek(self):
        return self.toks[self.i] if self.i < len(self.toks) else None

    def next(self):
        t = self.toks[self.i]
        self.i += 1
        return t

    def atom(self):
        t = self.next()
        if t == "[":
            out = []
            if self.peek() == "]":
                self.next()
                return out
            while True:
                out.append(self.term())
                t = self.next()
                if t == "]":
                    return out
                assert t == ";", t
        if t == "(":
            items = [self.term()]
            while self.peek() == ",":
                self.next()
                items.append(self.term())
            assert self.next() == ")"
            return items[0] if len(items) == 1 else tuple(items)
        if t.startswith('"'):
            return t[1:-1].replace('""', '"')
        if re.fullmatch(r"-?\d+", t):
            return int(t)
        if t == "true":
            return True
        if t == "false":
            return False
        return ("@id", t)

    def term(self):
        head = self.atom()
        if isinstance(head, tuple) and len(head) == 2 and head[0] == "@id":
            args = []
            while self.peek() not in (None, "]", ")", ";", ",", ":", "="):
                args.append(self.atom())
            args = [a[1] if isinstance(a, tuple) and len(a) == 2 and a[0] == "@id" else a for a in args]
            return (head[1],) + tuple(args) if args else head[1]
        return head


def parse_coq_evals(out):
    """Split coqc stdout into the values printed by successive `Eval ... in`."""
    vals = []
    # each result starts with "     = " and ends with "     : type"
    chunks = re.split(r"^\s{5}= ", out, flags=re.M)[1:]
    for ch in chunks:
        body = re.split(r"^\s{5}: ", ch, flags=re.M)[0]
        p = CoqValueParser(body)
        vals.append(p.term())
    return vals


def coq_str(s):
    return '"' + s.replace('"', '""') + '"'


def coq_list(xs, f=str):
    return "[" + "; ".join(f(x) for x in xs) + "]"


def coq_Z(n):
    return "(%d)%%Z" % n if n < 0 else "%d%%Z" % n


def coq_N(n):
    assert n >= 0
    return "%d%%N" % n


def coq_bytes(b):
    """bytes -> list N literal"""
    return "[" + ";".join(str(x) for x in b) + "]%N"


def coq_bool(b):
    return "true" if b else "false"


def coq_opt(x, f=str):
    return "None" if x is None else "(Some %s)" % f(x)


class Ctx:
    def __init__(self, pid, tier, seed, replay=None):
        self.pid = pid
        self.tier = tier
        self.seed = seed
        self.replay = replay
        self.rng = random.Random(seed * 1000003 + int(pid[1:]))
        self.t0 = time.time()
        self.evaluations = 0
        self.distinct = set()
        self.nontrivial = set()
        self.samples = []
        self.hists = {}
        self.failures = []          # dicts: sig, what, replay, has_input
        self.notes = []
        self.obligations = 0
        self.discharged = 0
        self.axioms = set()
        self.checker_cmds = []
        self.traces = 0
        self.rule = ""
        self.assumptions = []
        self.extra = {}
        self.build_ok = None
        os.makedirs(BUILD, exist_ok=True)
        os.makedirs(os.path.join(VERIF, "evidence"), exist_ok=True)
        os.makedirs(os.path.join(VERIF, "replays"), exist_ok=True)

    # ---- size of a run -------------------------------------------------
    def n(self, quick, thorough):
        return thorough if self.tier == "thorough" else quick

    # ---- recording -----------------------------------------------------
    def case(self, canon, nontrivial=True):
        """count one evaluated case; `canon` is any json-able canonical form"""
        self.evaluations += 1
        h = hashlib.sha1(json.dumps(canon, sort_keys=True, default=repr).encode()).digest()[:10]
        self.distinct.add(h)
        if nontrivial:
            self.nontrivial.add(h)

    def sample(self, obj, cap=6):
        if len(self.samples) < cap:
            self.samples.append(obj)

    def hist(self, name, key, k=1):
        d = self.hists.setdefault(name, {})
        d[str(key)] = d.get(str(key), 0) + k

    def note(self, s):
        self.notes.append(s)
        print("note:", s)

    def fail(self, sig, what, replay=None, has_input=True):
        """record a failing input (has_input) or a broken proof/correspondence"""
        for f in self.failures:
            if f["sig"] == sig:
                f["count"] += 1
                return
        self.failures.append(dict(sig=sig, what=what, replay=replay, has_input=has_input, count=1))

    # ---- Coq -----------------------------------------------------------
    def translate(self):
        """regenerate coq/gen/*.v from /repo's current source (write-if-changed)."""
        r = subprocess.run([PY, os.path.join(VERIF, "translate", "gen.py"), "--only", self.pid],
                           env=impl_env(), capture_output=True, text=True, timeout=300)
        return r.returncode == 0, (r.stdout + r.stderr)

    def coq_build(self, targets, timeout=900):
        """translate + make the given .vo targets (paths relative to coq/).
        Returns (ok, log).  On success the Print Assumptions output of the
        property files is parsed and the lemma count recorded."""
        ok, log = self._coq_build(targets, timeout)
        if any(t.startswith("props/") for t in targets):
            # remembered for finish(): a property closure that does not build is reported by the framework itself
            # unless the module reports it (or a NEW failing input); a known finding never hides it
            self.props_failed = None if ok else log
        return ok, log

    def _coq_build(self, targets, timeout=900):
        t0 = time.time()
        with open(os.path.join(BUILD, ".lock"), "w") as lk:
            fcntl.flock(lk, fcntl.LOCK_EX)
            ok, tlog = self.translate()
            if not ok:
                self.build_ok = False
                return False, "TRANSLATOR FAILED (fail-closed)\n" + tlog
            refresh_coqproject()
            stale_gen_guard()
            # force the property files to be rebuilt so that Print Assumptions is re-run by this check
            for t in targets:
                if t.startswith("props/"):
                    for ext in (".vo", ".glob", ".vok", ".vos"):
                        try:
                            os.unlink(os.path.join(COQ, t[:-3] + ext))
                        except OSError:
                            pass
            cmd = ["timeout", str(timeout), "make", "-j16"] + targets
            r = subprocess.run(cmd, cwd=COQ, capture_output=True, text=True)
            log = r.stdout + r.stderr
        self.checker_cmds.append("cd coq && " + " ".join(cmd))
        self.extra["coq_build_s"] = round(time.time() - t0, 1)
        if r.returncode != 0:
            self.build_ok = False
            return False, log
        # the gate: no Admitted / Axiom / ... anywhere in the closure of what was just built
        gate = forbidden_scan(closure_files(targets))
        if gate:
            self.build_ok = False
            return False, "FORBIDDEN CONSTRUCT\n" + "\n".join(gate)
        self.build_ok = True
        # assumptions
        for m in re.finditer(r"^Axioms:\n((?:.+\n)+?)(?=^\S|\Z)", log, flags=re.M):
            for line in m.group(1).splitlines():
                mm = re.match(r"^(\S+)\s*:", line)
                if mm:
                    self.axioms.add(mm.group(1))
        closed = len(re.findall(r"Closed under the global context", log))
        has_props = any(t.startswith("props/") for t in targets)
        if has_props or "print_assumptions_closed" not in self.extra:
            self.extra["print_assumptions_closed"] = closed
        bad = [a for a in self.axioms if a not in STD_AXIOMS_OK and a.split(".")[-1] not in STD_AXIOMS_OK]
        if bad:
            self.build_ok = False
            return False, "NON-STANDARD AXIOMS: %s\n" % bad + log
        # count obligations = Qed-closed statements in the closure
        # (a later build of a model file alone, e.g. for a correspondence evaluation, must not replace the
        # counts of the property closure)
        n, names = count_obligations(targets)
        if has_props or n > self.obligations:
            self.obligations = n
            self.discharged = n
        if has_props or not self.extra.get("theorems"):
            self.extra["theorems"] = names
        return True, log

    def coq_eval(self, name, body, timeout=600, requires=()):
        """write _build/cases/<name>.v with `body`, run coqc, return parsed values of
        every `Eval vm_compute in` (in order)."""
        d = os.path.join(BUILD, "cases")
        os.makedirs(d, exist_ok=True)
        path = os.path.join(d, name + ".v")
        hdr = "From Coq Require Import List ZArith NArith String Bool.\nImport ListNotations.\n"
        for r in requires:
            hdr += "Require Import %s.\n" % r
        with open(path, "w") as f:
            f.write(hdr + body)
        cmd = ["timeout", str(timeout), "coqc", "-Q", COQ, "Verif", "-w", "-all", path]
        r = subprocess.run("ulimit -s unlimited; " + " ".join(cmd), shell=True, cwd=d, capture_output=True, text=True)
        if r.returncode != 0:
            raise CoqEvalError(r.stdout + r.stderr)
        return parse_coq_evals(r.stdout)

    # ---- decision ------------------------------------------------------
    def finish(self):
        known = load_known()
        rc = 0
        nviol = 0

        def listed(f):
            k = known.get((self.pid, f["sig"]))
            return bool(k and k["status"] == "known" and f["has_input"])
        if getattr(self, "props_failed", None) and not any(
                f["sig"] == "proof-broken" or not listed(f) for f in self.failures):
            log = self.props_failed
            self.failures.append(dict(sig="proof-broken", what="theorem closure of props/%s.v no longer builds (only listed known findings "
                                      "were raised by the check, so the framework reports it): %s" % (self.pid, log[-2500:]),
                                      replay=dict(log=log[-6000:]), has_input=False, count=1))
        for f in self.failures:
            k = known.get((self.pid, f["sig"]))
            if k and k["status"] == "known" and f["has_input"]:
                print("KNOWN-FINDING: property=%s %s [%s]" % (self.pid, k["what"], f["sig"]))
                continue
            nviol += 1
            rc = 1
            path = os.path.join(VERIF, "replays", "%s-%s.json" % (self.pid, re.sub(r"[^A-Za-z0-9_.-]+", "_", f["sig"])[:80]))
            with open(path, "w") as fh:
                json.dump(dict(property=self.pid, signature=f["sig"], what=f["what"], replay=f["replay"],
                               has_failing_input=f["has_input"], seed=self.seed, tier=self.tier), fh, indent=1,
                          default=repr)
            tail = "" if f["has_input"] else " no-failing-input-found"
            print("VIOLATION property=%s replay=%s%s" % (self.pid, path, tail))
            print("  what: %s" % f["what"][:2000])
        self.write_evidence(nviol)
        return rc

    def write_evidence(self, nviol):
        tb = ["Coq 8.16.1 kernel + vm_compute (no native_compute)",
              "translator /verif/translate (python ast -> Gallina, fail-closed)",
              "correspondence harness /verif/harness (canonicalisers, in-memory transports, virtual clock)"]
        tb += ["axiom: " + a for a in sorted(self.axioms)] or []
        if not self.axioms:
            tb.append("axioms: none (every Print Assumptions of this run: Closed under the global context)")
        cov = dict(
            obligations=self.obligations, discharged=self.discharged,
            checker_cmd="; ".join(self.checker_cmds) or "none (build did not run)",
            trusted_base=tb,
            evaluations=self.evaluations, distinct_nontrivial=len(self.nontrivial),
            distinct=len(self.distinct), rule=self.rule, samples=self.samples,
            traces_validated_against_impl=self.traces, histograms=self.hists, notes=self.notes,
            failures=[dict(sig=f["sig"], what=f["what"][:500], count=f["count"], has_input=f["has_input"])
                      for f in self.failures],
        )
        cov.update(self.extra)
        ev = dict(property_id=self.pid, tier=self.tier, seed=self.seed, level="proof", coverage=cov,
                  assumptions=self.assumptions, wall_s=round(time.time() - self.t0, 2), violations=nviol)
        # replays and runs against a scratch copy (VERIF_EVIDENCE_DIR) never overwrite the record of the last full run
        d = os.environ.get("VERIF_EVIDENCE_DIR") or os.path.join(VERIF, "evidence")
        os.makedirs(d, exist_ok=True)
        p = os.path.join(d, self.pid + (".replay.json" if self.replay else ".json"))
        with open(p + ".tmp", "w") as f:
            json.dump(ev, f, indent=1, default=repr)
        os.replace(p + ".tmp", p)


class CoqEvalError(Exception):
    pass


def refresh_coqproject():
    """_CoqProject lists every .v under gen/ lib/ props/; Makefile is regenerated when the list changes"""
    files = []
    for d in ("gen", "lib", "props"):
        dd = os.path.join(COQ, d)
        if os.path.isdir(dd):
            files += sorted("%s/%s" % (d, f) for f in os.listdir(dd) if f.endswith(".v") and not f.startswith("."))
    text = "-Q . Verif\n-arg -w -arg -all\n" + "\n".join(files) + "\n"
    p = os.path.join(COQ, "_CoqProject")
    old = open(p).read() if os.path.exists(p) else ""
    if old != text or not os.path.exists(os.path.join(COQ, "Makefile")):
        with open(p, "w") as f:
            f.write(text)
        subprocess.run(["coq_makefile", "-f", "_CoqProject", "-o", "Makefile"], cwd=COQ, check=True, capture_output=True)


def forbidden_scan(only=None):
    """scan the given .v files (paths relative to coq/), or every .v under coq/ when None"""
    bad = []
    todo = []
    if only is None:
        for root, _, files in os.walk(COQ):
            todo += [os.path.join(root, fn) for fn in files if fn.endswith(".v")]
    else:
        todo = [os.path.join(COQ, v) for v in only if os.path.exists(os.path.join(COQ, v))]
    for p in sorted(todo):
        for _once in (1,):
            if True:
                txt = strip_coq_comments(open(p).read())
                in_section = 0
                for ln, line in enumerate(txt.splitlines(), 1):
                    if re.match(r"\s*Section\b", line):
                        in_section += 1
                    if re.match(r"\s*End\b", line) and in_section:
                        in_section -= 1  # approximate (modules also use End) -- conservative enough
                    m = FORBIDDEN.search(line)
                    if m:
                        w = m.group(0)
                        if w in ("Variable", "Variables", "Hypothesis", "Hypotheses") and in_section:
                            continue
                        bad.append("%s:%d: %s" % (p, ln, line.strip()[:120]))
    return bad


def strip_coq_comments(s):
    out = []
    depth = 0
    i = 0
    instr = False
    while i < len(s):
        if not instr and s.startswith("(*", i):
            depth += 1
            i += 2
            continue
        if not instr and depth and s.startswith("*)", i):
            depth -= 1
            i += 2
            continue
        c = s[i]
        if depth == 0:
            if c == '"':
                instr = not instr
            out.append(c)
        elif c == "\n":
            out.append(c)
        i += 1
    return "".join(out)


def closure_files(targets):
    """the .v files in the dependency closure of the targets (via coqdep's .d output of coq_makefile)"""
    dep = {}
    dfile = os.path.join(COQ, ".Makefile.d")
    if os.path.exists(dfile):
        for line in open(dfile):
            if ":" not in line:
                continue
            lhs, rhs = line.split(":", 1)
            vos = [x for x in lhs.split() if x.endswith(".vo")]
            deps = [x for x in rhs.split() if x.endswith(".vo") and not x.startswith("/")]
            for v in vos:
                dep[v] = deps
    seen = set()
    todo = list(targets)
    while todo:
        t = todo.pop()
        if t in seen:
            continue
        seen.add(t)
        todo += dep.get(t, [])
    return sorted(x[:-1] for x in seen)  # .vo -> .v


def stale_gen_guard():
    """a compiled gen/*.vo must come from the gen/*.v that is there now: make compares time stamps only, and a copy / restore of the
    tree can leave a newer .vo beside an older, different .v.  The content hash each .vo was built from is kept beside it."""
    import hashlib
    g = os.path.join(COQ, "gen")
    if not os.path.isdir(g):
        return
    for fn in os.listdir(g):
        if not fn.endswith(".v"):
            continue
        p = os.path.join(g, fn)
        h = hashlib.sha256(open(p, "rb").read()).hexdigest()
        side = os.path.join(g, "." + fn + ".sha")
        old = open(side).read().strip() if os.path.exists(side) else None
        if old != h:
            for ext in (".vo", ".vos", ".vok", ".glob"):
                try:
                    os.unlink(p[:-2] + ext)
                except OSError:
                    pass
            with open(side, "w") as f:
                f.write(h)


def count_obligations(targets):
    n = 0
    names = []
    for v in closure_files(targets):
        p = os.path.join(COQ, v)
        if not os.path.exists(p):
            continue
        txt = strip_coq_comments(open(p).read())
        n += len(re.findall(r"\b(Qed|Defined)\s*\.", txt))
        if v.startswith("props/"):
            names += re.findall(r"^\s*(?:Theorem|Corollary)\s+([A-Za-z0-9_']+)", txt, flags=re.M)
    return n, names


def load_known():
    p = os.path.join(VERIF, "known_findings.json")
    out = {}
    if os.path.exists(p):
        for e in json.load(open(p))["findings"]:
            out[(e["property"], e["signature"])] = e
    return out


def run_impl(script, payload, timeout=600):
    """run harness/<script> under the implementation's interpreter with json on stdin -> json on stdout"""
    r = subprocess.run([PY, os.path.join(VERIF, "harness", script)], input=json.dumps(payload), env=impl_env(),
                       capture_output=True, text=True, timeout=timeout)
    if r.returncode != 0:
        raise RuntimeError("impl driver %s failed:\n%s\n%s" % (script, r.stdout[-3000:], r.stderr[-6000:]))
    return json.loads(r.stdout[r.stdout.index("@@JSON@@") + 8:])


def shrink_list(xs, still_fails, max_rounds=200):
    """delta-debugging on a list"""
    xs = list(xs)
    n = 2
    rounds = 0
    while len(xs) >= 2 and rounds < max_rounds:
        rounds += 1
        chunk = max(1, len(xs) // n)
        reduced = False
        for i in range(0, len(xs), chunk):
            cand = xs[:i] + xs[i + chunk:]
            if cand and still_fails(cand):
                xs = cand
                n = max(n - 1, 2)
                reduced = True
                break
        if not reduced:
            if chunk == 1:
                break
            n = min(n * 2, len(xs))
    return xs
