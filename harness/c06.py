"""C06 -- remote peers can reach only objects they were given or can name."""
import json, os, glob
from harness import common
from harness.common import coq_list, coq_Z

REQ = ["Verif.lib.PyLite", "Verif.gen.ReachGen", "Verif.gen.ReachDispGen", "Verif.lib.Reach", "Verif.lib.ReachDeep", "Verif.lib.ReachPipe"]

DATA_TYPES = ["list", "tuple", "dict", "set", "immutable-set", "none"]
BAD_TYPES = ["instance", "class", "module", "function", "method", "call", "answer", "vocab", "x", "remote_hi", "List"]
METHODS = ["hi", "x", "hidden", "secret", "_private", "__init__", "__class__", "__call__", "", "hé", "remote_hi", "hi.x",
           "__init__x", "cb_a", "cb_b", "getInterface", "doRemoteCall", "processUniqueID", "Hi", "hi ", "__dict__"]
BROKER_EXTRA = ["shutdown", "finish", "setTub", "remote_decref", "connectionLost", "doRemoteCall", "__class__",
                "abandonAllRequests", "getMyReferenceByCLID", "dataReceived", "send", ""]
COPY_NAMES = ["my.rc1", "my.rc2", "my.rc3", "os.system", "builtins.object", "", "my.rc", "harness.c06_impl.RC1"]
PUB_NAMES = ["pub", "pub2", "hub", "", "p/q"]
# method names that try to WALK from an exposed method to something else (attribute paths, format directives, separators)
WALKS = ["hi.__self__.secret", "hi.__self__._private", "hi.__self__.hi", "hi.__self__.__call__", "hi.__call__", "hi.__func__",
         "hi.__self__", "hi.__self__.cb_a", "x.__self__.secret", "hi.__self__.__class__", "hi.__self__.remote_hi", "%s", "hi%s", "{0}",
         "hi\x00", "hi/../secret", "hi:secret", "hi secret", "hi,secret", "hi\nsecret", "hi.", ".hi", "hi..secret", "remote_hi.__self__.secret"]


def B(s):
    return list(s.encode("utf-8")) if isinstance(s, str) else list(s)


# ------------------------------------------------------------------ Coq encoders
def cbs(b):
    return "(bs [%s]%%N)" % ";".join(str(x) for x in b)


def cstr(s):
    return cbs(B(s))


def cmname(mb):
    try:
        bytes(mb).decode("utf-8")
    except UnicodeDecodeError:
        return "MBad"
    return "(MStr %s)" % cbs(mb)


def carg(a):
    k = a[0]
    if k == "I":
        return "(AInt %s)" % coq_Z(a[1])
    if k == "B":
        return "(ABytes %s)" % cmname(a[1])
    if k == "Y":
        return "(AYourRef %s)" % coq_Z(a[1])
    if k == "C":
        return "(ACopyable %s)" % cstr(a[1])
    if k == "O":
        return "(AOpen %s)" % cstr(a[1])
    raise ValueError(a)


def cxarg(a):
    if a[0] == "M":
        return "(XMyRef %s)" % coq_Z(a[1])
    if a[0] == "T":
        return "(XTheirRef %s UForeign %s)" % (coq_Z(a[1]), "true" if a[2] else "false")
    return "(XA %s)" % carg(a)


def cxev(ev):
    """an event of the extended model: calls to application objects carry arbitrary arguments (XMsg), everything else is
    an event of the core model"""
    if ev[0] == "Msg" and ev[3] != 0:
        return "(XMsg C%s %s %s %s %s)" % (ev[1], coq_Z(ev[2]), coq_Z(ev[3]), cmname(ev[4]), coq_list(ev[5], cxarg))
    return "(XE %s)" % cev(ev)


def chev(ev):
    """an event of the correspondence machine: a burst (several calls parsed in one dataReceived, then delivered) runs the
    two-step machine of lib/ReachPipe.v built from the translated code (pstep_T); everything else runs xstep"""
    if ev[0] == "Burst":
        return "(HBurst C%s %s)" % (ev[1], coq_list(ev[2], lambda m: "(%s, %s, %s, %s)" % (coq_Z(m[0]), coq_Z(m[1]), cmname(m[2]),
                                                                                          coq_list(m[3], carg))))
    if ev[0] == "DefineClass":
        # a class statement: the registration events the TRANSLATED metaclass says it amounts to (lib/Reach.v define_class);
        # a Copyable that is no RemoteCopy subclass does not run the metaclass at all
        if ev[4] == "copyable":
            return "HNop"
        ct = {"absent": "CtAbsent", "none": "CtNone"}.get(ev[1][0]) or "(CtStr %s)" % cstr(ev[1][1])
        ttc = "None" if ev[2] is None else "(Some %s)" % cstr(ev[2])
        return "(HDefine %s %s %s %s %s)" % (ct, ttc, "false" if ev[5] is None else "true", "true" if ev[6] else "false", coq_Z(ev[3]))
    return "(HX %s)" % cxev(ev)


def cev(ev):
    k = ev[0]
    cid = lambda c: "C" + c
    if k == "Register":
        return "(Register %s %s %s)" % (cstr(ev[1]), coq_Z(ev[2]), cstr(ev[3]))
    if k == "Unregister":
        return "(Unregister %s)" % coq_Z(ev[1])
    if k == "RegisterCopy":
        return "(RegisterCopy %s %s)" % (cstr(ev[1]), coq_Z(ev[2]))
    if k == "RegisterCopyPriv":
        return "(RegisterCopyPriv %s %s %s)" % (cstr(ev[1]), coq_Z(ev[2]), "true" if ev[5] else "false")
    if k == "Declare":
        names = None if ev[2] is None else sysm_ifaces()[ev[2]][1]
        return "(Declare %s %s)" % (coq_Z(ev[1]), "None" if names is None else "(Some %s)" % coq_list(names, cstr))
    if k == "Serve":
        return "(Serve %s %s)" % (cstr(ev[1]), coq_Z(ev[2]))
    if k == "Revoke":
        return "(Revoke %s)" % cstr(ev[1])
    if k == "HandlerOff":
        return "HandlerOff"
    if k == "Grant":
        return "(Grant %s %s %s)" % (cid(ev[1]), coq_Z(ev[2]), cstr(ev[3]))
    if k == "Drop":
        return "(Drop %s)" % cid(ev[1])
    if k == "Top":
        return "(TopMsg %s %s)" % (cid(ev[1]), cstr(ev[2]))
    if k == "Msg":
        return "(Msg %s %s %s %s %s)" % (cid(ev[1]), coq_Z(ev[2]), coq_Z(ev[3]), cmname(ev[4]), coq_list(ev[5], carg))
    raise ValueError(ev)


def cworld(wd, handler):
    rows = []
    for wid in sorted(wd):
        d = wd[wid]
        iface = "None" if d["iface"] is None else "(Some %s)" % coq_list(d["iface"], cstr)
        rows.append("(%s, Build_objinfo %s %s %s)" % (coq_Z(wid), d["kind"], coq_list(d["attrs"], cstr), iface))
    return ("Definition wtab : list (Z * objinfo) := %s.\n"
            "Definition W : world := Build_world (fun o => match zget o wtab with Some i => i | None => Build_objinfo KObj [] None end).\n"
            ) % coq_list(rows)


PRELUDE = """
Local Open Scope Z_scope.
Definition enc_out (o : outcome) : Z * Z * list N :=
  match o with
  | Enter (EBroker a) => (1, 0, sb a) | Enter (EObj o a) => (2, o, sb a) | Enter (ECallable o) => (3, o, [])
  | Reject => (4, 0, []) | Aborted => (5, 0, []) | Dead => (6, 0, []) | Local => (7, 0, [])
  end.
Definition cidz (c : cid) : Z := match c with CA => 0 | CB => 1 end.
Definition enc_conn (c : conn) := (c_alive c, c_exports c, c_next c).
Definition enc_val (v : argval) : Z * Z :=
  match v with VData => (0, 0) | VBrokerSelf => (1, 0) | VLocal o => (2, o) | VCopy c => (3, c) | VProxy k => (4, k) | VGift => (5, 0) end.
(* the machine below is xstep: calls to application objects run the dispatcher assembled from the TRANSLATED source
   (gen/ReachDispGen.v), with reference arguments; all other events run step_T (translated remote_decref inside) *)
Definition obs (x : xstate) (y : xresult) :=
  let st := xs_core x in let r := xr_core y in
  (enc_out (r_out r), r_inst r, map (fun x => (cidz (fst (fst x)), snd (fst x), snd x)) (r_sent r),
   enc_conn (s_a st), enc_conn (s_b st), Z.of_nat (List.length (s_n2r st)),
   (map enc_val (xr_argv y), xs_yours_a x, xs_yours_b x, map fst (xr_dial y))).
(* bursts: several calls PARSED in one dataReceived, then delivery turns (lib/ReachPipe.v, the machine built from the translated
   code); one row per parse and per delivery turn.  Every event starts with empty queues (the harness turns the reactor until
   nothing is left after each event). *)
Definition enc_pout (o : pout) : Z * Z * list N :=
  match o with Queued => (8, 0, []) | Idle => (9, 0, []) | Out o' => enc_out o' end.
Inductive hev := HX (e : xevent) | HBurst (c : cid) (msgs : list (Z * Z * mname * list arg))
  | HDefine (ct : ctattr) (ttc : option string) (priv em : bool) (cls : Z) | HNop.
Definition sync (x : xstate) (st : state) (c : cid) : xstate :=
  let x' := {| xs_core := st; xs_yours_a := xs_yours_a x; xs_yours_b := xs_yours_b x; xs_accept_gifts := xs_accept_gifts x |} in
  if c_alive (get_conn st c) then x' else set_yours x' c [].
Definition pobs (x : xstate) (r : presult) :=
  let st := xs_core x in
  (enc_pout (pr_out r), pr_inst r, map (fun x => (cidz (fst (fst x)), snd (fst x), snd x)) (pr_sent r),
   enc_conn (s_a st), enc_conn (s_b st), Z.of_nat (List.length (s_n2r st)),
   (@nil (Z * Z), xs_yours_a x, xs_yours_b x, @nil Z)).
Fixpoint prows (w : world) (x : xstate) (c : cid) (ps : pstate) (pes : list pevent) {struct pes} :=
  match pes with
  | [] => (x, [])
  | pe :: r => let '(ps1, y) := pstep_T w ps pe in
               let x1 := sync x (p_st ps1) c in
               let '(x2, rows) := prows w x1 c ps1 r in (x2, pobs x1 y :: rows)
  end.
Definition hstep (w : world) (x : xstate) (e : hev) :=
  match e with
  | HX e0 => let '(x1, y) := xstep w x e0 in (x1, [obs x1 y])
  | HBurst c msgs => prows w x c {| p_st := xs_core x; p_qa := []; p_qb := [] |} (burst c msgs)
  | HDefine ct ttc priv em cls =>
    let x1 := fold_left (fun x0 e0 => fst (xstep w x0 (XE e0))) (define_class ct ttc priv em cls) x in (x1, [obs x1 (xres0 Local)])
  | HNop => (x, [obs x (xres0 Local)])
  end.
Fixpoint trace (w : world) (x : xstate) (h : list hev) :=
  match h with [] => [] | e :: r => let '(x1, rows) := hstep w x e in rows ++ trace w x1 r end.
Fixpoint hrun (w : world) (x : xstate) (h : list hev) : xstate :=
  match h with [] => x | e :: r => hrun w (fst (hstep w x e)) r end.
Definition final (w : world) (ag : bool) (h : list hev) :=
  let st := xs_core (hrun w (xinit ag) h) in
  (map (fun x => (sb (fst x), snd x)) (s_n2r st), map (fun x => (fst x, sb (snd x))) (s_r2n st),
   map (fun x => sb (fst x)) (s_copy st), map (fun x => (fst x, map sb (snd x))) (s_decl st)).
"""


# ------------------------------------------------------------------ history generation (on the fly, on the real code)
class Gen:
    def __init__(self, rng, bursts=False, classes=False):
        self.r = rng
        self.classes = classes      # class mode: some events are class DEFINITIONS (histories of their own, like bursts)
        self.bursts = bursts        # burst mode: some events are several calls in ONE dataReceived (histories of their own, so the
                                    # random stream of the one-call-per-segment histories is what it always was)

    def burst(self, sysm, snap, seen, req, copyreg, touched):
        """["Burst", c, [[req, clid, method bytes, args(, kw)], ...]]: 2-4 calls the peer sends back to back.  The peer's
        knowledge is the snapshot BEFORE the burst: release-then-call, call-then-release, lookup-then-call-the-id-it-will-get,
        a protocol error in the middle, and random mixtures."""
        c = self.pick(["A", "B"])
        live = sorted(snap[c])
        msgs = []

        def add(clid, m, args, kw=False):
            req[c] += 1
            msgs.append([req[c], clid, B(m) if isinstance(m, str) else list(m), args] + ([True] if kw else []))

        def method_for(k):
            wid = snap[c][k][0]
            wd = impl_world().get(wid)
            good = [a[7:] for a in wd["attrs"] if a.startswith("remote_")] if wd else []
            return self.pick(good) if good and self.r.random() < 0.8 else self.pick(METHODS)

        q = self.r.random()
        if q < 0.35 and live:
            k = self.pick(live)
            held = snap[c][k][1]
            add(0, "decref", [["I", k], ["I", self.pick([held, held, 1, held + 1])]], self.r.random() < 0.3)
            add(k, method_for(k), self.args(c, snap, seen, copyreg))
            if self.r.random() < 0.5:
                add(k, method_for(k), [["Y", k]] if k > 0 else [])
        elif q < 0.50:
            names = sorted(snap["names"]) + sorted(sysm_handler_names()) + ["nosuch"]
            add(0, "getReferenceByName", [["B", B(self.pick(names))]], self.r.random() < 0.3)
            nxt = snap["next" + c]
            add(self.pick([nxt, nxt, -nxt] + live[:1]), self.pick(["hi", "x", "hidden"]), [])
            if self.r.random() < 0.5:
                add(0, "decref", [["I", nxt], ["I", 1]])
        elif q < 0.62 and live:
            k = self.pick(live)
            add(k, method_for(k), [])
            add(0, "decref", [["I", k], ["I", snap[c][k][1]]])
            add(k, method_for(k), [])
        elif q < 0.70 and live:
            k = self.pick(live)
            add(k, method_for(k), [])
            add(k, method_for(k), [["Y", self.pick([-1, -3, -(2 ** 40)])]])
            add(k, method_for(k), [])
            if self.r.random() < 0.5:
                add(0, "decref", [["I", k], ["I", 1]])
        else:
            for _ in range(self.pick([2, 2, 3, 4])):
                for _try in range(30):
                    ev = self.event(sysm, snap, seen, req, copyreg, 99, touched, force_c=c, plain=True)
                    if ev[0] == "Msg":
                        break
                else:
                    continue
                if ev[2] == 0:
                    req[c] += 1
                    ev[2] = req[c]
                msgs.append([ev[2], ev[3], ev[4], [a for a in ev[5] if a[0] not in ("M", "T")]] + ([True] if len(ev) > 6 and ev[6] else []))
        if len(msgs) < 2:
            add(0, "decgift", [["I", 1], ["I", 1]])
            add(self.pick(live) if live else 1, "hi", [])
        return ["Burst", c, msgs]

    def define_class(self, sysm):
        """["DefineClass", copytype attribute, typeToCopy, class id, bases, private registry or None, that registry is empty]"""
        names = sysm_class_names()
        ct = self.pick([["absent"], ["none"], ["none"], ["none"], ["str", ""], ["str", self.pick(names)]])
        ttc = self.pick([None, self.pick(names), self.pick(names), ct[1] if ct[0] == "str" and ct[1] else self.pick(names)])
        which = self.pick([None, None, None, None, 0, 1])
        return ["DefineClass", ct, ttc, self.pick([1, 2, 3]), self.pick(["rc", "both", "both", "both", "copyable"]), which,
                which is not None and len(sysm.priv[which]) == 0]

    def pick(self, xs):
        return xs[self.r.randrange(len(xs))]

    def clid(self, c, snap, seen, broker_ok=True):
        r = self.r.random()
        live = sorted(snap[c])
        oth = sorted(snap["B" if c == "A" else "A"])
        stale = sorted(set(seen[c]) - set(live))
        if r < 0.40 and live:
            return self.pick(live)
        if r < 0.52 and oth:
            return self.pick(oth)
        if r < 0.62 and stale:
            return self.pick(stale)
        if r < 0.74 and broker_ok:
            return 0
        if r < 0.80 and live:
            return -self.pick(live)
        if r < 0.86:
            return self.pick([2 ** 31, 2 ** 64 + 3, -2 ** 31, -(2 ** 70), 10 ** 30])
        return self.r.randrange(-6, 9)

    def args(self, c, snap, seen, copyreg):
        out = []
        for i in range(self.pick([0, 0, 1, 1, 2, 3])):
            r = self.r.random()
            if r < 0.35:
                out.append(["I", self.pick([0, 1, -1, 7, 2 ** 40])])
            elif r < 0.42:
                out.append(["B", B(self.pick(["abc", "", "pub"]))])
            elif r < 0.62:
                q = self.r.random()
                live = sorted(k for k in snap[c] if k > 0)
                if q < 0.55 and live:
                    out.append(["Y", self.pick(live)])
                elif q < 0.80:
                    out.append(["Y", 0])
                elif q < 0.93:
                    out.append(["Y", self.clid(c, snap, seen, False)])     # possibly unknown / negative: connection dropped
                else:
                    out.append(["Y", 99])
            elif r < 0.82:
                names = sorted(copyreg) * 3 + COPY_NAMES + sysm_priv_names() * 2
                if self.classes:
                    names = names + sysm_class_names() * 4 + ["AppClass1", "harness.c06_impl.AppClass1"]
                out.append(["C", self.pick(names)])
            else:
                out.append(["O", self.pick(DATA_TYPES * 2 + BAD_TYPES)])
        return out

    def event(self, sysm, snap, seen, req, copyreg, i=99, touched=(), force_c=None, plain=False):
        if self.bursts and not plain and i >= 2 and self.r.random() < 0.30:
            return self.burst(sysm, snap, seen, req, copyreg, touched)
        if self.classes and not plain and self.r.random() < (0.30 if i < 6 else 0.10):
            return self.define_class(sysm)
        r = self.r.random()
        c = self.pick(["A", "B"])
        if force_c:
            c = force_c
        if i < 6 and r > 0.34:
            r = self.pick([0.1, 0.1, 0.1, 0.22, 0.3, r])      # histories start with grants / registrations
        if r < 0.20:
            return ["Grant", c, self.pick([1, 2, 3, 4, 5, 6, 7, 8, 9, 10, 11, 12, 9, 3]), sysm.next_swiss()]
        if r < 0.26:
            nm, ob = self.pick(PUB_NAMES), self.pick([1, 2, 3, 4, 5, 6, 9, 10, 11])
            if snap["names"].get(nm, ob) != ob:
                nm = ""
            return ["Register", nm, ob, sysm.next_swiss()]
        if r < 0.29:
            return ["Unregister", self.pick([1, 2, 3, 4, 5, 6, 9, 10, 11])]
        if r < 0.34:
            return ["RegisterCopy", self.pick(COPY_NAMES[:3] + ["my.rc"]), self.pick([2, 3, 1, 2, 3])]
        q0 = self.r.random()
        fresh = [w_ for w_ in sysm_declarable() if w_ not in touched]
        if fresh and (q0 > 0.88 or (i < 8 and q0 > 0.70)):
            # a RemoteInterface declared (or withdrawn) on an instance that has not been sent or called yet
            wid = self.pick(fresh)
            if wid in snap["decl"] and self.r.random() < 0.3:
                return ["Declare", wid, None, self.pick(["nolonger", "direct"])]
            return ["Declare", wid, self.pick(sorted(sysm_ifaces())), self.pick(["direct", "also"])]
        if q0 < 0.045:
            which = self.pick([0, 0, 1])
            return ["RegisterCopyPriv", self.pick(sysm_priv_names()), self.pick([1, 2, 3]), which,
                    self.pick(["class", "copy", "factory", "unslicer"]), len(sysm.priv[which]) == 0]
        if q0 < 0.085:
            nm = self.pick(sorted(sysm_handler_names()))
            return ["Serve", nm, sysm_handler_names()[nm]]
        if q0 < 0.110:
            return ["Revoke", self.pick(sorted(sysm_handler_names()))]
        if q0 < 0.117:
            return ["HandlerOff"]
        if r < 0.37:
            return ["Top", c, self.pick(["answer", "error", "set-vocab", "add-vocab", "instance", "list", "arguments", "x"])]
        if r < 0.375:
            return ["Drop", c]
        req[c] += 1
        rq = 0 if self.r.random() < 0.1 else req[c]
        clid = self.clid(c, snap, seen)
        if clid == 0:
            q = self.r.random()
            names = sorted(snap["names"]) + list(sysm_handler_names()) + ["sw%d" % self.r.randrange(0, 12), "nosuch", "pu"]
            if q < 0.32:
                nm = B(self.pick(names))
                if self.r.random() < 0.04:
                    nm = [0xff, 0xfe]
                return ["Msg", c, rq, 0, B("getReferenceByName"), [["B", nm]], self.r.random() < 0.3]
            if q < 0.70:
                k = self.clid(c, snap, seen, False)
                if abs(k) >= 2 ** 31:
                    k = 77
                held = snap[c].get(k, (0, 1))[1]
                n = self.pick([1, 1, 1, 1, held, held, 2, 0, -1, 5])
                return ["Msg", c, rq, 0, B("decref"), [["I", k], ["I", n]], self.r.random() < 0.3]
            if q < 0.76:
                return ["Msg", c, rq, 0, B("decgift"), [["I", self.pick([1, 2])], ["I", 1]], self.r.random() < 0.3]
            m = self.pick(["getReferenceByName", "decref", "decgift"] + BROKER_EXTRA + METHODS[:6])
            return ["Msg", c, rq, 0, B(m), self.args(c, snap, seen, copyreg)]
        m = B(self.pick(METHODS if self.r.random() < 0.8 else WALKS))
        if clid in snap[c] and clid > 0 and snap[c][clid][0] in impl_world() and self.r.random() < 0.45:
            # a method the target really exposes
            wd = impl_world()[snap[c][clid][0]]
            good = [a[7:] for a in wd["attrs"] if a.startswith("remote_")]
            m = B(self.pick(good))
        if self.r.random() < 0.02:
            m = [0xc3, 0x28]
        args = self.args(c, snap, seen, copyreg)
        if self.r.random() < 0.35:
            # reference arguments: the peer's own objects (my-reference, any integer id, also ids equal to ids of OUR tables)
            # and gifts (their-reference) whose dial succeeds or fails
            for _ in range(self.pick([1, 1, 2])):
                if self.r.random() < 0.6:
                    ids = [2, 3, 5, -2, -4, 7, 2 ** 40] + [k for k in sorted(snap[c]) if k != 1]
                    ref = ["M", self.pick(ids)]
                else:
                    ref = ["T", self.pick([1, 2, 3, 0]), self.r.random() < 0.7]
                if ref[0] == "T" and any(a[0] == "T" and a[1] == ref[1] for a in args):
                    continue
                args.insert(self.r.randrange(len(args) + 1), ref)
        return ["Msg", c, rq, clid, m, args]


def sysm_handler_names():
    from harness import c06_impl as impl
    return impl.HANDLER_NAMES


def sysm_ifaces():
    from harness import c06_impl as impl
    return impl.IFACES


def sysm_declarable():
    from harness import c06_impl as impl
    return impl.DECLARABLE


def sysm_class_names():
    from harness import c06_impl as impl
    return impl.CLASS_NAMES


def sysm_priv_names():
    from harness import c06_impl as impl
    return impl.PRIV_NAMES


# ------------------------------------------------------------------ the property itself, on observed behaviour
class Oracle:
    """Independent bookkeeping of what each peer legitimately holds (from what the server wrote to it and what the peer
    released) and of which names were published; every entry into application / broker code must be justified by it."""

    def __init__(self, impl):
        self.impl = impl
        self.held = {"A": {}, "B": {}}        # clid -> [wid, count]
        self.copyreg = {}
        self.prev = None
        self.known = {}            # names published in the Tub's table, from what the application did / what was put on the wire
        self.served = {}           # what the application's handler serves now
        self.ever_served = set()

    def check(self, ev, o, fail):
        impl = self.impl
        kind = ev[0]
        snap = o["snap"]
        prev = self.prev
        self.prev = snap
        if o["exc"]:
            fail("exception-escaped", "an exception escaped the transport-facing call", o["exc"][-800:])
        c = ev[1] if kind in ("Grant", "Msg", "Top", "Drop", "Burst") else None
        ent = [e for e in o["entered"] if not (e[0] == "broker" and e[2] == "doRemoteCall")]
        if kind == "Burst":
            return self.check_burst(ev, o, ent, prev, fail)
        # what the server wrote: references handed to the peer
        for cc in ("A", "B"):
            for clid, url in o["sent"][cc]:
                if clid == "unparsable":
                    continue
                if clid not in snap[cc]:
                    fail("sent-clid-not-in-table", "a my-reference %r was sent on %s but is not in that connection's table" % (clid, cc))
                    continue
                wid = snap[cc][clid][0]
                h = self.held[cc].get(clid)
                if h and h[0] != wid:
                    fail("clid-rebound", "clid %r on %s denoted object %r and now denotes %r while still held" % (clid, cc, h[0], wid))
                if kind == "Grant":
                    if cc != c or wid != ev[2]:
                        fail("grant-wrong-object", "granting %r on %s emitted a reference to %r on %s" % (ev[2], c, wid, cc))
                elif kind == "Msg" and ev[3] == 0 and bytes(ev[4]) == b"getReferenceByName" and cc == c:
                    nm = bytes(ev[5][0][1]).decode("utf-8", "replace")
                    published = self.known.get(nm, self.served.get(nm))
                    if published != wid:
                        if nm in self.ever_served and nm not in self.served and nm not in self.known:
                            fail("revoked-name-still-resolves", "getReferenceByName(%r) on %s returned object %r although the "
                                 "application's lookup handler no longer serves that name (and it was never registered)" % (nm, c, wid))
                        else:
                            fail("name-lookup-unpublished", "getReferenceByName(%r) on %s returned object %r; the application "
                                 "published %r under that name" % (nm, c, wid, published))
                else:
                    fail("unexpected-reference-sent", "event %r made the server send a reference (clid %r) on %s" % (ev[:4], clid, cc))
                self.held[cc].setdefault(clid, [wid, 0])[1] += 1
                if url and kind == "Grant":
                    # the first send of an object publishes it under the (unguessable) name of the URL sent along
                    nm_ = url.split("/", 3)[3]
                    if nm_ not in self.ever_served:
                        self.known.setdefault(nm_, wid)
        if kind == "Register" and o.get("regname") is not None and o["regname"] not in self.ever_served:
            self.known[o["regname"]] = ev[2]
        if kind == "Serve":
            self.served[ev[1]] = ev[2]
            self.ever_served.add(ev[1])
        if kind == "Revoke":
            self.served.pop(ev[1], None)
        if kind == "HandlerOff":
            self.served.clear()
        if kind == "Unregister":
            for n_ in [n_ for n_, w_ in self.known.items() if w_ == ev[1]]:
                del self.known[n_]
        if kind == "RegisterCopy" and ev[1] not in self.copyreg and ev[1] in o.get("copykeys", [ev[1]]):
            self.copyreg.setdefault(ev[1], ev[2])
        if kind == "DefineClass":
            # the property's own rule for "explicitly registered for pass-by-copy": a RemoteCopy subclass whose body gives a
            # non-empty copytype, and no private registry -- under that copytype and under nothing else (not its typeToCopy, not
            # its class name); a class without copytype, with copytype None / "" or a mere Copyable is NOT registered
            ct_, bases_, which_ = ev[1], ev[4], ev[5]
            if bases_ != "copyable" and ct_[0] == "str" and ct_[1] and which_ is None and ct_[1] not in self.copyreg \
                    and ct_[1] in o.get("copykeys", [ct_[1]]):
                self.copyreg[ct_[1]] = ev[3]
        if kind == "Drop" or (c and not snap["alive" + c]):
            self.held[c] = {}
        if kind not in ("Msg", "Top"):
            if ent or o["inst"]:
                fail("entered-without-message", "application code entered / class instantiated by a local event %r: %r %r" % (ev, ent, o["inst"]))
            return
        # ---- an inbound message
        unchanged = prev is not None and all(prev[k] == snap[k] for k in prev if k not in ("yoursA", "yoursB"))
        # the proxy tables (Broker.yourReferenceByCLID): the other connection's is never touched; this connection's grows by the
        # my-reference ids of this very message (or is emptied with the connection)
        if prev is not None and c:
            oc_ = "B" if c == "A" else "A"
            if prev["yours" + oc_] != snap["yours" + oc_]:
                fail("other-proxy-table-changed", "a message on %s changed the proxy table of %s: %r -> %r"
                     % (c, oc_, prev["yours" + oc_], snap["yours" + oc_]))
            mine = set(a[1] for a in ev[5] if a[0] == "M") if kind == "Msg" else set()
            if snap["alive" + c] and not (set(prev["yours" + c]) <= set(snap["yours" + c]) <= set(prev["yours" + c]) | mine):
                fail("unjustified-proxy", "a message on %s with my-references %r changed its proxy table %r -> %r"
                     % (c, sorted(mine), prev["yours" + c], snap["yours" + c]))
        if len(ent) > 1:
            fail("several-entries", "one message entered %r" % (ent,))
        if kind == "Top" and (ent or o["inst"]):
            fail("top-level-entered", "a top-level %r sequence entered %r / instantiated %r" % (ev[2], ent, o["inst"]))
        if kind == "Msg":
            req, clid, mb, args = ev[2], ev[3], bytes(ev[4]), ev[5]
            try:
                m = mb.decode("utf-8")
            except UnicodeDecodeError:
                m = None
            for e in ent[:1]:
                why = None
                if e[0] == "broker":
                    if clid != 0:
                        why = "broker method entered by a call to clid %r" % clid
                    elif e[1] != c:
                        why = "the broker of connection %s was entered by a message on %s" % (e[1], c)
                    elif m is None or e[2] != impl.PREFIX + m or e[2] not in ("remote_getReferenceByName", "remote_decref", "remote_decgift"):
                        why = "broker method %r entered for method name %r" % (e[2], mb)
                elif e[0] == "obj":
                    h = self.held[c].get(clid)
                    if clid <= 0 or not h or h[1] <= 0:
                        why = "object %r entered through clid %r which this peer does not hold on %s (held: %r)" % (e[1], clid, c, self.held[c])
                    elif h[0] != e[1]:
                        why = "clid %r on %s was given for object %r but object %r was entered" % (clid, c, h[0], e[1])
                    elif m is None or e[2] != impl.PREFIX + m or not e[2].startswith(impl.PREFIX):
                        why = "attribute %r entered for method name %r" % (e[2], mb)
                    else:
                        names_, level_ = o["iface_now"].get(e[1], (None, None))
                        if names_ == "several":
                            why = "object %r provides several RemoteInterfaces and was entered" % e[1]
                        elif names_ is not None and m not in names_:
                            why = ("method %r is not in the RemoteInterface %r this instance exposes (declared on the %s; "
                                   "computed with zope.interface.providedBy)" % (m, names_, level_))
                else:
                    h = self.held[c].get(clid)
                    if clid >= 0 or not h or h[1] <= 0 or h[0] != e[1]:
                        why = "callable %r entered through clid %r (held on %s: %r)" % (e[1], clid, c, self.held[c])
                if why:
                    fail("unjustified-entry", why)
            # what the entered code was handed, position by position
            if ent and o.get("argv") is not None and clid != 0:
                if len(o["argv"]) != len(args):
                    fail("argument-count", "the entered method received %d positional values for %d arguments" % (len(o["argv"]), len(args)))
                for a, v in zip(args, o["argv"]):
                    why = None
                    if v[0] == "local":
                        h = self.held[c].get(a[1]) if a[0] == "Y" else None
                        if a[0] != "Y" or a[1] <= 0 or not h or h[0] != v[1]:
                            why = "the local object %r was handed to the entered method for argument %r (held on %s: %r)" % (v[1], a, c, self.held[c])
                    elif v[0] == "broker":
                        if a[0] != "Y" or a[1] != 0 or v[1:] != [c]:
                            why = "a Broker %r was handed to the entered method for argument %r on %s" % (v[1:], a, c)
                    elif v[0] == "proxy":
                        if a[0] != "M" or v[1:] != [c, a[1]]:
                            why = "a RemoteReference %r was handed to the entered method for argument %r on %s" % (v[1:], a, c)
                    elif v[0] == "copy":
                        if a[0] != "C" or self.copyreg.get(a[1]) != v[1]:
                            why = "an instance of class %r was handed to the entered method for argument %r" % (v[1], a)
                    elif v[0] == "gift":
                        if a[0] != "T":
                            why = "a dialled reference was handed to the entered method for argument %r" % (a,)
                    elif a[0] in ("Y", "M", "T", "C"):
                        why = "argument %r arrived as plain data %r" % (a, v)
                    if why:
                        fail("unjustified-argument", why)
            # gifts: the Tub dials only when gifts are accepted, only what this message names; nothing is entered unless every
            # gift was accepted and resolved
            gifts = [a for a in args if a[0] == "T"]
            if o.get("dials"):
                if not impl_accepts_gifts(o) or any(g not in [a[1] for a in gifts] for g in o["dials"]):
                    fail("unjustified-dial", "the Tub dialled %r for arguments %r (gifts accepted: %r)" % (o["dials"], args, impl_accepts_gifts(o)))
            if ent and clid != 0 and gifts and (not impl_accepts_gifts(o) or not all(a[2] for a in gifts)):
                fail("gift-gate", "a call with an unaccepted / unresolved gift %r entered %r" % (gifts, ent))
            # "every other object id fails that request without side effects": a call addressed to an id this peer does not hold
            # (never granted, released, another connection's, negated) must be refused before ANY of its arguments is looked at
            h_ = self.held[c].get(clid)
            if clid != 0 and (not h_ or h_[1] <= 0) and prev is not None and snap["alive" + c]:
                done = dict(instantiated=list(o["inst"]), dialled=list(o.get("dials") or []),
                            proxies=sorted(set(snap["yours" + c]) - set(prev["yours" + c])))
                if any(done.values()):
                    fail("unheld-id-processed-arguments", "a call to id %r, which this peer does not hold on %s (held: %r), was refused only "
                         "after its arguments had been unsliced: %r" % (clid, c, sorted(self.held[c]), done))
            # classes
            allowed = [self.copyreg[a[1]] for a in args if a[0] == "C" and a[1] in self.copyreg]
            for cls in o["inst"]:
                if cls in allowed:
                    allowed.remove(cls)
                else:
                    fail("unregistered-class-instantiated", "class %r instantiated; (copyable ..) arguments %r, registry %r"
                         % (cls, [a[1] for a in args if a[0] == "C"], self.copyreg))
            # release
            if ent and ent[0][0] == "broker" and ent[0][2] == "remote_decref" and len(args) == 2:
                k, n = args[0][1], args[1][1]
                h = self.held[c].get(k)
                # a negative count is the peer claiming MORE references (foolscap accepts it: the refcount grows); that only
                # postpones the peer's own release, so the bookkeeping follows it rather than calling the later entry unjustified
                if h and n <= h[1]:
                    h[1] -= n
                    if h[1] == 0:
                        del self.held[c][k]
        # ---- "every other object id, name, method name or class name fails THAT REQUEST": the only inbound call that may cost the
        # peer its connection is a protocol error (a NEG token inside a your-reference); C06_dropped_only_for_protocol_error
        if kind == "Msg" and o["out"] == "Aborted" and prev is not None:
            try:
                bytes(ev[4]).decode("utf-8")
                undecodable = False
            except UnicodeDecodeError:
                undecodable = True
            neg_yourref = any(a[0] == "Y" and a[1] < 0 for a in ev[5])
            unknown_yourref = [a[1] for a in ev[5] if a[0] == "Y" and a[1] > 0 and a[1] not in prev[c]]
            if not neg_yourref:
                if unknown_yourref:
                    fail("unknown-yourref-drops-connection", "a request whose fault is a your-reference argument naming the unknown id "
                         "%r did not fail on its own: the whole connection %s was dropped (the peer's table %r is lost)"
                         % (unknown_yourref, c, prev[c]))
                elif undecodable:
                    fail("undecodable-name-dropped-connection", "a call to id %r with a method name that is not UTF-8 (%r) did "
                         "not fail on its own: the connection %s was dropped (table before: %r)" % (ev[3], ev[4], c, prev[c]))
                else:
                    fail("connection-dropped-without-protocol-error", "the well-formed call %r cost the peer its connection %s "
                         "(table before: %r)" % (ev[:6], c, prev[c]))
        # ---- refusals have no side effects
        if o["out"] in ("Reject", "Dead") and not unchanged:
            fail("refusal-changed-tables", "%s changed the tables: before %r after %r" % (o["out"], prev, snap))
        if o["out"] == "Reject" and kind == "Msg" and ev[2] != 0 and not o["answered"][c]:
            fail("refusal-not-reported", "a refused request with reqID %r got no error answer" % ev[2])
        if o["out"] == "Aborted":
            oc = "B" if c == "A" else "A"
            if snap[c] != {} or prev[oc] != snap[oc] or prev["names"] != snap["names"] or prev["alive" + oc] != snap["alive" + oc]:
                fail("abort-changed-other-tables", "dropping %s changed more than its own table: before %r after %r" % (c, prev, snap))
        if o["out"] == "Enter" and ent and ent[0][0] != "broker" and not unchanged:
            fail("plain-call-changed-tables", "a call to an application object changed the tables: before %r after %r" % (prev, snap))


def _check_burst(self, ev, o, ent, prev, fail):
    """several calls sent back to back on c.  The peer-side bookkeeping is SEQUENTIAL: a release counts from the moment the peer
    sent it, a reference from the moment the server wrote it (after the burst).  An entry through an id the peer still held at the
    START of the burst but had released by an EARLIER call of the same burst is the pipelining behaviour
    (released-id-entered-when-pipelined); an entry through an id it held at neither moment is an unjustified entry."""
    impl = self.impl
    c = ev[1]
    snap = o["snap"]
    msgs = ev[2]
    oc = "B" if c == "A" else "A"
    if o["out"] == "Dead":
        if ent or o["inst"] or any(o["sent"].values()):
            fail("dead-connection-processed-burst", "a burst on the dropped connection %s entered %r / instantiated %r" % (c, ent, o["inst"]))
        return
    if prev is not None and (prev[oc] != snap[oc] or prev["yours" + oc] != snap["yours" + oc] or prev["alive" + oc] != snap["alive" + oc]):
        fail("burst-changed-other-connection", "a burst on %s changed connection %s: %r -> %r" % (c, oc, prev[oc], snap[oc]))
    start = {k: list(v) for k, v in self.held[c].items()}
    per = o["per"] or []
    pe_ = o.get("per_entry") or []
    by_msg = {i: e for i, e in enumerate(pe_[:len(msgs)]) if e is not None}
    if len(pe_) > len(msgs) or len(by_msg) != len(ent) or any(p_ == "Enter" and i not in by_msg for i, p_ in enumerate(per)):
        fail("burst-entries-unaccounted", "a burst of %d calls on %s was answered %r but entered %r" % (len(msgs), c, per, ent))
    lookups = []
    for i, m_ in enumerate(msgs):
        req, clid, mb, args = m_[0], m_[1], bytes(m_[2]), m_[3]
        try:
            m = mb.decode("utf-8")
        except UnicodeDecodeError:
            m = None
        e = by_msg.get(i)
        if e is not None:
            why = None
            pipelined = False
            if e[0] == "broker":
                if clid != 0 or e[1] != c or m is None or e[2] != impl.PREFIX + m or \
                        e[2] not in ("remote_getReferenceByName", "remote_decref", "remote_decgift"):
                    why = "broker method %r of %s entered by call %r to clid %r on %s" % (e[2], e[1], mb, clid, c)
            else:
                want_pos = e[0] == "obj"
                def ok(h):
                    return bool(h) and h[1] > 0 and h[0] == e[1]
                h, h0 = self.held[c].get(clid), start.get(clid)
                if (clid > 0) != want_pos or clid == 0:
                    why = "%s %r entered through clid %r" % (e[0], e[1], clid)
                elif not ok(h):
                    if ok(h0):
                        pipelined = True
                    else:
                        why = "%s %r entered through clid %r which this peer does not hold on %s (held at the start of the burst: %r, now: %r)" \
                              % (e[0], e[1], clid, c, start, self.held[c])
                if want_pos and not why:
                    if m is None or e[2] != impl.PREFIX + m:
                        why = "attribute %r entered for method name %r" % (e[2], mb)
                    else:
                        names_, level_ = o["iface_now"].get(e[1], (None, None)) if "iface_now" in o else (None, None)
                        if names_ == "several" or (names_ is not None and m not in names_):
                            why = "method %r is not in the RemoteInterface %r the instance exposes" % (m, names_)
            if why:
                fail("unjustified-entry", "in a burst: " + why)
            elif pipelined:
                fail("released-id-entered-when-pipelined",
                     "the peer released id %r on %s (decref, earlier in the same segment) and then called it; both were parsed before "
                     "either was delivered: %s %r was entered through an id that was no longer in the table (held at the start of the "
                     "burst: %r)" % (clid, c, e[2] or "the callable", e[1], start.get(clid)))
            if e[0] == "broker" and e[2] == "remote_decref" and len(args) == 2:
                k, n = args[0][1], args[1][1]
                h = self.held[c].get(k)
                if h and n <= h[1]:
                    h[1] -= n
                    if h[1] == 0:
                        del self.held[c][k]
            if e[0] == "broker" and e[2] == "remote_getReferenceByName" and len(args) == 1:
                lookups.append(bytes(args[0][1]).decode("utf-8", "replace"))
    # classes: only registered ones, only as often as the calls name them
    allowed = [self.copyreg[a[1]] for m_ in msgs for a in m_[3] if a[0] == "C" and a[1] in self.copyreg]
    for cls in o["inst"]:
        if cls in allowed:
            allowed.remove(cls)
        else:
            fail("unregistered-class-instantiated", "in a burst: class %r instantiated; registry %r" % (cls, self.copyreg))
    # references the server wrote: only on c, only for names the burst looked up and the application published
    for cc in ("A", "B"):
        for clid, url in o["sent"][cc]:
            if clid == "unparsable":
                continue
            pub = [self.known.get(nm, self.served.get(nm)) for nm in lookups]
            pub = [w_ for w_ in pub if w_ is not None]
            if clid not in snap[cc]:
                # granted by a lookup and released again by a later call of the same burst (or the connection went away)
                released = any(m_[1] == 0 and bytes(m_[2]) == b"decref" and m_[3][:1] == [["I", clid]] for m_ in msgs)
                if snap["alive" + cc] and not (released and pub and cc == c):
                    fail("sent-clid-not-in-table", "a my-reference %r was sent on %s but is not in that connection's table" % (clid, cc))
                continue
            wid = snap[cc][clid][0]
            if cc != c or wid not in pub:
                fail("name-lookup-unpublished", "a burst on %s with lookups %r made the server send object %r (clid %r) on %s"
                     % (c, lookups, wid, clid, cc))
            self.held[cc].setdefault(clid, [wid, 0])[1] += 1
    if not snap["alive" + c]:
        self.held[c] = {}
        if not any(a[0] == "Y" and a[1] < 0 for m_ in msgs for a in m_[3]):
            fail("connection-dropped-without-protocol-error", "a burst of well-formed calls %r cost the peer its connection %s" % (msgs, c))


Oracle.check_burst = _check_burst


def impl_accepts_gifts(o):
    return o.get("accept_gifts", True)


_world = None


def impl_world():
    return _world


def run_history(ctx, impl, events=None, n=25, gen=None, accept_gifts=None):
    """execute a given history, or generate one of n events on the fly; -> (events, observations, failures).
    A history may start with ["Config", accept_gifts] (Tub option accept-gifts; default True); it is kept as the first
    event of the returned list (with a dummy observation) so that replays reproduce it."""
    global _world
    if events is not None and events and events[0][0] == "Config":
        accept_gifts = bool(events[0][1])
        events = events[1:]
    if accept_gifts is None:
        accept_gifts = True if gen is None else gen.r.random() < 0.8
    sysm = impl.System(accept_gifts=accept_gifts)
    if _world is None:
        _world = impl.world_description(sysm)
    orc = Oracle(impl)
    orc.prev = sysm.snapshot()
    evs, obs, fails = [], [], []
    seen = {"A": set(), "B": set()}
    touched = set()      # objects that were ever in an export table (sent at least once): getInterface() may have run on them
    req = {"A": 0, "B": 0}
    snap = orc.prev
    dead_probes = 0
    try:
        i = 0
        while True:
            if events is not None:
                if i >= len(events):
                    break
                ev = list(events[i])
                if ev[0] in ("Register", "Grant"):
                    ev[3] = sysm.next_swiss()
                if ev[0] == "RegisterCopyPriv":
                    ev = ev[:5] + [len(sysm.priv[ev[3]]) == 0]
                if ev[0] == "DefineClass":
                    ev = ev[:6] + [ev[5] is not None and len(sysm.priv[ev[5]]) == 0]
            else:
                if i >= n or dead_probes > 3:
                    break
                ev = gen.event(sysm, snap, seen, req, orc.copyreg, i, touched)
            i += 1
            o = sysm.do(ev)
            o["accept_gifts"] = accept_gifts
            if ev[0] == "Register":
                r2 = sysm.rnames()
                o["regname"] = r2.get(ev[2])       # the name part of the FURL registerReference returned
            o["iface_now"] = {w_: impl.declared_iface(sysm.objs[w_]) for w_ in sysm.objs if w_ not in impl.CALLABLES}
            if ev[0] in ("RegisterCopy", "DefineClass"):
                from foolscap import copyable
                o["copykeys"] = list(copyable.CopyableRegistry.keys())
            snap = o["snap"]
            for c in ("A", "B"):
                seen[c].update(snap[c])
                touched.update(v[0] for v in snap[c].values())
            if o["out"] == "Dead":
                dead_probes += 1
            evs.append(ev)
            obs.append(o)
            orc.check(ev, o, lambda sig, what, extra=None, i=i: fails.append((sig, what, i - 1, extra)))
    finally:
        final = dict(names=sysm.names(), rnames=sysm.rnames(), decl=sysm.decls())
        from foolscap import copyable
        final["copy"] = sorted(copyable.CopyableRegistry.keys())
        sysm.close()
    final["accept_gifts"] = accept_gifts
    if not accept_gifts:
        # replays must reproduce the option
        evs.insert(0, ["Config", False])
        obs.insert(0, None)
        fails = [(sig, what, idx + 1, extra) for sig, what, idx, extra in fails]
    return evs, obs, final, fails


def expected_obs(o, ev):
    """implementation observation -> the shape the model prints"""
    ent = [e for e in o["entered"] if not (e[0] == "broker" and e[2] == "doRemoteCall")]
    code = dict(Reject=4, Aborted=5, Dead=6, Local=7)
    if o["out"] == "Enter" and ent:
        e = ent[0]
        if e[0] == "broker":
            out = (1, 0, B(e[2]))
        elif e[0] == "obj":
            out = (2, e[1], B(e[2]))
        else:
            out = (3, e[1], [])
    else:
        out = (code[o["out"]], 0, [])
    sent = []
    for ci, c in enumerate(("A", "B")):
        for clid, url in o["sent"][c]:
            sent.append((ci, clid, o["snap"][c].get(clid, ("?",))[0]))
    s = o["snap"]
    code_v = dict(data=0, broker=1, local=2, copy=3, proxy=4, gift=5)
    argv = None
    if ev[0] == "Msg" and ev[3] != 0:
        if out[0] in (2, 3) and o.get("argv") is not None:
            argv = [(code_v[v[0]], v[-1] if v[0] in ("local", "copy", "proxy") else 0) for v in o["argv"]]
        elif out[0] not in (2, 3):
            argv = []
    return dict(out=out, inst=list(o["inst"]), sent=sorted(sent),
                A=(s["aliveA"], s["A"], s["nextA"]), B=(s["aliveB"], s["B"], s["nextB"]), nn=len(s["names"]),
                argv=argv, yoursA=s["yoursA"], yoursB=s["yoursB"], dials=sorted(o.get("dials", [])))


def expected_burst(o, ev):
    """observation of a burst -> the shape model_burst produces"""
    ent = []
    for e in o["entered"]:
        if e[0] == "broker":
            if e[2] != "doRemoteCall":
                ent.append((1, 0, B(e[2])))
        elif e[0] == "obj":
            ent.append((2, e[1], B(e[2])))
        else:
            ent.append((3, e[1], []))
    sent = []
    for ci, c in enumerate(("A", "B")):
        for clid, url in o["sent"][c]:
            sent.append((ci, clid))       # which object: the tables compared below say it (the id may be released again by now)
    s = o["snap"]
    return dict(per=list(o["per"] or []), entered=ent, inst=sorted(o["inst"]), sent=sorted(sent),
                A=(s["aliveA"], s["A"], s["nextA"]), B=(s["aliveB"], s["B"], s["nextB"]), nn=len(s["names"]),
                yoursA=s["yoursA"], yoursB=s["yoursB"])


def model_burst(rows, k):
    """rows of the two-step machine for one burst of k calls (k parses, then k delivery turns) -> per-call verdicts (a resolved
    call whose connection is dropped before its turn is lost: no answer), things entered in order, final tables"""
    obs_ = [model_obs(v) for v in rows]
    parses, delivers = obs_[:k], obs_[k:]
    entered = [d["out"] for d in delivers if d["out"][0] in (1, 2, 3)]
    turns = [d["out"][0] for d in delivers if d["out"][0] != 9]       # what each delivery turn that found something did
    per = []
    nq = 0
    for p_ in parses:
        code = p_["out"][0]
        if code == 8:
            # resolved and queued: its turn enters it, or fails it (the attribute is looked up at delivery), or never comes
            per.append("None" if nq >= len(turns) else "Enter" if turns[nq] in (1, 2, 3) else "Reject")
            nq += 1
        elif code == 4:
            per.append("Reject")
        else:
            per.append("None")
    last = obs_[-1]
    return dict(per=per, entered=[(e[0], e[1], list(e[2])) for e in entered], inst=sorted(x for p_ in parses for x in p_["inst"]),
                sent=sorted(tuple(x[:2]) for d in obs_ for x in d["sent"]), A=last["A"], B=last["B"], nn=last["nn"],
                yoursA=last["yoursA"], yoursB=last["yoursB"])


def model_obs(v, exp=None):
    o1, o2, o3, inst, sent, ca, cb, nn, ext = v     # Coq prints left-nested pairs flat
    argv, ya, yb, dial = ext
    out = (o1, o2, o3)
    conv = lambda c: (c[0], {k: tuple(x) for k, x in c[1]}, c[2])
    d = dict(out=(out[0], out[1], list(out[2])), inst=list(inst), sent=sorted(tuple(x) for x in sent),
             A=conv(ca), B=conv(cb), nn=nn, argv=[tuple(x) for x in argv], yoursA=sorted(ya), yoursB=sorted(yb), dials=sorted(dial))
    if exp is not None and exp.get("argv") is None:
        d["argv"] = None          # the values handed over are compared for calls to application objects only
    return d


def correspond(ctx, impl, hists, tag):
    """hists: [(events, observations, final)]"""
    if not hists:
        return
    body = [PRELUDE, cworld(impl_world(), impl.HANDLER_NAMES)]
    hists = [([e for e in evs if e[0] != "Config"], [o for o in obs if o is not None], final) for evs, obs, final in hists]
    for i, (evs, obs, final) in enumerate(hists):
        ag = "true" if final.get("accept_gifts", True) else "false"
        body.append("Definition h%d : list hev := %s." % (i, coq_list(evs, chev)))
        body.append("Eval vm_compute in trace W (xinit %s) h%d." % (ag, i))
        body.append("Eval vm_compute in final W %s h%d." % (ag, i))
    try:
        vals = ctx.coq_eval("C06_%s" % tag, "\n".join(body), requires=REQ)
    except common.CoqEvalError as e:
        ctx.fail("correspondence-broken", "the model could not be evaluated: " + str(e)[-1500:], has_input=False)
        return
    nbad = 0
    for i, (evs, obs, final) in enumerate(hists):
        tr, fin = vals[2 * i], vals[2 * i + 1]
        ctx.traces += 1
        bad = None
        nrows = sum(2 * len(ev[2]) if ev[0] == "Burst" else 1 for ev in evs)
        if len(tr) != nrows:
            bad = ("length", len(tr), nrows)
        else:
            pos = 0
            for j, (ev, o) in enumerate(zip(evs, obs)):
                if ev[0] == "Burst":
                    rows = tr[pos:pos + 2 * len(ev[2])]
                    pos += len(rows)
                    if o["out"] == "Dead":
                        exp, got = expected_burst(o, ev), model_burst(rows, len(ev[2]))
                        exp["per"] = got["per"] = None      # nothing was fed to a connection that was already gone
                    else:
                        exp, got = expected_burst(o, ev), model_burst(rows, len(ev[2]))
                else:
                    v = tr[pos]
                    pos += 1
                    exp = expected_obs(o, ev)
                    got = model_obs(v, exp)
                if exp != got:
                    diff = {k: (got[k], exp[k]) for k in exp if exp[k] != got[k]}
                    bad = dict(step=j, event=ev, model_vs_impl=diff)
                    break
            if bad is None:
                n2r = {bytes(n).decode(): o for n, o in fin[0]}
                r2n = {o: bytes(n).decode() for o, n in fin[1]}
                cp = sorted(bytes(n).decode() for n in fin[2])
                dcl = {o: [bytes(n).decode() for n in ns] for o, ns in fin[3]}
                if n2r != final["names"] or r2n != final["rnames"] or cp != final["copy"] or dcl != final["decl"]:
                    bad = dict(step="final", model=[n2r, r2n, cp, dcl], impl=[final["names"], final["rnames"], final["copy"], final["decl"]])
        if bad:
            nbad += 1
            if nbad <= 3:
                ctx.fail("correspondence/dispatch", "model and implementation disagree: %r" % (bad,),
                         replay=dict(history=evs[:(bad["step"] + 1) if isinstance(bad, dict) and isinstance(bad.get("step"), int) else None],
                                     disagreement=bad), has_input=False)
    ctx.extra["correspondence_histories"] = ctx.extra.get("correspondence_histories", 0) + len(hists)
    ctx.extra["correspondence_events"] = ctx.extra.get("correspondence_events", 0) + sum(len(h[0]) for h in hists)
    ctx.extra["correspondence_disagreements"] = ctx.extra.get("correspondence_disagreements", 0) + nbad


def correspond_decref(ctx):
    """the translated ReferenceableTracker.decref against the original, on a grid incl. boundary values"""
    from foolscap.referenceable import ReferenceableTracker
    vals = [-3, -1, 0, 1, 2, 3, 5, 2 ** 40]
    grid = [(n, rc) for n in vals for rc in vals if rc >= 0]
    body = ("Local Open Scope Z_scope.\n"
            "Definition enc (r : res (bool * Z)) : Z * Z := match r with Ok (d, rc) => ((if d then 1 else 0), rc) | Exc _ => (2, 0) end.\n"
            "Eval vm_compute in map (fun p => enc (tracker_decref (fst p) (snd p))) %s.\n"
            % coq_list(["(%s, %s)" % (coq_Z(n), coq_Z(rc)) for n, rc in grid]))
    try:
        (vals_,) = ctx.coq_eval("C06_decref", body, requires=REQ)
    except common.CoqEvalError as e:
        ctx.fail("correspondence-broken", "tracker_decref could not be evaluated: " + str(e)[-1000:], has_input=False)
        return
    for (n, rc), got in zip(grid, vals_):
        t = ReferenceableTracker(None, object(), 1, 1)
        t.refcount = rc
        try:
            d = t.decref(n)
            exp = (1 if d else 0, t.refcount)
        except AssertionError:
            exp = (2, 0)
        ctx.traces += 1
        if tuple(got) != exp:
            ctx.fail("correspondence/tracker-decref", "translated decref(%d) with refcount %d gives %r, the original %r" % (n, rc, got, exp),
                     replay=dict(count=n, refcount=rc, model=got, impl=exp), has_input=False)
    ctx.extra["decref_grid"] = len(grid)


def interface_order_family():
    """deterministic sweep: for every class without a RemoteInterface of its own, two (or three) of its instances with
    different per-instance declarations, used in both orders, on one or two connections; every method tried on each"""
    B_ = lambda t: list(t.encode())
    groups = [(3, 9, 1), (2, 4, None), (10, 12, None), (3, 10, 9)]     # P1 x3, P2 x2, P1b x2, P1 + its subclass P1b
    hs = []
    for a, b, c3 in groups:
        for decl_a, decl_b in [(None, "RIRead"), ("RIOther", "RIRead"), ("RIThing", None), ("RIRead", "RIOther")]:
            for first in (0, 1):
                for how in ("direct", "also"):
                    h = []
                    objs = [(a, decl_a), (b, decl_b)] + ([(c3, "RIOther")] if c3 else [])
                    for w_, d_ in objs:
                        if d_:
                            h.append(["Declare", w_, d_, how])
                    order = objs if first == 0 else list(reversed(objs))
                    conns = ["A", "B"] if how == "also" else ["A", "A"]
                    clid = {"A": 0, "B": 0}
                    req = 0
                    for k_, (w_, d_) in enumerate(order):
                        cn = conns[k_ % 2]
                        h.append(["Grant", cn, w_, ""])
                        clid[cn] += 1
                        for m_ in ("hi", "x", "hidden", ""):
                            req += 1
                            h.append(["Msg", cn, req, clid[cn], B_(m_), []])
                    hs.append(h)
    return hs


def unguessable_names(ctx, impl):
    """'unguessable registered name' as a peer-side attack on the REAL name generator (the histories above replace it by a
    counter): observe the names of 126 legitimately granted objects, try to recover the state of the stdlib Mersenne Twister
    from them (624 words; the surplus words validate the recovery), predict the name of an object registered afterwards and
    told to nobody, and look it up."""
    r = impl.swissnum_attack(126)
    ctx.extra["swissnum_attack"] = {k: r.get(k) for k in ("names", "layout", "validated", "resolved", "opened")}
    ctx.case(["swissnum-attack", r["names"]], nontrivial=r["names"] >= 126)
    ctx.hist("swissnum_attack", "resolved" if r["resolved"] else "lookup-refused")
    if r["names"] < 126:
        ctx.fail("swissnum-attack-not-run", "only %d names could be observed (the first send of an object no longer carries its URL?)"
                 % r["names"], has_input=False)
    if r["resolved"]:
        ctx.fail("oracle/swissnum-predicted",
                 "after being given %d objects the peer recovered the name generator's state (%s, %d further words reproduced), "
                 "computed the name %r of an object that was registered afterwards and told to nobody, getReferenceByName "
                 "resolved it%s" % (r["names"], r["layout"], r["validated"], r["guess"],
                                    " and remote_open ran on it" if r["opened"] else ""),
                 replay=dict(observed_names=r["names"], layout=r["layout"], predicted_name=r["guess"], opened=r["opened"]))
    same, name = impl.swissnum_follows_stdlib_prng()
    ctx.extra["swissnum_function_of_stdlib_prng_state"] = same
    if same:
        ctx.fail("oracle/swissnum-follows-stdlib-prng",
                 "two names drawn after random.setstate(<the same state>) are equal (%r): the Tub's names are a function of the "
                 "process-wide, non-cryptographic `random` generator" % name, replay=dict(name=name))


def reference_argument_family():
    """deterministic sweep (fixed witnesses, independent of the random stream): every kind of reference argument, alone and
    mixed, to a Referenceable, an interface-bearing one and a callable; my-reference ids that collide with ids of OUR export
    tables (own, other connection, stale, negative); gifts accepted / refused / unresolvable; a failing LATER argument"""
    B_ = lambda t: list(t.encode())
    hs = []
    for ag in (True, False):
        for target in ("obj", "iface", "callable"):
            h = [] if ag else [["Config", False]]
            wid = dict(obj=1, iface=5, callable=7)[target]
            h += [["Grant", "A", wid, ""], ["Grant", "A", 2, ""], ["Grant", "B", 3, ""], ["Grant", "B", 4, ""], ["Grant", "B", 9, ""],
                  ["RegisterCopy", "my.rc1", 1]]
            clid = -1 if target == "callable" else 1
            req = 0
            argsets = [[["M", 2]], [["M", 1]], [["M", -1]], [["M", 3]], [["M", 2 ** 40]], [["M", 2], ["M", 2]],
                       [["Y", 2], ["M", 2]], [["M", 2], ["Y", 0]], [["T", 1, True]], [["T", 2, False]], [["T", 1, True], ["T", 2, False]],
                       [["M", 5], ["T", 3, True], ["C", "my.rc1"], ["Y", 2]], [["M", 6], ["T", 1, True], ["C", "my.rc1"], ["O", "instance"]],
                       [["M", 7], ["Y", 77]], [["C", "my.rc1"], ["M", 8], ["C", "nosuch"]]]
            for args in argsets:
                req += 1
                h.append(["Msg", "A", req, clid, B_("hi"), args])
                if args == [["M", 7], ["Y", 77]]:
                    # the connection was dropped: what follows on it is dead, the other connection is untouched
                    req += 1
                    h.append(["Msg", "B", req, 1, B_("hi"), [["M", 2]]])
                    break
            hs.append(h)
    return hs


def unheld_id_family():
    """fixed witnesses: calls to ids the peer does not hold -- never granted (positive, negative), released (positive, negative:
    a bound method granted and released), the other connection's, the negation of a live one -- each with arguments whose
    unslicing is observable (registered copyable, my-reference, gift)"""
    B_ = lambda t: list(t.encode())
    h = [["RegisterCopy", "my.rc1", 1], ["Grant", "A", 1, ""], ["Grant", "A", 7, ""], ["Grant", "A", 2, ""], ["Grant", "B", 3, ""],
         ["Grant", "B", 8, ""], ["Grant", "B", 4, ""],
         ["Msg", "A", 1, 0, B_("decref"), [["I", -2], ["I", 1]]],          # the bound method is released
         ["Msg", "A", 2, 0, B_("decref"), [["I", 3], ["I", 1]]]]           # ... and object 2
    req = 2
    for clid in (-2, 3, -5, 99, -1, -3, 2 ** 40, -(2 ** 40)):
        for args in ([["C", "my.rc1"]], [["M", 4]], [["T", 1, True]], [["I", 1], ["C", "my.rc1"], ["M", 6], ["T", 2, True]]):
            req += 1
            h.append(["Msg", "A", req, clid, B_("hi"), args])
    return [h]


def method_walk_family():
    """fixed witnesses: every WALKS name against a Referenceable without a RemoteInterface (P1: remote_hi, remote_x; P2: many
    odd remote_ attributes), an interface-bearing one and a callable"""
    B_ = lambda t: list(t.encode("utf-8"))
    h = [["Grant", "A", 1, ""], ["Grant", "A", 2, ""], ["Grant", "A", 5, ""], ["Grant", "A", 7, ""]]
    req = 0
    for clid in (1, 2, 3):
        for m in WALKS:
            req += 1
            h.append(["Msg", "A", req, clid, B_(m), [["I", 1]] if req % 3 == 0 else []])
    for m in WALKS[:6]:
        req += 1
        h.append(["Msg", "A", req, -4, B_(m), []])
    return [h]


def class_definition_family():
    """fixed witnesses (round 7): every way an application class can be DEFINED -- RemoteCopy subclass / Copyable and RemoteCopy /
    Copyable only; copytype absent, None, "", a name; typeToCopy absent, a name, the copytype; no registry attribute, a private
    registry that is empty / not empty -- each followed by calls that name the class by its typeToCopy, its copytype, its class
    name and its qualified class name (one call per segment, and all of them once more in ONE segment on the other connection).
    Only `copytype = <non-empty name>` without a private registry makes a class receivable, and only under that name."""
    B_ = lambda t: list(t.encode())
    hs = []
    for bases in ("rc", "both", "copyable"):
        for which in (None, 0, 1):
            h = [["RegisterCopy", "my.rc1", 1], ["Grant", "A", 1, ""], ["Grant", "B", 2, ""]]
            req = 0
            every = []
            k = 0
            for ctk in ("absent", "none", "empty", "name"):
                for ttk in ("absent", "name", "same"):
                    k += 1
                    c_, t_ = "app.c%d" % k, "app.t%d" % k
                    ct = dict(absent=["absent"], none=["none"], empty=["str", ""], name=["str", c_])[ctk]
                    if ttk == "same" and ctk != "name":
                        continue
                    ttc = dict(absent=None, name=t_, same=c_)[ttk]
                    h.append(["DefineClass", ct, ttc, 1 + k % 3, bases, which, False])
                    cname = "AppClass%d" % sum(1 for e in h if e[0] == "DefineClass")
                    names = [n for n in (ttc, c_ if ctk == "name" else "" if ctk == "empty" else None, cname, "harness.c06_impl." + cname)
                             if n is not None]
                    names = sorted(set(names), key=names.index)
                    for n in names:
                        req += 1
                        h.append(["Msg", "A", req, 1, B_("hi"), [["C", n]]])
                    every += names
            h.append(["Burst", "B", [[i + 1, 1, B_("hi"), [["C", n]]] for i, n in enumerate(every[:8])]])
            h.append(["Msg", "B", 20, 1, B_("hi"), [["C", n] for n in every[8:14]]])
            hs.append(h)
    return hs


PIPELINED_SIG = "oracle/released-id-entered-when-pipelined"


def burst_family():
    """fixed witnesses for calls that arrive in ONE dataReceived (all parsed before any is delivered)"""
    B_ = lambda t: list(t.encode())
    dec = lambda rq, k, n: [rq, 0, B_("decref"), [["I", k], ["I", n]]]
    call = lambda rq, k, m="hi", args=None: [rq, k, B_(m), args or []]
    look = lambda rq, n: [rq, 0, B_("getReferenceByName"), [["B", B_(n)]]]
    hs = []
    # release then call (the witness of C06_held_at_delivery_refuted); then the same one call per segment
    hs.append([["Grant", "A", 1, ""], ["Burst", "A", [dec(1, 1, 1), call(2, 1)]], ["Msg", "A", 3, 1, B_("hi"), []],
               ["Grant", "A", 2, ""], ["Msg", "A", 4, 0, B_("decref"), [["I", 2], ["I", 1]]], ["Msg", "A", 5, 2, B_("hi"), []]])
    # lookup then call to the id the lookup is about to grant: refused; afterwards it is held
    hs.append([["Register", "pub", 1, ""], ["Burst", "A", [look(1, "pub"), call(2, 1), call(3, -1)]], ["Msg", "A", 4, 1, B_("hi"), []],
               ["Burst", "B", [look(1, "pub"), look(2, "pub"), look(3, "nosuch"), dec(4, 1, 1)]], ["Msg", "B", 5, 1, B_("hi"), []]])
    # call / release / call on an object and on a bound method; the other connection holds the same objects
    hs.append([["Grant", "A", 1, ""], ["Grant", "A", 7, ""], ["Grant", "B", 1, ""], ["Grant", "B", 7, ""],
               ["Burst", "A", [call(1, 1), dec(2, 1, 1), call(3, 1), call(4, -2, "x"), dec(5, -2, 1), call(6, -2, "x")]],
               ["Burst", "B", [call(1, 1), call(2, -2)]], ["Burst", "A", [call(7, 1), call(8, -2)]]])
    # a protocol error in the middle: the resolved first call is abandoned with the connection, the third is never parsed
    hs.append([["Grant", "A", 1, ""], ["Grant", "B", 3, ""],
               ["Burst", "A", [call(1, 1), call(2, 1, "hi", [["Y", -3]]), call(3, 1), dec(4, 1, 1)]],
               ["Burst", "A", [call(5, 1), call(6, 1)]], ["Burst", "B", [call(1, 1), call(2, 1, "x")]]])
    # arguments are unsliced at parse time: classes, your-references resolved against the table as it is then
    hs.append([["RegisterCopy", "my.rc1", 1], ["Grant", "A", 1, ""], ["Grant", "A", 2, ""],
               ["Burst", "A", [call(1, 1, "hi", [["C", "my.rc1"]]), call(2, 9, "hi", [["C", "my.rc1"]]), call(3, 1, "nosuch", [["C", "my.rc1"]]),
                               call(4, 1, "hi", [["O", "instance"]]), dec(5, 2, 1), call(6, 1, "hi", [["Y", 2]]), call(7, 1, "hi", [["Y", 77]])]]])
    # a reference count of 2: the first release leaves the id held, the second does not
    hs.append([["Grant", "A", 1, ""], ["Grant", "A", 1, ""],
               ["Burst", "A", [dec(1, 1, 1), call(2, 1), dec(3, 1, 1), call(4, 1), dec(5, 1, 1), call(6, 1)]]])
    # broker methods only
    hs.append([["Grant", "A", 5, ""], ["Serve", "dyn-3", 3],
               ["Burst", "A", [look(1, "nosuch"), dec(2, 5, 1), [3, 0, B_("decgift"), [["I", 1], ["I", 1]]], call(4, 0, "shutdown"),
                               look(5, "dyn-3"), look(6, "dyn-3"), dec(7, 1, 2), call(8, 1)]]])
    return hs


def pipelined_release_probe(ctx, impl):
    """Replays the witness of C06_held_at_delivery_refuted on the real code: the peer is granted an object, then sends decref and a
    call to it in ONE segment.  Both are parsed (the call is resolved to the object) before either is delivered, so the method is
    entered on an object whose id is no longer in the connection's table.  A candidate finding against clause (b) ("not yet
    released"); a violation only once the lead has listed the signature in known_findings.json."""
    B_ = lambda t: list(t.encode())
    hist = [["Grant", "A", 1, ""], ["Burst", "A", [[1, 0, B_("decref"), [["I", 1], ["I", 1]]], [2, 1, B_("hi"), []]]]]
    sysm = impl.System()
    try:
        for ev in hist:
            ev = list(ev)
            if ev[0] == "Grant":
                ev[3] = sysm.next_swiss()
            o = sysm.do(ev)
    finally:
        sysm.close()
    got = dict(entered=o["entered"], table_after=o["snap"]["A"], answers=o["per"])
    ctx.extra["pipelined_release_witness"] = got
    entered_released = any(e[0] == "obj" and e[1] == 1 for e in o["entered"]) and 1 not in o["snap"]["A"]
    if entered_released:
        what = ("decref(1,1) and call(1,'hi') in one segment: remote_hi was entered on the object although the peer had released "
                "id 1 (table afterwards %r); one call per segment refuses the second call; history %r" % (o["snap"]["A"], hist))
        if ("C06", PIPELINED_SIG) in common.load_known():
            ctx.fail(PIPELINED_SIG, what, replay=dict(history=hist, observed=got))
        else:
            ctx.note("candidate finding %s (fixed witness; not listed in known_findings.json, so only noted): %s" % (PIPELINED_SIG, what[:400]))


REFUSED_EFFECTS_SIG = "oracle/refused-request-left-proxy-or-dial"


def refused_effects_probe(ctx, impl):
    """Replays the witness of C06_refusal_pure_full_refuted on the real code: a request that is REFUSED because of a later
    argument has already created a proxy in its connection's yourReferenceByCLID, made the Tub dial the gift's URL and
    instantiated a registered class.  Listed in known_findings.json (status known): printed as KNOWN-FINDING."""
    B_ = lambda t: list(t.encode())
    hist = [["Grant", "A", 1, ""], ["RegisterCopy", "my.rc1", 1],
            ["Msg", "A", 1, 1, B_("hi"), [["M", 5], ["T", 1, True], ["C", "my.rc1"], ["O", "instance"]]]]
    sysm = impl.System()
    try:
        for ev in hist:
            ev = list(ev)
            if ev[0] == "Grant":
                ev[3] = sysm.next_swiss()
            o = sysm.do(ev)
    finally:
        sysm.close()
    left = dict(out=o["out"], proxies=o["snap"]["yoursA"], dials=o["dials"], instantiated=o["inst"])
    ctx.extra["refused_request_effects"] = left
    if o["out"] == "Reject" and (left["proxies"] or left["dials"] or left["instantiated"]):
        ctx.fail(REFUSED_EFFECTS_SIG, "a request refused because of a LATER argument (unknown OPEN type) had already %r; history %r"
                 % (left, hist), replay=dict(history=hist, left=left))
    elif o["out"] != "Reject":
        ctx.fail("oracle/refuted-witness-not-refused", "the witness of C06_refusal_pure_full_refuted was not refused: %r" % (left,),
                 replay=dict(history=hist, left=left))


REDECLARE_SIG = "oracle/interface-redeclared-after-use-ignored"


def redeclare_probe(ctx, impl):
    """Nearby behaviour of the UNCHANGED code (outside the modelled domain, where declarations precede first use):
    Referenceable.getInterface memoises a non-None RemoteInterface on the instance for ever, so an application that narrows
    or withdraws an instance's declaration AFTER the object was first sent keeps the old interface exposed.  Judged against
    the instance's current declaration this is an unjustified entry; it is reported as a violation only once the lead has
    listed the signature in known_findings.json (until then: a note and an evidence entry, so the clean tree stays exit 0)."""
    B_ = lambda t: list(t.encode())
    hist = [["Declare", 9, "RIThing", "direct"], ["Grant", "A", 9, ""], ["Msg", "A", 1, 1, B_("hi"), []],
            ["Declare", 9, "RIOther", "direct"],             # after first use: now only `x` is exposed
            ["Msg", "A", 2, 1, B_("hi"), []],                # hi is no longer part of what the instance declares
            ["Declare", 9, None, "nolonger"], ["Declare", 9, "RIRead", "also"],
            ["Msg", "A", 3, 1, B_("x"), []]]
    sysm = impl.System()
    stale = []
    try:
        for ev in hist:
            ev = list(ev)
            if ev[0] == "Grant":
                ev[3] = sysm.next_swiss()
            o = sysm.do(ev)
            if ev[0] == "Msg":
                names, _ = impl.declared_iface(sysm.objs[9])
                m = bytes(ev[4]).decode()
                ent = [e for e in o["entered"] if e[0] == "obj"]
                if ent and names is not None and m not in names:
                    stale.append(dict(method=m, declared_now=names, entered=ent[0][2]))
    finally:
        sysm.close()
    ctx.extra["redeclare_after_use_stale_entries"] = stale
    if stale:
        what = ("an instance whose RemoteInterface declaration was changed after it was first sent keeps its first interface: "
                "%r; history %r" % (stale, hist))
        if ("C06", REDECLARE_SIG) in common.load_known():
            ctx.fail(REDECLARE_SIG, what, replay=dict(history=hist, stale=stale))
        else:
            ctx.note("candidate finding (not listed in known_findings.json, so only noted): " + what[:400])


def shrink(ctx, impl, evs, sig):
    def still(cand):
        try:
            _, _, _, fails = run_history(ctx, impl, events=cand)
        except Exception:
            return False
        return any(f[0] == sig for f in fails)
    return common.shrink_list(evs, still, max_rounds=60)


def run(ctx):
    import gc
    gc.disable()        # proxies created for my-reference arguments die in reference cycles: collect only between histories
    try:
        _run(ctx)
    finally:
        gc.enable()
        gc.collect()


def _run(ctx):
    ctx.rule = ("a case is one history of up to 25 (thorough: 40) events on one real Tub with two real Brokers: grants of 8 application "
                "objects (plain, interface-bearing, bound methods), registrations, copyable registrations, and hand-built inbound "
                "token sequences (call with live / other-connection / stale / 0 / negated / huge clids, 21 method names incl. dunder, "
                "dotted, empty, non-ASCII, double prefix, undecodable; your-reference / copyable / other OPEN types as arguments; "
                "getReferenceByName / decref / decgift on clid 0; other top-level sequences); 9 fixed histories of class DEFINITIONS (RemoteCopy "
                "subclass / Copyable+RemoteCopy / Copyable only x copytype absent, None, '', a name x typeToCopy x private registry), each named "
                "by the peer by typeToCopy, copytype and class name, and 10 (thorough 500) generated ones; 7 fixed and 36 (thorough 700) generated histories "
                "in which 2-8 calls arrive in ONE dataReceived (all parsed before any is delivered: release-then-call, call-then-release, "
                "lookup-then-call, a protocol error in the middle).  Distinct = distinct event list; "
                "non-trivial = at least one message entered code, at least one was refused, and both connections were used")
    ctx.assumptions = [
        "the two Brokers are attached to the Tub directly (Broker(...).setTub(tub), sink transport): negotiation and TLS are not part of this property",
        "automatic cyclic garbage collection is off during a history (collected between histories): the weakref finalizers of dead "
        "RemoteReferences run at those points, not in the middle of a virtual-clock operation",
        "application objects stay alive for the whole history (the Tub's weak name table never loses an entry by garbage collection)",
        "application methods return plain data; a grant is the application calling a peer object with the Referenceable as argument",
        "reference arguments: my-reference (the peer's own objects, any integer id incl. ids of OUR tables) and their-reference (gifts) "
        "are generated and modelled (C06_delivered_values_justified, C06_gift_gate, ...); the Tub's dial (Tub.getReference) is replaced "
        "per Tub instance by a stub that records the URL and succeeds / fails as the event says (no network here; what a dial does is "
        "C05 / C14); a gift naming THIS Tub is modelled like any other dial (UOwn), not generated",
        "the dispatcher of the model is assembled from Gallina terms translated statement by statement from getMyReferenceByCLID, "
        "CallUnslicer.receiveChild stages 1-2, Broker._doCall, Referenceable.doRemoteCall, YourReferenceUnslicer.receiveClose, "
        "Broker.remote_decref, Tub._assignName, Tub.getReferenceForName (translate/g_reachdisp.py; the loop over nameLookupHandlers is "
        "translated for ONE registered handler, which is what the fixture registers); hand-modelled and tied by the correspondence only: the clid-0 path "
        "(RIBroker schema), the mapping exception -> Reject / connection dropped, token-type checks (checkToken), truthiness of "
        "application objects (assumed true), RemoteInterface schemas (unconstrained in the fixture; C02)",
        "parse and delivery are two steps (lib/ReachPipe.v): bursts run the two-step machine built from the translated code; all other "
        "events run the one-step machine, which is the two-step one for a call on an idle connection (C06_atomic_is_parse_then_deliver); "
        "every harness event ends with the reactor idle, so every event starts with empty delivery queues; calls in a burst carry no "
        "my-/their-reference arguments",
        "class definitions (DefineClass) are built with type(name, bases, dict), which runs the metaclass exactly as a class statement "
        "does; the model expands one into the registration events the translated RemoteCopyClass.__init__ (metaclass_registers) says "
        "it amounts to (lib/Reach.v define_class); the oracle's rule for 'explicitly registered' is its own: a RemoteCopy subclass with "
        "a non-empty copytype and no private registry, under that copytype only",
        "Tub.generateSwissnumber is replaced per Tub instance by a counter so that model and implementation can be compared; "
        "unguessability: translated facts NAMEBITS = 160 and 'the name is base32 of os.urandom(bits//8)' (C06_swissnum_bits), plus a "
        "peer-side prediction attack on the real generator (MT19937 state recovery from 126 observed names) that must fail",
    ]
    ok, log = ctx.coq_build(["props/C06.vo"])
    from harness import c06_impl as impl
    before = len(ctx.failures)
    hists = []
    pipelined_seen = []

    def account(evs, obs, final, fails, origin):
        outs = [o["out"] for o in obs if o is not None] + [p_ for o in obs if o is not None for p_ in (o.get("per") or [])]
        conns = set(e[1] for e in evs if e[0] in ("Msg", "Top", "Burst"))
        ctx.case(["hist", evs], nontrivial=("Enter" in outs and "Reject" in outs and len(conns) == 2))
        for e, o in zip(evs, obs):
            if o is None:
                continue
            ctx.hist("event_kind", e[0])
            if e[0] == "Burst":
                ctx.hist("burst_size", len(e[2]))
                for p_ in (o.get("per") or []):
                    ctx.hist("burst_call_outcome", p_)
            if e[0] == "Msg":
                for a in e[5]:
                    if a[0] in ("M", "T"):
                        ctx.hist("reference_argument", "%s/%s" % ("my-reference" if a[0] == "M" else "their-reference", o["out"]))
            if e[0] in ("Msg", "Top"):
                ctx.hist("message_outcome", o["out"])
                if e[0] == "Msg":
                    ctx.hist("clid_class", "broker" if e[3] == 0 else "live" if o["out"] == "Enter" else "other")
                    ent = [x for x in o["entered"] if x[2] != "doRemoteCall"]
                    if ent:
                        ctx.hist("entered_kind", ent[0][0])
            if o["inst"]:
                ctx.hist("instantiations", len(o["inst"]))
        ctx.hist("history_length", len(evs))
        for sig, what, idx, extra in fails:
            small = evs[:idx + 1]
            if sig == "released-id-entered-when-pipelined":
                # candidate finding against clause (b) (C06_held_at_delivery_refuted): a violation only once the lead has listed it
                pipelined_seen.append(origin)
                if ("C06", PIPELINED_SIG) in common.load_known():
                    if len(pipelined_seen) == 1:
                        ctx.fail(PIPELINED_SIG, "%s; history: %r" % (what, small), replay=dict(history=small, origin=origin))
                elif len(pipelined_seen) == 1:
                    ctx.note("candidate finding %s (not listed in known_findings.json, so only noted): %s; history %r"
                             % (PIPELINED_SIG, what[:300], small))
                continue
            try:
                small = shrink(ctx, impl, small, sig)
            except Exception:
                pass
            ctx.fail("oracle/" + sig, "%s; minimised history: %r" % (what, small), replay=dict(history=small, origin=origin, extra=extra))
        hists.append((evs, obs, final))

    # 1. corpus (regression witnesses) first
    for p in sorted(glob.glob(os.path.join(common.VERIF, "corpus", "C06", "*.json"))):
        d = json.load(open(p))
        evs, obs, final, fails = run_history(ctx, impl, events=d["history"])
        account(evs, obs, final, fails, os.path.basename(p))
        ctx.hist("origin", "corpus")
    # 1b. deterministic sweep over per-instance RemoteInterface declarations and orders of first use
    fam = interface_order_family()
    if ctx.tier != "thorough":
        fam = fam[::2]
    for i, h in enumerate(fam):
        evs, obs, final, fails = run_history(ctx, impl, events=h)
        account(evs, obs, final, fails, "interface-order-%d" % i)
        ctx.hist("origin", "interface-order")
    # 1c. deterministic sweep over reference arguments (my-reference / their-reference), gifts accepted and refused
    for i, h in enumerate(reference_argument_family()):
        evs, obs, final, fails = run_history(ctx, impl, events=h)
        account(evs, obs, final, fails, "reference-arguments-%d" % i)
        ctx.hist("origin", "reference-arguments")
    for nm, fam_ in (("unheld-ids", unheld_id_family()), ("method-walk", method_walk_family())):
        for i, h in enumerate(fam_):
            evs, obs, final, fails = run_history(ctx, impl, events=h)
            account(evs, obs, final, fails, "%s-%d" % (nm, i))
            ctx.hist("origin", nm)
    # 1d. fixed witnesses: several calls in ONE dataReceived
    for i, h in enumerate(burst_family()):
        evs, obs, final, fails = run_history(ctx, impl, events=h)
        account(evs, obs, final, fails, "bursts-%d" % i)
        ctx.hist("origin", "bursts")
    # 1e. fixed witnesses: class definitions (who is "explicitly registered for pass-by-copy")
    for i, h in enumerate(class_definition_family()):
        evs, obs, final, fails = run_history(ctx, impl, events=h)
        account(evs, obs, final, fails, "class-definitions-%d" % i)
        ctx.hist("origin", "class-definitions")
    # 2. generated histories on the real code, with the direct oracle
    g = Gen(ctx.rng)
    nh = ctx.n(120, 2500)
    ln = ctx.n(25, 40)
    for i in range(nh):
        evs, obs, final, fails = run_history(ctx, impl, n=ln, gen=g)
        account(evs, obs, final, fails, "generated-%d" % i)
        ctx.hist("origin", "generated")
        if i < 2:
            ctx.sample(dict(history=evs[:8], outcomes=[o["out"] for o in obs[:8] if o is not None]))
    # 2b. generated histories in which the peer pipelines calls (a random stream of their own)
    import random as _random
    gb = Gen(_random.Random(1000003 * ctx.seed + 17), bursts=True)
    for i in range(ctx.n(36, 700)):
        evs, obs, final, fails = run_history(ctx, impl, n=ctx.n(18, 30), gen=gb)
        account(evs, obs, final, fails, "generated-bursts-%d" % i)
        ctx.hist("origin", "generated-bursts")
        if i < 1:
            ctx.sample(dict(history=evs[:8], outcomes=[o["out"] for o in obs[:8] if o is not None]))
    # 2c. generated histories in which the application also DEFINES classes (a random stream of their own)
    gc_ = Gen(_random.Random(1000003 * ctx.seed + 29), classes=True)
    for i in range(ctx.n(10, 500)):
        evs, obs, final, fails = run_history(ctx, impl, n=ctx.n(20, 30), gen=gc_)
        account(evs, obs, final, fails, "generated-classes-%d" % i)
        ctx.hist("origin", "generated-classes")
    ctx.extra["pipelined_release_histories"] = len(pipelined_seen)
    # 3. correspondence with the Coq model
    model_ok = ok
    if not ok:
        model_ok, _ = ctx.coq_build(["lib/ReachDeep.vo"])
    if model_ok:
        shard = 60
        for k in range(0, len(hists), shard):
            correspond(ctx, impl, hists[k:k + shard], "cases_%d" % (k // shard))
        correspond_decref(ctx)
    redeclare_probe(ctx, impl)
    pipelined_release_probe(ctx, impl)
    refused_effects_probe(ctx, impl)
    unguessable_names(ctx, impl)
    if not ok and len(ctx.failures) == before:
        ctx.fail("proof-broken", "theorem closure props/C06.vo no longer builds against the regenerated gen/ReachGen.v:\n" + log[-2500:],
                 replay=dict(log=log[-6000:]), has_input=False)
    elif not ok:
        ctx.note("proof broken AND failures found (reported above)")
