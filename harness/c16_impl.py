"""C16: drives the real foolscap.reconnector.Reconnector with a fake Tub (getReference returns Deferreds the
driver fires), a logging virtual clock and a scripted random.normalvariate; plus real-Tub scenarios on the
in-memory network.  Nothing in /repo is edited: module attributes of foolscap.reconnector are rebound in-process."""
import os
from fractions import Fraction
from twisted.internet import task, defer, error
from twisted.internet.base import DelayedCall
from twisted.python import failure
from harness import implenv as E
import foolscap.reconnector as rc
import foolscap.eventual as ev
from foolscap.tokens import NegotiationError, RemoteNegotiationError

ALPHABET = ["start", "ok", "fail", "lost", "timer", "elapse", "reset", "stop"]
ZS = [Fraction(0), Fraction(1, 2), Fraction(-1), Fraction(2), Fraction(-8), Fraction(8)]
ZMAX = 8            # |z| <= ZMAX <= 1/jitter  (1/jitter = 8.359...): the hypothesis of C16_delay_range
OUT = {"getref": 1, "watch": 2, "cb": 3, "timer": 4, "cancel": 5, "reset": 6, "remove": 7}
INFO = {"unstarted": 0, "connecting": 1, "connected": 2, "waiting": 3}

# Round 6: the documented knobs of the Reconnector.  `verbose` is an attribute the user sets on the instance (as
# foolscap's own test_stop_trying does: rc.verbose = True); the tunables (maxDelay, initialDelay, factor -- the source
# itself recommends Phi --, jitter, which the code tests for falsity) are class attributes "adapted from
# ReconnectingClientFactory" that a user overrides in a subclass or on the class.  Family: NO setting of these knobs may
# change what the state machine does -- with logging on, the Reconnector must go through exactly the states and outputs
# it goes through with logging off, on every history; with other tunables the property (one activity, delay range for
# THOSE tunables, back-off restart, silence after stop) must hold unchanged.  (name, options, only-logging?)
OPTION_SETS = [
    ("verbose", dict(verbose=True), True),
    ("no-jitter", dict(jitter=0), False),
    ("verbose-jitter-None", dict(verbose=True, jitter=None), False),
    ("verbose-phi-tuned", dict(verbose=True, factor=1.6180339887498948, maxDelay=10, initialDelay=0.5, jitter=0.05), False),
]


def make_reconnector(options, *args):
    """a Reconnector with the given knobs: tunables through a subclass (so that __init__ sees them, like a user's own
    subclass or an assignment to the class would), `verbose` on the instance, before it is started"""
    opts = dict(options or {})
    verbose = opts.pop("verbose", None)
    cls = rc.Reconnector
    if opts:
        cls = type("TunedReconnector", (rc.Reconnector,), opts)
    r = cls(*args)
    if verbose is not None:
        r.verbose = verbose
    return r


def options_name(options):
    return ", ".join("%s=%r" % kv for kv in sorted((options or {}).items())) or "defaults"


class LogClock(task.Clock):
    """task.Clock that records callLater / cancel / reset in the driver's output log"""

    def __init__(self, log):
        task.Clock.__init__(self)
        self.log = log
        self.drv = None
        self.n_later = 0

    def callLater(self, delay, f, *a, **kw):
        log = self.log

        class LoggedCall(DelayedCall):
            def cancel(c):
                DelayedCall.cancel(c)
                log.append(("cancel",))

            def reset(c, secondsFromNow):
                DelayedCall.reset(c, secondsFromNow)
                log.append(("reset", c.getTime() - self.seconds()))
        dc = LoggedCall(self.seconds() + delay, f, a, kw, self.calls.remove, lambda c: None, self.seconds)
        self.calls.append(dc)
        self._sortCalls()
        self.n_later += 1
        self.log.append(("timer", delay))
        if self.drv is not None and self.drv.stop_returned:
            self.drv.late.append("timer")
        return dc


class FakeTime:
    def __init__(self, clock):
        self.c = clock

    def time(self):
        return self.c.seconds()


class ScriptedRandom:
    """random.normalvariate(mu, sigma) = mu + z*sigma with z chosen by the driver"""

    def __init__(self):
        self.z = 0.0
        self.draws = 0

    def normalvariate(self, mu, sigma):
        self.draws += 1
        return mu + self.z * sigma


class RRef:
    """a RemoteReference as far as the Reconnector can tell; disconnect watchers behave like Broker's: they are
    delivered through foolscap.eventual (a later turn) when the connection is lost"""

    def __init__(self, drv):
        self.drv = drv
        self.watchers = []
        self.lost = False
        self.recon = 0          # the Reconnector's own watcher is registered
        self.cb_script = ()     # what the user's callback does when it is handed this reference
        self.hscript = ()       # what the user's own disconnect handler does

    def notifyOnDisconnect(self, cb, *a, **k):
        drv = self.drv
        if cb == drv.w_disconnected:
            drv.n_watch += 1
            drv.log.append(("watch",))
            if drv.stop_returned:
                drv.late.append("watch")
            self.recon += 1
        if self.lost:
            ev.eventually(cb, *a, **k)
        else:
            self.watchers.append((cb, a, k))

    def lose(self):
        self.lost = True
        w, self.watchers = self.watchers, []
        for cb, a, k in w:
            ev.eventually(cb, *a, **k)


class FakeTub:
    def __init__(self, drv):
        self.drv = drv
        self.pending = []

    prearmed = None     # ("ok",) / ("fail", z, kind): the next getReference returns an already-fired Deferred

    def getReference(self, url):
        self.drv.n_getref += 1
        self.drv.log.append(("getref",))
        if self.drv.stop_returned:
            self.drv.late.append("attempt")
        if self.prearmed is not None:
            ev, self.prearmed = self.prearmed, None
            if ev[0] == "ok":
                x = RRef(self.drv)
                self.drv.rrefs.append(x)
                d = defer.succeed(x)
            else:
                self.drv.rnd.z = float(ev[1])
                d = defer.fail(make_failure(ev[2]))
            self.last_sync = d
            return d
        d = defer.Deferred()
        self.pending.append(d)
        return d

    def getConnectionInfoForFURL(self, url):
        return None

    def _removeReconnector(self, r):
        self.drv.log.append(("remove",))


class CI:
    pass


def make_failure(kind):
    k = kind % 5
    if k == 0:
        return failure.Failure(RuntimeError("nope"))
    if k == 1:
        return failure.Failure(error.ConnectionRefusedError("refused"))
    if k == 2:
        return failure.Failure(NegotiationError("no such tub"))
    if k == 3:
        return failure.Failure(RemoteNegotiationError("they said no"))
    f = failure.Failure(error.ConnectError("with connection info"))
    f._connectionInfo = CI()
    return f


class Driver:
    """one real Reconnector in a fake environment: fake Tub (getReference returns Deferreds the driver fires), logging
    virtual clock for the retry timer, a separate clock that carries foolscap's eventual-send queue (so that the
    driver decides when a reactor turn happens), scripted normalvariate, Broker-like RemoteReferences.

    Atomic events (lib/Reconnector.v): ("start",) ("ok",) ("fail", z, kind) ("lost",) ("timer",) ("elapse",) ("reset",)
    ("stop",); every atomic event is followed by draining the eventual queue.

    Micro-operations (turn structure made explicit; nothing is drained implicitly):
      ("start",) ("ok", script) ("fail", z, kind) ("lose", script) ("turn",) ("timer",) ("elapse",) ("reset",) ("stop",)
      ("later", op)       -- op is put on the eventual queue (it happens in the next turn, in queue order)
    script = tuple of "stop"/"reset": calls made from inside the user's callback ("ok") resp. from inside the user's own
    notifyOnDisconnect handler ("lose").

    Every entry point of the Reconnector is wrapped on the instance, so that the driver knows in which order they were
    REALLY invoked: self.invoked is the history as model events."""

    def __init__(self, cb_raises=False, options=None):
        self.log = []
        self.clock = LogClock(self.log)
        self.clock.drv = self
        self.evclock = task.Clock()
        self.saved = (rc.reactor, rc.time, rc.random, ev.reactor)
        self.rnd = ScriptedRandom()
        rc.reactor = self.clock
        rc.time = FakeTime(self.clock)
        rc.random = self.rnd
        ev.reactor = self.evclock
        self._reset_queue()
        self.n_cb = self.n_getref = self.n_watch = self.n_disc = 0
        self.rrefs = []
        self.tub = FakeTub(self)
        self.cb_raises = cb_raises
        self.errors = []
        self.invoked = []
        self.cur_ok = None          # the model event of the _connected call that is on the stack
        self.in_user_cb = 0
        self.stop_returned = False
        self.first_stop_before_start = None
        self.late = []              # what the Reconnector did after stopConnecting() had returned
        self.cur_z = (Fraction(0), 0)
        self.claimed = []
        self.n_logged = len(E.logged_errors)
        self.r = R = make_reconnector(options, "pb://tubid@fake:x:1/name", self._cb, ("extra",), {"kw": 1})
        o_connected, o_failed, o_disc, o_timer = R._connected, R._failed, R._disconnected, R._timer_expired

        def w_connected(rref):
            e = ["ok", []]
            self.invoked.append(e)
            prev, self.cur_ok = self.cur_ok, e
            try:
                return o_connected(rref)
            finally:
                self.cur_ok = prev

        def w_failed(f):
            self.invoked.append(("fail",) + self.cur_z)
            return o_failed(f)

        def w_disconnected():
            self.invoked.append(("lost",))
            self.n_disc += 1
            return o_disc()

        def w_timer_expired():
            self.invoked.append(("timer",))
            return o_timer()
        R._connected, R._failed, R._disconnected, R._timer_expired = w_connected, w_failed, w_disconnected, w_timer_expired
        self.w_disconnected = w_disconnected

    def _reset_queue(self):
        q = ev._theSimpleQueue
        q._events = []
        q._flushObservers = []
        q._timer = None

    def close(self):
        rc.reactor, rc.time, rc.random, ev.reactor = self.saved
        self._reset_queue()

    # -- the user's code
    def _cb(self, rref, extra, kw=None):
        assert extra == "extra" and kw == 1
        if self.stop_returned:
            self.late.append("callback")
        self.n_cb += 1
        self.log.append(("cb",))
        rref.notifyOnDisconnect(self._user_handler, rref)      # as the documentation recommends
        self.in_user_cb += 1
        try:
            for op in rref.cb_script:
                self.user_call(op)
        finally:
            self.in_user_cb -= 1
        if self.cb_raises:
            raise ValueError("user callback raises")

    def _user_handler(self, rref):
        for op in rref.hscript:
            self.user_call(op)

    def user_call(self, op):
        """the user calls stopConnecting()/reset(): from top level, from inside the callback, or from a queued event"""
        if self.cur_ok is not None and self.in_user_cb:
            self.cur_ok[1].append(op)
        else:
            self.invoked.append((op,))
        if op == "stop":
            if self.first_stop_before_start is None:
                self.first_stop_before_start = self.r._tub is None
            self.r.stopConnecting()
            self.stop_returned = True
        elif op == "reset":
            self.r.reset()
        else:
            raise ValueError(op)

    # -- what can happen
    def inflight(self):
        return [d for d in self.tub.pending if not d.called and d.callbacks]

    def unclaimed(self):
        return [d for d in self.inflight() if d not in self.claimed]

    def watched(self):
        return [x for x in self.rrefs if x.recon and not x.lost]

    def pending_calls(self):
        return list(self.clock.getDelayedCalls())

    def queue_len(self):
        return len(self.evclock.calls)

    def enabled(self, name):
        if name == "start":
            return self.r._tub is None
        if name in ("ok", "fail"):
            return bool(self.unclaimed())
        if name in ("lost", "lose"):
            return bool(self.watched())
        if name in ("timer", "elapse"):
            return bool(self.pending_calls()) and not self.queue_len()
        if name == "turn":
            return bool(self.queue_len())
        return True

    def turn(self):
        """one reactor turn of the eventual-send queue"""
        calls = self.evclock.calls
        if not calls:
            return False
        dc = calls[0]
        calls.remove(dc)
        dc.called = 1
        dc.func(*dc.args, **dc.kw)
        return True

    def drain(self):
        for i in range(1000):
            if not self.turn():
                return
        raise RuntimeError("eventual queue does not drain")

    def _fire(self, op, d):
        name = op[0]
        if name == "ok":
            x = RRef(self)
            x.cb_script = tuple(op[1]) if len(op) > 1 else ()
            self.rrefs.append(x)
            d.addErrback(lambda f: self.errors.append(f) if not f.check(ValueError) else None)
            d.callback(x)
        else:
            self.rnd.z = float(op[1])
            self.cur_z = (Fraction(op[1]), op[2])
            d.addErrback(lambda f: self.errors.append(f))
            d.errback(make_failure(op[2]))

    def micro(self, op):
        """perform one micro-operation; -> outputs in the order they happened.  Nothing is drained."""
        del self.log[:]
        name = op[0]
        if name == "start":
            self.invoked.append(("start",))
            self.r.startConnecting(self.tub)
        elif name in ("ok", "fail"):
            self._fire(op, self.unclaimed()[0])
        elif name == "lose":
            x = self.watched()[0]
            x.hscript = tuple(op[1]) if len(op) > 1 else ()
            x.lose()
        elif name == "turn":
            self.turn()
        elif name == "timer":
            dc = self.pending_calls()[0]
            self.clock.rightNow = max(self.clock.rightNow, dc.getTime())
            self.clock.advance(0)
        elif name == "elapse":
            dc = self.pending_calls()[0]
            self.invoked.append(("elapse",))
            self.clock.rightNow += (dc.getTime() - self.clock.rightNow) / 2.0
            self.clock.advance(0)
        elif name in ("reset", "stop"):
            self.user_call(name)
        elif name == "later":
            inner = op[1]
            if inner[0] in ("ok", "fail"):
                d = self.unclaimed()[0]
                self.claimed.append(d)
                ev.eventually(self._fire, inner, d)
            else:
                ev.eventually(self.user_call, inner[0])
        else:
            raise ValueError(op)
        self._collect_logged()
        return list(self.log)

    def _collect_logged(self):
        new = E.logged_errors[self.n_logged:]
        self.n_logged = len(E.logged_errors)
        for e in new:
            f = e.get("failure")
            if f is not None and f.check(ValueError) and "user callback raises" in str(f.value):
                continue
            if f is not None:
                self.errors.append(f)

    def do(self, ev_):
        """perform one atomic event and let the eventual queue drain; -> outputs in the order they happened"""
        name = ev_[0]
        if name == "lost":
            outs = self.micro(("lose",))
        elif name == "ok":
            outs = self.micro(("ok", ()))
        else:
            outs = self.micro(ev_)
        keep = list(outs)
        del self.log[:]
        self.drain()
        self._collect_logged()
        return keep + list(self.log)

    def take_invoked(self):
        out = []
        for e in self.invoked:
            if e[0] == "ok":
                out.append(("ok", tuple(e[1])))
            else:
                out.append(tuple(e))
        del self.invoked[:]
        return out

    def snapshot(self):
        r = self.r
        calls = self.pending_calls()
        tm = r._timer
        referenced = 1 if (tm and tm in calls) else 0
        remaining = r.getDelayUntilNextAttempt()
        return dict(active=bool(r._active), stopped=getattr(r, "_stopped", None), tub=r._tub is not None,
                    info=r.getReconnectionInfo().state, inflight=len(self.inflight()), watching=self.n_watch - self.n_disc,
                    leaked=len(calls) - referenced, timer_ref=bool(tm), timer=remaining, delay=r._delay,
                    ncalls=len(calls), remaining=[c.getTime() - self.clock.seconds() for c in calls])


def flags_of(snap):
    return ((1 if snap["active"] else 0) + 2 * (1 if snap["stopped"] else 0) + 4 * (1 if snap["tub"] else 0)
            + 8 * INFO.get(snap["info"], 99) + 32 * snap["inflight"] + 256 * snap["watching"] + 2048 * snap["leaked"])


def ev_json(ev):
    return [ev[0]] + ([str(ev[1]), ev[2]] if ev[0] == "fail" else [])


def ev_from_json(j):
    return (j[0], Fraction(j[1]), int(j[2])) if j[0] == "fail" else (j[0],)


class Violation(Exception):
    def __init__(self, sig, what):
        Exception.__init__(self, what)
        self.sig = sig
        self.what = what


def run_sequence(events, cb_raises=False, oracle=True, only_last=False, options=None):
    """run the events on a fresh real Reconnector.  -> (observations, violation or None, n_performed)
    observation per performed event: (flags, [output codes], delay float, timer float or None).
    Events that are not enabled stop the run (the caller only passes permitted sequences, except for DFS probing).
    options: the knobs of the Reconnector (OPTION_SETS); the oracle reads the tunables off the real object."""
    drv = Driver(cb_raises, options)
    obs = []
    viol = None
    try:
        R = drv.r
        bound = R.maxDelay * (1 + (R.jitter or 0) * ZMAX)
        stopped_at = None
        started_before_stop = None
        since_ok = None         # None | "lost" | "timer"  (progress of: success, loss, timer, first failure)
        for i, ev in enumerate(events):
            if not drv.enabled(ev[0]):
                break
            before = (drv.n_cb, drv.n_getref, drv.n_watch, drv.clock.n_later)
            was_active = bool(R._active)
            try:
                outs = drv.do(ev)
            except Exception as e:       # startConnecting/reset/stopConnecting or a callback of the Reconnector raised
                import traceback
                tb = traceback.format_exc()
                viol = viol or Violation("oracle/exception-in-reconnector", "event %d %r raised %s: %s"
                                         % (i, ev, type(e).__name__, tb[-500:]))
                snap = drv.snapshot()
                obs.append((flags_of(snap), [OUT[o[0]] for o in drv.log], snap["delay"], snap["timer"], []))
                return obs, viol, len(events)
            snap = drv.snapshot()
            if not only_last or i == len(events) - 1:
                obs.append((flags_of(snap), [OUT[o[0]] for o in outs], snap["delay"], snap["timer"],
                            [o[1] for o in outs if o[0] in ("timer", "reset")]))
            else:
                obs.append(None)
            if drv.errors and viol is None:
                viol = Violation("oracle/exception-in-reconnector", "event %d %r: %s" % (i, ev, drv.errors[0].getTraceback()[-600:]))
            if not oracle or viol is not None:
                continue
            after = (drv.n_cb, drv.n_getref, drv.n_watch, drv.clock.n_later)
            # --- the property, read off the real object
            if ev[0] == "stop" and stopped_at is None:
                stopped_at = i
                started_before_stop = snap["tub"]
            if stopped_at is not None:
                kinds = ["callback", "attempt", "watch", "timer"]
                grew = [k for k, a, b in zip(kinds, before, after) if b > a]
                grew += [k for k in drv.late if k not in grew]      # judged on the order of the actual invocations
                if grew or snap["ncalls"] or snap["active"]:
                    what = ("after stopConnecting (event %d) event %d %r: %s; pending delayed calls %d, _active %r"
                            % (stopped_at, i, ev, ", ".join("%s started/invoked" % g for g in grew) or "nothing new",
                               snap["ncalls"], snap["active"]))
                    if not started_before_stop:
                        viol = Violation("oracle/stop-before-start-reactivated", what)
                    elif "callback" in grew:
                        viol = Violation("oracle/callback-after-stop", what)
                    elif "attempt" in grew:
                        viol = Violation("oracle/attempt-after-stop", what)
                    else:
                        viol = Violation("oracle/timer-after-stop", what)
                    continue
            if snap["active"]:
                n = snap["inflight"] + snap["watching"] + snap["ncalls"]
                if n != 1:
                    viol = Violation("oracle/activity-count", "active Reconnector has %d activities after event %d %r "
                                     "(attempts in flight %d, watched connections %d, pending timers %d)"
                                     % (n, i, ev, snap["inflight"], snap["watching"], snap["ncalls"]))
                    continue
            for dl in snap["remaining"]:
                if not (-1e-9 <= dl <= bound * (1 + 1e-9)):
                    viol = Violation("oracle/delay-out-of-range", "retry timer due in %r s after event %d %r (allowed 0..%r)"
                                     % (dl, i, ev, bound))
            if ev[0] == "timer" and was_active and after[1] != before[1] + 1:
                viol = Violation("oracle/no-retry", "retry timer expired (event %d) but %d connection attempts were started"
                                 % (i, after[1] - before[1]))
            if ev[0] == "fail" and was_active and snap["ncalls"] != 1:
                viol = Violation("oracle/no-retry", "attempt failed (event %d) but no retry timer is pending" % i)
            # backoff restarts after a success: the loss schedules initialDelay, the next failure one factor more
            if ev[0] == "lost" and was_active:
                set_ = [o[1] for o in outs if o[0] == "timer"]
                if set_ != [R.initialDelay] or snap["ncalls"] != 1:
                    viol = Violation("oracle/backoff-not-restarted", "connection lost (event %d): retry timers set %r "
                                     "(pending %d), expected [initialDelay=%r]" % (i, set_, snap["ncalls"], R.initialDelay))
                since_ok = "lost"
            elif ev[0] == "timer" and since_ok == "lost":
                since_ok = "timer"
            elif ev[0] == "fail" and since_ok == "timer" and was_active:
                mu = min(R.initialDelay * R.factor, R.maxDelay)
                want = mu * (1 + float(ev[1]) * R.jitter) if R.jitter else mu
                set_ = [o[1] for o in outs if o[0] == "timer"]
                got = set_[0] if len(set_) == 1 else None
                if got is None or abs(got - want) > 1e-9 * max(1.0, abs(want)):
                    viol = Violation("oracle/backoff-not-restarted", "first failure after a successful connection (event %d): "
                                     "retry in %r s, expected %r" % (i, got, want))
                since_ok = None
            elif ev[0] in ("reset", "elapse"):
                pass
            else:
                since_ok = None
        return obs, viol, len(obs)
    finally:
        drv.close()


def option_witnesses():
    """fixed histories of the family 'the knobs do not change the state machine': together they walk through every
    method of the Reconnector and every branch in it (all five failure types, a retry after a failure AND a retry after
    a lost connection, reset while waiting / connected / stopped, stop in every state, the late events after a stop)
    -> list of (name, events)"""
    F = Fraction
    return [
        ("every-branch", [("start",), ("fail", F(1, 2), 0), ("timer",), ("fail", F(-1), 1), ("reset",), ("timer",),
                          ("fail", F(2), 2), ("elapse",), ("timer",), ("fail", F(0), 3), ("timer",), ("fail", F(8), 4),
                          ("timer",), ("ok",), ("lost",), ("timer",), ("fail", F(1, 2), 1), ("timer",), ("ok",), ("reset",),
                          ("lost",), ("elapse",), ("reset",), ("timer",), ("ok",), ("stop",), ("lost",), ("reset",)]),
        ("lost-right-after-the-first-success", [("start",), ("ok",), ("lost",), ("timer",), ("ok",), ("lost",), ("timer",),
                                                ("fail", F(-8), 2), ("timer",), ("ok",), ("lost",), ("stop",)]),
        ("stop-with-attempt-in-flight", [("start",), ("fail", F(1, 2), 3), ("timer",), ("stop",), ("ok",), ("reset",)]),
        ("stop-in-flight-then-failure", [("start",), ("ok",), ("lost",), ("timer",), ("stop",), ("fail", F(2), 2), ("reset",)]),
        ("stop-while-waiting", [("start",), ("fail", F(8), 4), ("stop",), ("reset",)]),
        ("stop-before-start", [("stop",), ("start",), ("reset",)]),
    ]


MICRO_EXHAUSTIVE = [("start",), ("ok", ()), ("ok", ("stop",)), ("fail",), ("lose", ()), ("lose", ("stop",)), ("turn",),
                    ("timer",), ("reset",), ("stop",), ("later", ("ok", ())), ("later", ("stop",))]
MICRO_ALL = MICRO_EXHAUSTIVE + [("ok", ("reset",)), ("ok", ("reset", "stop")), ("lose", ("reset",)), ("elapse",),
                                ("later", ("fail",)), ("later", ("reset",))]


def micro_name(op):
    if op[0] in ("ok", "lose"):
        return op[0] + ("{" + ",".join(op[1]) + "}" if len(op) > 1 and op[1] else "")
    if op[0] == "later":
        return "later:" + micro_name(op[1])
    return op[0]


def micro_json(op):
    if op[0] == "fail":
        return ["fail", str(op[1]), op[2]]
    if op[0] in ("ok", "lose"):
        return [op[0], list(op[1]) if len(op) > 1 else []]
    if op[0] == "later":
        return ["later", micro_json(op[1])]
    return [op[0]]


def micro_from_json(j):
    if j[0] == "fail":
        return ("fail", Fraction(j[1]), int(j[2]))
    if j[0] in ("ok", "lose"):
        return (j[0], tuple(j[1]))
    if j[0] == "later":
        return ("later", micro_from_json(j[1]))
    return (j[0],)


def micro_enabled(drv, op):
    name = op[0]
    if name == "later":
        return drv.enabled(op[1][0])
    return drv.enabled(name)


def run_micro(ops, cb_raises=False, options=None):
    """run micro-operations (explicit reactor turns, re-entrant user calls, queued operations) on a fresh real
    Reconnector.  -> (groups, violation or None, n_performed); one group per performed operation:
    (model events in the order the Reconnector's entry points were REALLY invoked, observation).
    After the last operation the eventual queue is drained (an extra, final group) so that whatever is still queued
    gets its chance to misbehave."""
    drv = Driver(cb_raises, options)
    groups = []
    viol = None
    try:
        R = drv.r
        bound = R.maxDelay * (1 + (R.jitter or 0) * ZMAX)
        todo = list(ops) + [None]
        for i, op in enumerate(todo):
            final = op is None
            if not final and not micro_enabled(drv, op):
                break
            try:
                if final:
                    del drv.log[:]
                    drv.drain()
                    drv._collect_logged()
                    outs = list(drv.log)
                else:
                    outs = drv.micro(op)
            except Exception as e:
                import traceback
                viol = viol or Violation("oracle/exception-in-reconnector", "operation %d %r raised %s: %s"
                                         % (i, op, type(e).__name__, traceback.format_exc()[-500:]))
                try:        # the state the raising operation left behind (callers index the groups by operation)
                    snap = drv.snapshot()
                    groups.append((drv.take_invoked(), (flags_of(snap), [OUT[o[0]] for o in drv.log], snap["delay"],
                                                        snap["timer"], [])))
                except Exception:
                    groups.append(([], (0, [], 0.0, None, [])))
                return groups, viol, len(ops)
            snap = drv.snapshot()
            evs = drv.take_invoked()
            groups.append((evs, (flags_of(snap), [OUT[o[0]] for o in outs], snap["delay"], snap["timer"],
                                 [o[1] for o in outs if o[0] in ("timer", "reset")])))
            if viol is not None:
                continue
            where = "the final drain of the eventual queue" if final else "operation %d %s" % (i, micro_name(op))
            if drv.errors:
                viol = Violation("oracle/exception-in-reconnector", "%s: %s" % (where, drv.errors[0].getTraceback()[-600:]))
                continue
            if drv.late or (drv.stop_returned and (snap["ncalls"] or snap["active"])):
                what = ("%s, after stopConnecting() had returned: %s; pending retry timers %d, _active %r"
                        % (where, ", ".join({"callback": "the user callback was invoked", "attempt": "getReference was called",
                                             "watch": "notifyOnDisconnect was called", "timer": "callLater was called"}[k]
                                            for k in drv.late) or "nothing new", snap["ncalls"], snap["active"]))
                if drv.first_stop_before_start:
                    viol = Violation("oracle/stop-before-start-reactivated", what)
                elif "callback" in drv.late:
                    viol = Violation("oracle/callback-after-stop", what)
                elif "attempt" in drv.late:
                    viol = Violation("oracle/attempt-after-stop", what)
                else:
                    viol = Violation("oracle/timer-after-stop", what)
                continue
            if snap["active"]:
                n = snap["inflight"] + snap["watching"] + snap["ncalls"]
                if n != 1:
                    viol = Violation("oracle/activity-count", "active Reconnector has %d activities after %s (attempts in "
                                     "flight %d, watched connections %d, pending timers %d)"
                                     % (n, where, snap["inflight"], snap["watching"], snap["ncalls"]))
                    continue
            for dl in snap["remaining"]:
                if not (-1e-9 <= dl <= bound * (1 + 1e-9)):
                    viol = Violation("oracle/delay-out-of-range", "retry timer due in %r s after %s (allowed 0..%r)"
                                     % (dl, where, bound))
            # a lost connection restarts the backoff: the timer it sets is initialDelay
            if ("lost",) in evs and snap["active"]:
                set_ = [o[1] for o in outs if o[0] == "timer"]
                if set_ != [R.initialDelay]:
                    viol = Violation("oracle/backoff-not-restarted", "%s delivered the loss of the connection: retry timers set "
                                     "%r, expected [initialDelay=%r]" % (where, set_, R.initialDelay))
        return groups, viol, len(groups) - (1 if len(groups) == len(ops) + 1 else 0)
    finally:
        drv.close()


def dfs_micro(depth, on_node, alphabet=None, options=None, on_groups=None):
    """every sequence of micro-operations (from `alphabet`) of length <= depth that the real object permits, as a tree
    with shared prefixes.  -> list of root nodes; node = dict(op, path, evs, obs, kids) where evs/obs are what the last
    operation of the path made the Reconnector do (entry points actually invoked; observation without draining).
    on_node(path, violation) for every sequence (the violation includes what the final drain of the queue revealed).
    A sequence with a violation is not extended."""
    alphabet = alphabet or MICRO_EXHAUSTIVE

    def instantiate(op, d):
        if op == ("fail",):
            return ("fail", ZS[d % len(ZS)], d)
        if op == ("later", ("fail",)):
            return ("later", ("fail", ZS[d % len(ZS)], d))
        return op

    def rec(path, n):
        d = len(path)
        kids = []
        if n > 0:
            for a in alphabet:
                op = instantiate(a, d)
                p = path + [op]
                groups, viol, done = run_micro(p, options=options)
                if done < len(p):
                    continue
                on_node(p, viol)
                if on_groups is not None and len(groups) >= len(p):
                    on_groups(p, groups)
                node = dict(op=op, path=p, evs=groups[len(p) - 1][0], obs=groups[len(p) - 1][1], kids=[])
                if viol is None:
                    node["kids"] = rec(p, n - 1)
                    kids.append(node)
        return kids
    return rec([], depth)


def run_sync_variant(events, async_obs, cb_raises=False):
    """the same history, but every attempt whose outcome directly follows its start (start|timer, then ok|fail) completes
    synchronously: getReference returns an already-fired Deferred (bad FURL, Tub shut down, loopback).  After each such
    pair the real object must be in the state the asynchronous run reached, having produced the same outputs.
    -> (number of synchronous completions, Violation or None)"""
    drv = Driver(cb_raises)
    n = 0
    try:
        i = 0
        while i < len(events):
            ev = events[i]
            if not drv.enabled(ev[0]):
                return n, Violation("oracle/sync-completion-differs", "event %d %r is not enabled in the synchronous variant" % (i, ev))
            pair = (ev[0] in ("start", "timer") and i + 1 < len(events) and events[i + 1][0] in ("ok", "fail")
                    and not (ev[0] == "start" and getattr(drv.r, "_stopped", False)))
            try:
                if pair:
                    drv.tub.prearmed = events[i + 1]
                    outs = drv.do(ev)
                    if drv.tub.prearmed is not None:
                        return n, Violation("oracle/sync-completion-differs", "event %d %r started no attempt" % (i, ev))
                    leftover = []
                    drv.tub.last_sync.addErrback(leftover.append)     # whatever the Reconnector's own callbacks left behind
                    if leftover and not leftover[0].check(ValueError):
                        return n, Violation("oracle/exception-in-reconnector", "synchronous variant, event %d %r: %s"
                                            % (i, ev, leftover[0].getTraceback()[-500:]))
                    want_outs = async_obs[i][1] + async_obs[i + 1][1]
                    i += 1
                    n += 1
                else:
                    outs = drv.do(ev)
                    want_outs = async_obs[i][1]
            except Exception as e:
                import traceback
                return n, Violation("oracle/exception-in-reconnector", "synchronous variant, event %d %r raised %s: %s"
                                    % (i, ev, type(e).__name__, traceback.format_exc()[-500:]))
            snap = drv.snapshot()
            got = (flags_of(snap), [OUT[o[0]] for o in outs], snap["delay"], snap["timer"])
            want = (async_obs[i][0], want_outs, async_obs[i][2], async_obs[i][3])
            if got != want:
                return n, Violation("oracle/sync-completion-differs", "after event %d %r (attempt completed synchronously: %r) "
                                    "the Reconnector is in (flags, outputs, delay, timer) = %r, the asynchronous run reached %r"
                                    % (i, events[i], pair, got, want))
            i += 1
        return n, None
    finally:
        drv.close()


def streak_witnesses(lengths):
    """fixed witnesses of the family 'unbounded runs of consecutive failures' (an outage of weeks): N failed attempts in
    a row, each followed by the expiry of the retry timer.  Whatever the back-off is computed from (the previous delay,
    a failure counter, a table), it has to stay a finite number in [0, max] for EVERY N: factor**N leaves the range of a
    double at N = 710 (e) / 1475 (phi).  Variants: draws 0 / alternating +-1/2; a reset() every 97 failures; a
    success + loss in the middle (the streak counter restarts); the streak ends with a success.
    -> list of (name, events)"""
    out = []
    for n in lengths:
        for variant in ("plain", "jitter", "resets", "restart", "then-ok"):
            evs = [("start",)]
            for i in range(n):
                z = Fraction(0) if variant == "plain" else Fraction((-1) ** i, 2)
                evs.append(("fail", z, i % 5))
                if variant == "resets" and i % 97 == 96:
                    evs.append(("reset",))
                evs.append(("timer",))
                if variant == "restart" and i == n // 2:
                    evs += [("ok",), ("lost",), ("timer",)]
            if variant == "then-ok":
                evs += [("ok",), ("lost",), ("timer",), ("fail", Fraction(0), 1)]
            out.append(("streak-%d-%s" % (n, variant), evs))
    return out


def dfs_real(depth, on_node, options=None):
    """pre-order enumeration of every sequence the real object permits, same order as Reconnector.dfs.
    on_node(path, observation, violation)"""
    def rec(path, n):
        if n == 0:
            return
        d = len(path)
        for name in ALPHABET:
            ev = ("fail", ZS[d % len(ZS)], d) if name == "fail" else (name,)
            p = path + [ev]
            obs, viol, done = run_sequence(p, only_last=True, options=options)
            if done < len(p):
                continue
            on_node(p, obs[-1], viol)
            rec(p, n - 1)
    rec([], depth)


# ------------------------------------------------------------------------- real Tubs on the in-memory network
def unstarted_tub(net, name, pemdata):
    """like implenv.make_tub but without startService"""
    import foolscap.pb as pb
    from foolscap.api import Tub
    t = Tub(certData=pemdata)
    t.removeAllConnectionHintHandlers()
    t.addConnectionHintHandler("fake", E.FakeHandler(net))
    l = pb.Listener.__new__(pb.Listener)
    l._tub = t
    l._test_options = {}
    l._redirects = {}
    l._negotiationClass = t.negotiationClass
    l._lp = None
    l._ep = "fake"
    t.listeners.append(l)
    t.setLocation("fake:%s:1" % name)
    net.tubs[name] = t
    return t


def settle(net, rounds=30):
    for i in range(rounds):
        E.turn()
        if not net.deliverable():
            break
        net.run()
    E.turn()


def real_tub_scenarios(verbose=False):
    """-> list of (name, sig, ok, detail): scenarios with the real Tub / Broker / RemoteReference
    verbose: the user switches the Reconnector's logging on, on the instance connectTo returned"""
    from foolscap.api import Referenceable
    out = []
    saved = rc.random
    rnd = ScriptedRandom()
    rc.random = rnd
    try:
        with E.quiet():
            # 1. queued connectTo, stopConnecting, then startService  (regression: fixed by 6967c1e)
            E.reset_clock()
            net = E.Net()
            ps = E.pems_sorted(2)
            B = E.make_tub(net, "B", ps[1][1])
            furl = B.registerReference(Referenceable(), "obj")
            A = unstarted_tub(net, "A", ps[0][1])
            cbs = []
            r = A.connectTo(furl, cbs.append)
            r.verbose = verbose
            queued = (r._active is False and r._tub is None)
            r.stopConnecting()
            A.startService()
            settle(net)
            E.clock.advance(5)
            settle(net)
            ok = queued and not cbs and not r._active and not r._timer and r.getReconnectionInfo().state == 'unstarted'
            out.append(("stop-before-start", "oracle/stop-before-start-reactivated", ok,
                        "connectTo on a Tub that is not running, stopConnecting, startService: callbacks %d, _active %r, "
                        "state %r, still registered %r" % (len(cbs), r._active, r.getReconnectionInfo().state,
                                                           r in A.reconnectors)))
            # 2. queued connectTo is started by startService and connects
            E.reset_clock()
            net = E.Net()
            B = E.make_tub(net, "B", ps[1][1])
            furl = B.registerReference(Referenceable(), "obj")
            A = unstarted_tub(net, "A", ps[0][1])
            cbs = []
            r = A.connectTo(furl, cbs.append)
            r.verbose = verbose
            A.startService()
            settle(net)
            ok = len(cbs) == 1 and r._active and r.getReconnectionInfo().state == "connected"
            out.append(("queued-start", "oracle/no-retry", ok, "queued connectTo then startService: callbacks %d state %r"
                        % (len(cbs), r.getReconnectionInfo().state)))
            # 3. loss -> retry after initialDelay -> callback again; then stop with an attempt in flight
            link = [l for l in net.links if not all(e.lost for e in l.ends)][-1]
            link.cut()
            settle(net)
            st = r.getReconnectionInfo().state
            dl = r.getDelayUntilNextAttempt()
            ok = st == "waiting" and dl is not None and abs(dl - r.initialDelay) < 1e-9 and len(cbs) == 1
            out.append(("loss-schedules-retry", "oracle/backoff-not-restarted", ok,
                        "connection cut: state %r, retry in %r s, callbacks %d" % (st, dl, len(cbs))))
            E.clock.advance(r.initialDelay)
            settle(net)
            ok = len(cbs) == 2 and r.getReconnectionInfo().state == "connected"
            out.append(("reconnects", "oracle/no-retry", ok, "after the retry delay: callbacks %d, state %r"
                        % (len(cbs), r.getReconnectionInfo().state)))
            # 4. lose it again, let the timer start an attempt, stop while the attempt is in flight, let it succeed
            link = [l for l in net.links if not all(e.lost for e in l.ends)][-1]
            link.cut()
            settle(net)
            E.clock.advance(r.initialDelay)     # timer fires: getReference started, bytes still undelivered
            inflight = r.getReconnectionInfo().state == "connecting"
            r.stopConnecting()
            settle(net)
            E.clock.advance(10)
            settle(net)
            ok = inflight and len(cbs) == 2 and not r._active and not r._timer
            out.append(("stop-with-attempt-in-flight", "oracle/callback-after-stop", ok,
                        "stopConnecting while connecting (in flight: %r): callbacks %d (want 2), _active %r, timer %r"
                        % (inflight, len(cbs), r._active, bool(r._timer))))
            # 5. target that does not exist: failures back off, Tub.stopService silences it
            E.reset_clock()
            net = E.Net()
            A = E.make_tub(net, "A", ps[0][1])
            cbs = []
            r = A.connectTo("pb://%s@fake:nowhere:1/obj" % ps[1][0], cbs.append)
            r.verbose = verbose
            settle(net)
            delays = []
            for i in range(4):
                dl = r.getDelayUntilNextAttempt()
                delays.append(dl)
                if dl is None:
                    break
                E.clock.advance(dl)
                settle(net)
            want = [min(r.initialDelay * r.factor ** (k + 1), r.maxDelay) for k in range(4)]
            ok = all(d is not None and abs(d - w) < 1e-6 * w for d, w in zip(delays, want)) and not cbs
            out.append(("backoff-on-real-tub", "oracle/delay-out-of-range", ok, "retry delays %r, expected %r" % (delays, want)))
            A.stopService()
            settle(net)
            mine = [c for c in E.clock.getDelayedCalls() if getattr(c.func, "__self__", None) is r]
            ok = not r._active and not mine and not cbs
            out.append(("tub-stop-silences", "oracle/timer-after-stop", ok,
                        "Tub.stopService: _active %r, reconnector timers pending %d" % (r._active, len(mine))))
    except Exception as e:
        import traceback
        out.append(("scenario-raised-after-%s" % (out[-1][0] if out else "nothing"), "oracle/exception-in-reconnector", False,
                    "%s: %s" % (type(e).__name__, traceback.format_exc()[-700:])))
    finally:
        rc.random = saved
        E.reset_clock()
    return out


# ------------------------------------------------------------------------- real Tub + Broker histories
# The Reconnector of Tub A keeps a connection to Tub B over the in-memory network.  While it is connected, traffic of
# every kind is put in flight (in either direction, at every stage of delivery), then the connection is lost, in one of
# several ways, with or without a reactor turn between the last bytes and the loss.  The Reconnector invariant is then
# evaluated on the REAL stack: attempts in flight are the Deferreds A.getReference gave the Reconnector, a watched
# connection is a Broker that is still connected and still holds the Reconnector's disconnect watcher (or has queued its
# delivery), timers are the reactor's pending calls of _timer_expired.
TRAFFIC = ["a2b_call", "a2b_only", "b2a_call", "b2a_only", "a2b_gift"]
LOSSES = ["cut", "b_hangup", "a_hangup"]


class RealStack:
    def __init__(self, verbose=False):
        from foolscap.api import Referenceable
        E.reset_clock()
        self.saved_random = rc.random
        self.rnd = ScriptedRandom()
        rc.random = self.rnd
        self.net = E.Net()
        ps = E.pems_sorted(2)
        stack = self

        class Observer(Referenceable):
            def remote_ping(self, x):
                stack.a_ran.append(("ping", x))
                return x

            def remote_bye(self, x):
                stack.a_ran.append(("bye", x))

        class Server(Referenceable):
            def remote_subscribe(self, observer):
                stack.observers.append(observer)

            def remote_echo(self, x):
                stack.b_ran.append(("echo", x))
                return x

            def remote_note(self, x):
                stack.b_ran.append(("note", x))

            def remote_take(self, obj):
                stack.b_ran.append(("take",))
        self.Observer = Observer
        self.a_ran, self.b_ran, self.observers = [], [], []
        self.B = E.make_tub(self.net, "B", ps[1][1])
        self.furl = self.B.registerReference(Server(), "server")
        self.A = unstarted_tub(self.net, "A", ps[0][1])
        self.cbs = []
        self.user_lost = 0
        self.stop_returned = False
        self.late = []
        self.invoked = []
        self.attempts = []
        self.errors = []
        self.n_logged = len(E.logged_errors)
        o_getref = self.A.getReference

        def getref(url):
            d = o_getref(url)
            if url == self.furl:
                if self.stop_returned:
                    self.late.append("attempt")
                box = dict(done=False)
                self.attempts.append(box)

                def fired(res):
                    box["done"] = True
                    return res
                d.addBoth(fired)        # before the Reconnector adds its own callbacks
            return d
        self.A.getReference = getref
        self.r = R = self.A.connectTo(self.furl, self._cb, "extra")
        if verbose:
            R.verbose = True        # as foolscap's own tests switch it on: on the instance connectTo returned
        o_connected, o_failed, o_disc, o_timer = R._connected, R._failed, R._disconnected, R._timer_expired

        def w_connected(rref):
            self.invoked.append(("ok", ()))
            return o_connected(rref)

        def w_failed(f):
            self.invoked.append(("fail", Fraction(0), 0))
            return o_failed(f)

        def w_disconnected():
            self.invoked.append(("lost",))
            return o_disc()

        def w_timer():
            self.invoked.append(("timer",))
            return o_timer()
        R._connected, R._failed, R._disconnected, R._timer_expired = w_connected, w_failed, w_disconnected, w_timer
        self.w_disconnected = w_disconnected
        o_start = R.startConnecting

        def w_start(tub):
            self.invoked.append(("start",))
            return o_start(tub)
        R.startConnecting = w_start

    def close(self):
        rc.random = self.saved_random
        E.reset_clock()

    def _cb(self, rref, extra):
        if self.stop_returned:
            self.late.append("callback")
        self.cbs.append(rref)
        rref.notifyOnDisconnect(self._user_lost)
        rref.callRemote("subscribe", self.Observer()).addErrback(lambda f: None)

    def _user_lost(self):
        self.user_lost += 1

    # -- network, without implicit reactor turns
    def guarded(self, f, *a):
        """what the reactor does with an exception escaping from a protocol callback: log it and go on"""
        try:
            return f(*a)
        except Exception as e:
            import traceback
            tb = traceback.extract_tb(e.__traceback__)
            self.errors.append("%s(%s) in %s" % (type(e).__name__, e, " <- ".join("%s:%d" % (os.path.basename(fr.filename), fr.lineno)
                                                                                    for fr in reversed(tb[-3:]))))

    def live_link(self):
        ls = [l for l in self.net.links if not any(e.lost or e.closed for e in l.ends)]
        return ls[-1] if ls else None

    def deliver(self, link, side, nbytes=None):
        """hand the next chunk written by `side` to the other end; no reactor turn"""
        q = link.q[side]
        if not q:
            return False
        d = q[0]
        dst = link.ends[1 - side]
        if d is not None and nbytes is not None and nbytes < len(d):
            q[0] = d[nbytes:]
            d = d[:nbytes]
        else:
            q.pop(0)
        if d is None:
            if not dst.lost:
                dst.lost = True
                dst.closed = True
                self.guarded(dst.protocol.connectionLost, failure.Failure(error.ConnectionDone()))
        elif not dst.closed and not dst.lost:
            self.guarded(dst.protocol.dataReceived, d)
        return True

    def deliver_all(self, link, side):
        while self.deliver(link, side):
            pass

    def local_closes(self, link):
        for e in list(link.pending_local_close):
            link.pending_local_close.remove(e)
            if e.protocol and not e.lost:
                e.lost = True
                self.guarded(e.protocol.connectionLost, failure.Failure(error.ConnectionDone()))

    def cut(self, link):
        link.q = {0: [], 1: []}
        for e in link.ends:
            e.closed = True
            if e in link.pending_local_close:
                link.pending_local_close.remove(e)
        for e in link.ends:
            if e.protocol and not e.lost:
                e.lost = True
                self.guarded(e.protocol.connectionLost, failure.Failure(error.ConnectionLost()))

    def turn(self):
        self.guarded(E.turn)

    def settle(self, rounds=60):
        for i in range(rounds):
            self.turn()
            moved = False
            for l in list(self.net.links):
                for side in (0, 1):
                    while self.deliver(l, side):
                        moved = True
                        self.turn()
                if l.pending_local_close:
                    self.local_closes(l)
                    moved = True
            if not moved:
                break
        self.turn()

    # -- observation of the real stack
    def my_timers(self):
        return [c for c in E.clock.getDelayedCalls() if getattr(c.func, "__name__", "") == "w_timer"]

    def watched_live(self):
        n = 0
        for b in list(self.A.brokers.values()) + [getattr(x.tracker, "broker", None) for x in self.cbs[-1:]]:
            pass
        seen = set()
        for x in self.cbs:
            b = x.tracker.broker
            if id(b) in seen:
                continue
            seen.add(id(b))
            if not b.disconnected and any(m[0] == self.w_disconnected for m in b.disconnectWatchers):
                n += 1
        return n

    def queued_losses(self):
        q = ev._theSimpleQueue
        return len([1 for (cb, a, k) in q._events if cb == self.w_disconnected])

    def activities(self):
        inflight = len([b for b in self.attempts if not b["done"]])
        return dict(inflight=inflight, watching=self.watched_live() + self.queued_losses(), timers=len(self.my_timers()))

    def check(self, where):
        """the invariant on the real stack, at a quiescent point"""
        new = E.logged_errors[self.n_logged:]
        self.n_logged = len(E.logged_errors)
        R = self.r
        act = self.activities()
        n = act["inflight"] + act["watching"] + act["timers"]
        if self.late or (self.stop_returned and (act["timers"] or R._active)):
            sig = "oracle/callback-after-stop" if "callback" in self.late else (
                "oracle/attempt-after-stop" if "attempt" in self.late else "oracle/timer-after-stop")
            return Violation(sig, "%s: after stopConnecting() had returned: %s; retry timers %d, _active %r"
                             % (where, ", ".join(self.late) or "nothing new", act["timers"], R._active))
        if R._active and n != 1:
            extra = ""
            if self.errors:
                extra = "; exceptions that escaped to the reactor: " + " | ".join(self.errors[:2])
            return Violation("oracle/activity-count", "%s: the active Reconnector (state %r) has %d activities on the real "
                             "Tub/Broker stack: attempts in flight %d, live watched connections %d, retry timers %d; the "
                             "user's own disconnect handler fired %d times for %d connections%s"
                             % (where, R.getReconnectionInfo().state, n, act["inflight"], act["watching"], act["timers"],
                                self.user_lost, len(self.cbs), extra))
        bound = R.maxDelay * (1 + R.jitter * ZMAX)
        for c in self.my_timers():
            dl = c.getTime() - E.clock.seconds()
            if not (-1e-9 <= dl <= bound * (1 + 1e-9)):
                return Violation("oracle/delay-out-of-range", "%s: retry timer due in %r s" % (where, dl))
        return None

    def observe(self):
        """(model events since the last observation, observation) -- outputs are not observed on this stack"""
        R = self.r
        act = self.activities()
        tm = R._timer
        snap = dict(active=bool(R._active), stopped=getattr(R, "_stopped", None), tub=R._tub is not None,
                    info=R.getReconnectionInfo().state, inflight=act["inflight"], watching=act["watching"],
                    leaked=act["timers"] - (1 if (tm and tm in self.my_timers()) else 0))
        evs, self.invoked = self.invoked, []
        return evs, (flags_of(snap), [], R._delay, R.getDelayUntilNextAttempt(), [])


def run_real_history(rounds, stop_stage="connected", verbose=False):
    """rounds: list of dict(traffic=[(kind, stage)], loss=..., turn_before_loss=bool).
    -> (groups for the model comparison (state only), Violation or None, description)"""
    S = RealStack(verbose)
    groups = []
    try:
        with E.quiet():
            S.A.startService()
            S.settle()
            groups.append(S.observe())
            v = S.check("after the first connection")
            if v is None and (len(S.cbs) != 1 or S.r.getReconnectionInfo().state != "connected"):
                v = Violation("oracle/no-retry", "the Reconnector did not connect on the real stack: callbacks %d, state %r"
                              % (len(S.cbs), S.r.getReconnectionInfo().state))
            for k, rd in enumerate(rounds):
                if v is not None:
                    break
                where = "round %d (traffic %s, loss %s%s)" % (k + 1, ",".join("%s@%d" % t for t in rd["traffic"]) or "none",
                                                            rd["loss"], ", turn before the loss" if rd["turn_before_loss"] else "")
                link = S.live_link()
                rref = S.cbs[-1]
                obs = S.observers[-1] if S.observers else None
                swallow = lambda f: None
                for kind, stage in rd["traffic"]:
                    if kind == "a2b_call":
                        rref.callRemote("echo", k).addErrback(swallow)
                        if stage >= 1:
                            S.deliver_all(link, 0)
                        if stage >= 2:
                            S.turn()
                        if stage >= 3:
                            S.deliver_all(link, 1)
                    elif kind == "a2b_only":
                        rref.callRemoteOnly("note", k)
                        if stage >= 1:
                            S.deliver_all(link, 0)
                        if stage >= 2:
                            S.turn()
                    elif kind == "a2b_gift":
                        rref.callRemote("take", S.Observer()).addErrback(swallow)
                        if stage >= 1:
                            S.deliver_all(link, 0)
                        if stage >= 2:
                            S.turn()
                    elif kind == "b2a_call" and obs is not None:
                        obs.callRemote("ping", k).addErrback(swallow)
                        if stage >= 1:
                            S.deliver_all(link, 1)
                        if stage >= 2:
                            S.turn()
                        if stage >= 3:
                            S.deliver_all(link, 0)
                    elif kind == "b2a_only" and obs is not None:
                        obs.callRemoteOnly("bye", k)
                        if stage >= 1:
                            S.deliver_all(link, 1)
                        if stage >= 2:
                            S.turn()
                    elif kind == "partial":
                        side = stage % 2
                        if link.q[side] and link.q[side][0]:
                            S.deliver(link, side, max(1, len(link.q[side][0]) // 2))
                if rd["turn_before_loss"]:
                    S.turn()
                if rd["loss"] == "cut":
                    S.cut(link)
                elif rd["loss"] == "b_hangup":
                    link.ends[1].protocol.transport.loseConnection()
                    S.deliver_all(link, 1)          # data and FIN reach A in the same turn
                    S.local_closes(link)
                elif rd["loss"] == "a_hangup":
                    rref.tracker.broker.transport.loseConnection()
                    S.local_closes(link)
                    S.deliver_all(link, 0)
                S.settle()
                groups.append(S.observe())
                v = S.check(where + ", after the loss")
                if v is None:
                    t = S.my_timers()
                    if S.r.getReconnectionInfo().state != "waiting" or len(t) != 1 or \
                            abs((t[0].getTime() - E.clock.seconds()) - S.r.initialDelay) > 1e-9:
                        v = Violation("oracle/backoff-not-restarted", "%s: after the loss the Reconnector is in state %r with "
                                      "retry timers %r (expected one of initialDelay)"
                                      % (where, S.r.getReconnectionInfo().state, [c.getTime() - E.clock.seconds() for c in t]))
                if v is None and S.user_lost != k + 1:
                    v = Violation("oracle/no-retry", "%s: the user's own notifyOnDisconnect fired %d times for %d losses"
                                  % (where, S.user_lost, k + 1))
                if v is not None:
                    break
                E.clock.advance(S.my_timers()[0].getTime() - E.clock.seconds())
                if stop_stage == "connecting" and k == len(rounds) - 1:
                    break
                S.settle()
                groups.append(S.observe())
                v = S.check(where + ", after the retry")
                if v is None and (len(S.cbs) != k + 2 or S.r.getReconnectionInfo().state != "connected"):
                    v = Violation("oracle/no-retry", "%s: after the retry delay the Reconnector is in state %r, callbacks %d "
                                  "(expected %d)" % (where, S.r.getReconnectionInfo().state, len(S.cbs), k + 2))
            if v is None:
                # stop (possibly with the attempt in flight); nothing may happen for two hours
                ncb = len(S.cbs)
                S.invoked.append(("stop",))
                S.r.stopConnecting()
                S.stop_returned = True
                S.settle()
                E.clock.advance(7200)
                S.settle()
                groups.append(S.observe())
                v = S.check("after stopConnecting (%s)" % stop_stage)
                if v is None and len(S.cbs) != ncb:
                    v = Violation("oracle/callback-after-stop", "callbacks after stopConnecting on the real stack: %d"
                                  % (len(S.cbs) - ncb))
        return groups, v
    except Exception as e:
        import traceback
        return groups, Violation("oracle/exception-in-reconnector", "real Tub/Broker history raised %s: %s"
                                 % (type(e).__name__, traceback.format_exc()[-700:]))
    finally:
        S.close()


def real_history_name(rounds, stop_stage):
    return " ; ".join("%s %s%s" % (",".join("%s@%d" % tuple(t) for t in rd["traffic"]) or "idle", rd["loss"],
                                   "+turn" if rd["turn_before_loss"] else "") for rd in rounds) + " ; stop while " + stop_stage


# ------------------------------------------------------------------------- the Tub and ALL its Reconnectors
# Tub-level events (lib/ReconnectorTub.v): ("connectTo",) ("startService",) ("stopService",) ("turn",)
# ("rc", i, ev) with ev an atomic Reconnector event other than start: ("ok", script) ("fail", z, kind) ("lost",)
# ("timer",) ("reset",) ("stop",).  A REAL Tub (connectTo / startService / stopService / _removeReconnector /
# self.reconnectors are the real ones); only Tub.getReference is replaced on the instance by one that hands out
# Deferreds the driver fires, and RemoteReferences are fakes whose disconnect watchers the driver fires.
class TubRRef:
    def __init__(self, drv, k):
        self.drv, self.k = drv, k
        self.watchers = []
        self.lost = False
        self.recon = 0

    def notifyOnDisconnect(self, cb, *a, **kw):
        r = getattr(cb, "__self__", None)
        if isinstance(r, rc.Reconnector):
            self.recon += 1
            self.drv.note(self.drv.rcs.index(r), "watch")
        self.watchers.append((cb, a, kw))

    def lose(self):
        self.lost = True
        w, self.watchers = self.watchers, []
        for cb, a, kw in w:
            cb(*a, **kw)


class TubDriver:
    def __init__(self, verbose=False):
        self.verbose = verbose
        E.reset_clock()
        self.saved = (rc.reactor, rc.time, rc.random, ev.reactor)
        self.clock = task.Clock()
        self.evclock = task.Clock()
        self.rnd = ScriptedRandom()
        rc.reactor = self.clock
        rc.time = FakeTime(self.clock)
        rc.random = self.rnd
        ev.reactor = self.evclock
        q = ev._theSimpleQueue
        q._events, q._flushObservers, q._timer = [], [], None
        self.net = E.Net()
        ps = E.pems_sorted(2)
        self.tubid = ps[1][0]
        self.tub = unstarted_tub(self.net, "A", ps[0][1])
        self.rcs = []               # the Reconnectors in creation order
        self.urls = []
        self.pending = {}           # url -> Deferreds handed out by getReference
        self.rrefs = {}             # id -> TubRRefs given to Reconnector id
        self.scripts = {}           # id -> what the user callback does next time
        self.stop_returned = set()  # ids whose stopConnecting() has returned
        self.stop_before_start = set()  # ... and whose first stopConnecting() came while still queued
        self.tub_stopped = False    # Tub.stopService() has returned
        self.late = []              # (id, what) done after its stopConnecting / Tub.stopService had returned
        self.errors = []
        self.n_logged = len(E.logged_errors)
        self.n_later = 0
        o_later = self.clock.callLater

        def later(delay, f, *a, **kw):
            r = getattr(f, "__self__", None)
            if isinstance(r, rc.Reconnector) and r in self.rcs:
                self.note(self.rcs.index(r), "timer")
            return o_later(delay, f, *a, **kw)
        self.clock.callLater = later

        def getref(url):
            k = self.urls.index(url)
            self.note(k, "attempt")
            d = defer.Deferred()
            self.pending.setdefault(url, []).append(d)
            return d
        self.tub.getReference = getref

    def close(self):
        rc.reactor, rc.time, rc.random, ev.reactor = self.saved
        q = ev._theSimpleQueue
        q._events, q._flushObservers, q._timer = [], [], None
        E.reset_clock()

    def note(self, k, what):
        if k in self.stop_returned or self.tub_stopped:
            self.late.append((k, what))

    def _cb(self, rref, k):
        self.note(k, "callback")
        for op in self.scripts.get(k, ()):
            self.user_call(k, op)

    def user_call(self, k, op):
        r = self.rcs[k]
        if op == "stop":
            if r._tub is None and k not in self.stop_returned:
                self.stop_before_start.add(k)
            try:
                r.stopConnecting()
            finally:
                self.stop_returned.add(k)
        else:
            r.reset()

    # -- state of the real objects
    def inflight(self, k):
        return [d for d in self.pending.get(self.urls[k], []) if not d.called and d.callbacks]

    def watched(self, k):
        return [x for x in self.rrefs.get(k, []) if x.recon and not x.lost]

    def timers(self, k):
        return [c for c in self.clock.getDelayedCalls() if getattr(c.func, "__self__", None) is self.rcs[k]]

    def queue(self):
        out = []
        for c in self.evclock.calls:
            pass
        for (cb, a, kw) in ev._theSimpleQueue._events:
            r = getattr(cb, "__self__", None)
            if isinstance(r, rc.Reconnector) and cb.__name__ == "startConnecting":
                out.append(self.rcs.index(r))
        return out

    def shut(self):
        return "startService" in self.tub.__dict__

    def enabled(self, e):
        n = e[0]
        if n == "connectTo":
            return not self.shut()
        if n == "startService":
            return not self.tub.running and not self.shut()
        if n == "stopService":
            return bool(self.tub.running) and not self.shut()
        if n == "turn":
            return bool(self.queue())
        k, x = e[1], e[2]
        if k >= len(self.rcs):
            return False
        if x[0] in ("ok", "fail"):
            return bool(self.inflight(k))
        if x[0] == "lost":
            return bool(self.watched(k))
        if x[0] == "timer":
            return bool(self.timers(k))
        return x[0] in ("reset", "stop")

    def do(self, e):
        """perform one Tub-level event -> did it raise (to the caller / the eventual queue / the Deferred)"""
        n = e[0]
        raised = False
        before = len(self.errors)
        try:
            if n == "connectTo":
                k = len(self.rcs)
                url = "pb://%s@fake:nowhere:1/name%d" % (self.tubid, k)
                self.urls.append(url)
                o_init = rc.Reconnector.__init__
                drv = self

                def init(r, *a, **kw):          # so that the Reconnector is known before connectTo starts it
                    o_init(r, *a, **kw)
                    drv.rcs.append(r)
                    if drv.verbose:
                        r.verbose = True
                rc.Reconnector.__init__ = init
                try:
                    got = self.tub.connectTo(url, self._cb, k)
                finally:
                    rc.Reconnector.__init__ = o_init
                assert got is self.rcs[k]
            elif n == "startService":
                self.tub.startService()
            elif n == "stopService":
                try:
                    self.tub.stopService()
                finally:
                    self.tub_stopped = True
            elif n == "turn":
                q = ev._theSimpleQueue
                # one queued startConnecting (the oldest), as one turn's worth of work
                idx = [j for j, (cb, a, kw) in enumerate(q._events)
                       if isinstance(getattr(cb, "__self__", None), rc.Reconnector)][0]
                cb, a, kw = q._events.pop(idx)
                try:
                    cb(*a, **kw)
                except Exception:
                    raised = True       # foolscap.eventual logs it (log.err) and goes on
            else:
                k, x = e[1], e[2]
                if x[0] == "ok":
                    rr = TubRRef(self, k)
                    self.rrefs.setdefault(k, []).append(rr)
                    self.scripts[k] = tuple(x[1]) if len(x) > 1 else ()
                    d = self.inflight(k)[0]
                    d.addErrback(self.errors.append)
                    d.callback(rr)
                elif x[0] == "fail":
                    self.rnd.z = float(x[1])
                    d = self.inflight(k)[0]
                    d.addErrback(self.errors.append)
                    d.errback(make_failure(x[2]))
                elif x[0] == "lost":
                    self.watched(k)[0].lose()
                elif x[0] == "timer":
                    dc = self.rcs[k]._timer if self.rcs[k]._timer in self.timers(k) else self.timers(k)[0]
                    self.clock.calls.remove(dc)
                    dc.called = 1
                    dc.func(*dc.args, **dc.kw)
                else:
                    self.user_call(k, x[0])
        except Exception:
            raised = True
        if len(self.errors) > before:
            raised = True
        return raised

    def observe(self, raised):
        t = self.tub
        lst = [self.rcs.index(r) for r in t.reconnectors] if hasattr(t, "reconnectors") else [-1]
        fl = []
        for k, r in enumerate(self.rcs):
            tm = r._timer
            ts = self.timers(k)
            snap = dict(active=bool(r._active), stopped=getattr(r, "_stopped", None), tub=r._tub is not None,
                        info=r.getReconnectionInfo().state, inflight=len(self.inflight(k)),
                        watching=len(self.watched(k)), leaked=len(ts) - (1 if (tm and tm in ts) else 0))
            fl.append(flags_of(snap))
        head = (1 if raised else 0) + 2 * (1 if (t.running and not self.shut()) else 0) + 4 * (1 if self.shut() else 0)
        return (head, lst, self.queue(), fl)


def tev_json(e):
    if e[0] == "rc":
        x = e[2]
        return ["rc", e[1], [x[0], list(x[1])] if x[0] == "ok" else ([x[0], str(x[1]), x[2]] if x[0] == "fail" else [x[0]])]
    return [e[0]]


def tev_name(e):
    if e[0] == "rc":
        x = e[2]
        return "rc%d.%s%s" % (e[1], x[0], "{" + ",".join(x[1]) + "}" if x[0] == "ok" and len(x) > 1 and x[1] else "")
    return e[0]


def run_tub_history(events, verbose=False):
    """run Tub-level events on a real Tub.  -> (observations, Violation or None, n_performed)"""
    drv = TubDriver(verbose)
    obs = []
    viol = None
    try:
        with E.quiet():
            for i, e in enumerate(events):
                if not drv.enabled(e):
                    break
                raised = drv.do(e)
                o = drv.observe(raised)
                obs.append(o)
                if viol is not None:
                    continue
                where = "event %d %s" % (i, tev_name(e))
                if drv.late:
                    k, what = drv.late[0]
                    names = {"callback": "its user callback was invoked", "attempt": "it called Tub.getReference",
                             "watch": "it called notifyOnDisconnect", "timer": "it called callLater"}
                    if drv.tub_stopped and k not in drv.stop_returned:
                        viol = Violation("oracle/acts-after-tub-stop", "%s: after Tub.stopService() had returned, Reconnector %d "
                                         "was still at work: %s" % (where, k, names[what]))
                    else:
                        sig = {"callback": "oracle/callback-after-stop", "attempt": "oracle/attempt-after-stop"}.get(
                            what, "oracle/timer-after-stop")
                        if k in drv.stop_before_start:
                            sig = "oracle/stop-before-start-reactivated"
                        viol = Violation(sig, "%s: after stopConnecting() of Reconnector %d had returned, %s" % (where, k, names[what]))
                    continue
                for k, r in enumerate(drv.rcs):
                    nt = len(drv.timers(k))
                    n = len(drv.inflight(k)) + len(drv.watched(k)) + nt
                    quiet_wanted = k in drv.stop_returned or drv.tub_stopped
                    if quiet_wanted and (nt or r._active):
                        sig = "oracle/acts-after-tub-stop" if k not in drv.stop_returned else (
                            "oracle/stop-before-start-reactivated" if k in drv.stop_before_start else "oracle/timer-after-stop")
                        viol = Violation(sig, "%s: Reconnector %d was told to stop (%s) but has %d retry timers pending and "
                                         "_active is %r" % (where, k, "stopConnecting" if k in drv.stop_returned else
                                                            "Tub.stopService", nt, r._active))
                        break
                    if r._active and n != 1:
                        viol = Violation("oracle/activity-count", "%s: active Reconnector %d of the Tub has %d activities "
                                         "(attempts %d, watched %d, timers %d)" % (where, k, n, len(drv.inflight(k)),
                                                                                   len(drv.watched(k)), nt))
                        break
                    started = r._tub is not None
                    if drv.tub.running and not drv.shut() and not started and k not in drv.queue() and e[0] != "connectTo":
                        viol = Violation("oracle/queued-never-started", "%s: the Tub is running, Reconnector %d was never started "
                                         "and no startConnecting call is queued for it" % (where, k))
                        break
                    if drv.tub.running and not drv.shut() and started and k not in drv.stop_returned and not r._active:
                        viol = Violation("oracle/no-retry", "%s: Reconnector %d was started and never stopped but is not active"
                                         % (where, k))
                        break
        return obs, viol, len(obs)
    except Exception as e:
        import traceback
        return obs, Violation("oracle/exception-in-reconnector", "Tub history raised %s: %s"
                              % (type(e).__name__, traceback.format_exc()[-700:])), len(obs)
    finally:
        drv.close()


TUB_RC_EVENTS = [("ok", ()), ("ok", ("stop",)), ("fail",), ("lost",), ("timer",), ("reset",), ("stop",)]


def tub_alphabet(nrc, depth=0):
    out = [("connectTo",), ("startService",), ("stopService",), ("turn",)]
    for k in range(nrc):
        for x in TUB_RC_EVENTS:
            out.append(("rc", k, ("fail", ZS[depth % len(ZS)], depth) if x == ("fail",) else x))
    return out


def dfs_tub(depth, on_node, max_rc=2, verbose=False):
    def rec(path, n):
        if n == 0:
            return
        nrc = len([e for e in path if e[0] == "connectTo"])
        for e in tub_alphabet(nrc, len(path)):
            if e[0] == "connectTo" and nrc >= max_rc:
                continue
            p = path + [e]
            obs, viol, done = run_tub_history(p, verbose)
            if done < len(p):
                continue
            on_node(p, obs, viol)
            if viol is None:
                rec(p, n - 1)
    rec([], depth)
