"""C16 -- Reconnector keeps retrying until stopped and is silent afterwards."""
import glob, json, math, os
from fractions import Fraction
from harness import common


def E_quiet():
    from harness import implenv
    return implenv.quiet()

REQ = ["Coq.QArith.QArith", "Verif.lib.ReconnectorBase", "Verif.gen.ReconnectorGen", "Verif.lib.Reconnector"]
REQ_TUB = REQ + ["Verif.lib.ReconnectorTub"]


def coq_tevent(e):
    if e[0] == "rc":
        return "TRc %d (%s)" % (e[1], coq_event(e[2]))
    return {"connectTo": "TConnectTo", "startService": "TStartService", "stopService": "TStopService", "turn": "TTurn"}[e[0]]


def coq_tobs(o):
    head, lst, queue, flags = o
    return "(%s, %s, %s, %s)" % (common.coq_Z(head), common.coq_list([common.coq_Z(x) for x in lst]),
                                 common.coq_list([common.coq_Z(x) for x in queue]),
                                 common.coq_list([common.coq_Z(x) for x in flags]))


# fixed witnesses of the Tub-level families (a Tub with several Reconnectors)
def tub_witnesses():
    F = Fraction
    ok, okstop, lost, timer, stop, reset = ("ok", ()), ("ok", ("stop",)), ("lost",), ("timer",), ("stop",), ("reset",)
    fail = ("fail", F(1, 2), 1)
    W = {
        # stopConnecting while still queued (before startService / in the turn of startService), then the Tub starts
        "queued-stop-then-start": [("connectTo",), ("rc", 0, stop), ("startService",), ("turn",)],
        "stop-in-the-turn-of-startService": [("connectTo",), ("connectTo",), ("startService",), ("rc", 1, stop), ("turn",), ("turn",),
                                             ("rc", 0, ok), ("rc", 0, lost), ("rc", 0, timer)],
        "queued-reset-stop-reset": [("connectTo",), ("rc", 0, reset), ("rc", 0, stop), ("rc", 0, reset), ("startService",), ("turn",)],
        # Tub.stopService with Reconnectors in every state: queued, connecting, connected, waiting, stopped
        "stopService-every-state": [("connectTo",), ("startService",), ("connectTo",), ("connectTo",), ("connectTo",), ("connectTo",),
                                    ("turn",), ("rc", 1, ok), ("rc", 2, fail), ("rc", 3, stop), ("stopService",),
                                    ("rc", 0, ok), ("rc", 4, fail), ("rc", 1, lost), ("rc", 2, reset)],
        "stopService-five-waiting": [("startService",)] + [("connectTo",)] * 5 + [("rc", k, fail) for k in range(5)]
                                    + [("stopService",)],
        "stopService-in-the-turn-of-startService": [("connectTo",), ("connectTo",), ("startService",), ("stopService",), ("turn",), ("turn",)],
        # the same Reconnector stopped twice / from inside its callback / after the Tub stopped
        "stop-twice": [("startService",), ("connectTo",), ("connectTo",), ("rc", 0, stop), ("rc", 0, stop), ("rc", 1, okstop),
                       ("rc", 1, stop), ("stopService",)],
        "connectTo-after-others-stopped": [("startService",), ("connectTo",), ("rc", 0, stop), ("connectTo",), ("rc", 1, ok),
                                           ("connectTo",), ("rc", 1, lost), ("rc", 2, fail), ("rc", 1, timer), ("stopService",)],
    }
    return sorted(W.items())



def coq_event(ev):
    n = ev[0]
    if n == "fail":
        z = Fraction(ev[1])
        q = "(Qmake (%d)%%Z %d%%positive)" % (z.numerator, z.denominator)
        return "AttemptFail %s" % q
    if n == "ok":
        u = ev[1] if len(ev) > 1 else ()
        return "AttemptOk [%s]" % "; ".join({"stop": "UStop", "reset": "UReset"}[x] for x in u)
    return {"start": "Start", "lost": "Lost", "timer": "TimerExpired", "elapse": "Elapse",
            "reset": "Reset", "stop": "Stop"}[n]


def ns(f):
    """seconds (double) -> nanoseconds, the timer encoding of Reconnector.obs (None -> -1, negatives shifted)"""
    return int(math.floor(f * 1e9))


def pack(o):
    """observation of c16_impl.run_sequence -> the (flags+outputs, delay ns, timer ns) triple of Reconnector.pack_obs"""
    flags, outs, delay, timer = o[:4]
    code = 0
    for c in outs:
        code = code * 8 + c
    if timer is None:
        t = -1
    else:
        t = ns(timer)
        if t < 0:
            t -= 1
    return (flags + 4096 * code, ns(delay), t)


def coq_triple(t):
    return "(%s, %s, %s)" % tuple(common.coq_Z(x) for x in t)


def run(ctx):
    ctx.rule = ("(a) atomic events {start, attempt-ok, attempt-fail(z, failure type), lost, timer-expired, half-the-wait-elapses, "
                "reset, stop} that the real object permits (a Deferred/watcher/timer can only fire if it exists; startConnecting "
                "at most once), each followed by draining the eventual queue: ALL sequences up to the tier's length + seeded "
                "long ones; (b) micro-operations with the reactor turn structure explicit: attempts fire without draining, "
                "'lose' queues the disconnect watchers like Broker does, 'turn' runs one turn of the eventual queue, "
                "stop/reset at top level, from inside the user callback, from inside the user's disconnect handler, or queued "
                "in the same batch ('later'): ALL sequences up to the tier's length + seeded long ones; executed on the real "
                "Reconnector with fake Tub, virtual clocks, scripted normalvariate; the model history is the order in which "
                "the Reconnector's entry points were really invoked; distinct = distinct sequence; non-trivial = at least "
                "two operations, one of them start; (c) round 5: Tub-level events {connectTo, startService, stopService, turn of the "
                "eventual queue, event e of Reconnector i} on a REAL Tub with up to 5 Reconnectors (only Tub.getReference is replaced "
                "by one handing out Deferreds the driver fires): 8 fixed witnesses, ALL histories up to the tier's length with <= 2 "
                "Reconnectors, seeded long ones; (d) fixed failure streaks of 720/1500 (5000) consecutive failed attempts in 5 variants; (e) round 6: "
                "the knobs of the Reconnector (verbose logging switched on on the instance, as foolscap's tests do; jitter 0 / None; "
                "factor Phi with other maxDelay / initialDelay / jitter through a subclass): 6 fixed witnesses that walk through every "
                "method and branch + the whole corpus under every knob setting, ALL atomic sequences up to the tier's length with "
                "logging on (shorter for the tunables), ALL turn-structure sequences and ALL Tub-level histories up to a shorter "
                "length with logging on, every seeded long / turn-structure history once more under one knob setting, real "
                "Tub/Broker histories and scenarios with logging on; oracle as everywhere PLUS: with logging on every observation "
                "(flags, ordered outputs, delay, timer) equals the one of the same history with the defaults; with other tunables "
                "the flags and ordered outputs do")
    ctx.assumptions = [
        "delays are exact rationals in the model, IEEE doubles in the code: compared with 1e-9 relative tolerance (+1 ns)",
        "random.normalvariate(mu, sigma) is modelled as mu + z*sigma with the draw z an input; the range theorem assumes "
        "|z| <= Zmax <= 1/jitter (8.36 sigmas); beyond that the delay is negative and reactor.callLater asserts",
        "the Tub's side (connectTo / startService / stopService / _removeReconnector, self.reconnectors, the queued startConnecting "
        "calls) IS modelled since round 5 (translated from pb.py; C16_tub_*), and 'a Deferred / watcher / timer exists' is derived from "
        "the outputs of the translated methods (C16_enabled_is_ledger); modelled-not-verified there: Twisted's MultiService, "
        "foolscap.eventual as a FIFO, the statements of startService/stopService that do not mention the Reconnectors (frame condition)",
        "that a polite history never makes Tub._removeReconnector raise is checked by the Tub correspondence (every observation carries "
        "'raised') and three Examples, not proved in general; the raising histories (second stopConnecting, stopConnecting after "
        "Tub.stopService, stopService in the turn of startService) raise AFTER the Reconnector is silenced: no sentence of C16 is broken",
        "Tub/Deferred/reactor/RemoteReference are the environment: a fake Tub in the enumerations; the assumption that a lost "
        "connection reaches _disconnected (and a finished attempt _connected/_failed) is checked on real Tub/Broker pairs on the "
        "in-memory network with traffic of every kind in flight at the loss (modelled-not-verified: Twisted's Deferred and DelayedCall)",
        "logging, _last_failure and the informational ReconnectionInfo timestamps (lastAttempt / nextAttempt) are not modelled "
        "(white-listed statements); ReconnectionInfo.state is (info_agrees)",
        "the model has the default knobs (verbose off; maxDelay/initialDelay/factor/jitter as translated from the class body); that "
        "switching logging on or choosing other tunables leaves the state machine alone is checked on the real class by the direct "
        "oracle and a differential against the default run (round 6), not proved",
        "'after stopConnecting returned' is judged on the order of the actual invocations (flag set when the call returns, "
        "checked inside the user callback, getReference, callLater and notifyOnDisconnect), after every operation and "
        "after a final drain of the eventual queue",
    ]
    ok, log = ctx.coq_build(["props/C16.vo"])
    from harness import c16_impl as impl
    before = len(ctx.failures)

    def report(viol, events, **kw):
        ctx.fail(viol.sig, viol.what + "  [events: %s]" % " ".join(e[0] for e in events),
                 replay=dict(events=[impl.ev_json(e) for e in events], **kw))

    # ---- 0. corpus (regression witnesses), direct oracle
    corpus = []
    corpus_micro = []
    corpus_real = []
    corpus_cbr, corpus_micro_cbr = [], []       # the same, with the cb_raises flag (re-run under the knob settings, 3c)
    for p in sorted(glob.glob(os.path.join(common.VERIF, "corpus", "C16", "*.json"))):
        j = json.load(open(p))
        if "real_history" in j:
            corpus_real.append((j["real_history"], j.get("stop_stage", "connected")))
            continue
        if "micro_operations" in j:
            ops = [impl.micro_from_json(o) for o in j["micro_operations"]]
            groups, viol, done = impl.run_micro(ops, cb_raises=j.get("cb_raises", False), options=j.get("options"))
            ctx.case(["corpus", os.path.basename(p)], nontrivial=True)
            ctx.hist("source", "corpus")
            if done != len(ops) and not viol:
                ctx.fail("corpus-not-permitted", "corpus case %s: operation %d is not enabled on the real object" % (p, done),
                         replay=dict(file=p), has_input=False)
            elif viol:
                ctx.fail(viol.sig, viol.what + "  [operations: %s; knobs: %s]"
                         % (" ".join(impl.micro_name(o) for o in ops), impl.options_name(j.get("options"))),
                         replay=dict(micro_operations=j["micro_operations"], corpus=os.path.basename(p), options=j.get("options")))
            elif not j.get("options"):
                corpus_micro.append((ops, groups))
                corpus_micro_cbr.append((ops, groups, j.get("cb_raises", False)))
            continue
        evs = [impl.ev_from_json(e) for e in j["events"]]
        obs, viol, done = impl.run_sequence(evs, cb_raises=j.get("cb_raises", False), options=j.get("options"))
        ctx.case(["corpus", os.path.basename(p)], nontrivial=True)
        ctx.hist("source", "corpus")
        if done != len(evs) and not viol:
            ctx.fail("corpus-not-permitted", "corpus case %s: event %d is not enabled on the real object" % (p, done),
                     replay=dict(file=p), has_input=False)
            continue
        if viol:
            if j.get("options"):
                viol.what += "  [knobs: %s]" % impl.options_name(j["options"])
            report(viol, evs, corpus=os.path.basename(p), options=j.get("options"))
        elif not j.get("options"):
            corpus.append((evs, obs))
            corpus_cbr.append((evs, obs, j.get("cb_raises", False)))

    # ---- 1. real Tubs on the in-memory network
    for name, sig, good, detail in impl.real_tub_scenarios():
        ctx.case(["real-tub", name], nontrivial=True)
        ctx.hist("source", "real-tub")
        if not good:
            ctx.fail(sig, "real Tub scenario %s: %s" % (name, detail), replay=dict(scenario=name))

    # ---- 1b. the Reconnector on a REAL Tub/Broker pair (in-memory network): traffic of every kind in flight, at every
    #      stage of delivery, when the connection is lost in every way; invariant evaluated on the real stack
    real = []
    rworst = {}

    def real_case(rounds, stop_stage, src):
        rounds = [dict(traffic=[tuple(t) for t in rd["traffic"]], loss=rd["loss"], turn_before_loss=bool(rd["turn_before_loss"]))
                  for rd in rounds]
        groups, viol = impl.run_real_history(rounds, stop_stage)
        ctx.case(["real-stack", [[list(map(list, rd["traffic"])), rd["loss"], rd["turn_before_loss"]] for rd in rounds], stop_stage],
                 nontrivial=True)
        ctx.hist("source", src)
        for rd in rounds:
            ctx.hist("real_loss", rd["loss"])
            for t in rd["traffic"]:
                ctx.hist("real_traffic", "%s@%d" % t)
        if viol:
            size = sum(1 + len(rd["traffic"]) for rd in rounds)
            if viol.sig not in rworst or size < rworst[viol.sig][0]:
                rworst[viol.sig] = (size, viol, rounds, stop_stage)
        else:
            real.append(((rounds, stop_stage), groups))
    for rounds, stop_stage in corpus_real:
        real_case(rounds, stop_stage, "corpus")
    for kind in impl.TRAFFIC:
        for stage in range(4):
            for loss in impl.LOSSES:
                for tb in (False, True):
                    real_case([dict(traffic=[(kind, stage)], loss=loss, turn_before_loss=tb)], "connected", "real-stack-exhaustive")
    for loss in impl.LOSSES:
        for ss in ("connected", "connecting"):
            real_case([dict(traffic=[], loss=loss, turn_before_loss=False)] * 2, ss, "real-stack-exhaustive")
    for k in range(ctx.n(150, 2000)):
        rounds = []
        for r_ in range(ctx.rng.randint(1, 3)):
            tr = [(ctx.rng.choice(impl.TRAFFIC + ["partial"]), ctx.rng.randint(0, 3)) for _ in range(ctx.rng.randint(0, 4))]
            rounds.append(dict(traffic=tr, loss=ctx.rng.choice(impl.LOSSES), turn_before_loss=ctx.rng.random() < 0.3))
        real_case(rounds, ctx.rng.choice(["connected", "connecting"]), "real-stack-seeded")
    for sig, (size, viol, rounds, stop_stage) in sorted(rworst.items()):
        ctx.fail(sig, viol.what + "  [real Tub/Broker history: %s]" % impl.real_history_name(rounds, stop_stage),
                 replay=dict(real_history=[dict(traffic=[list(t) for t in rd["traffic"]], loss=rd["loss"],
                                                turn_before_loss=rd["turn_before_loss"]) for rd in rounds], stop_stage=stop_stage))
    ctx.extra["real_stack_histories"] = len(real) + len(rworst)

    # ---- 1c. a REAL Tub with ALL its Reconnectors (connectTo before/after startService, the eventual queue delivering
    #      the queued startConnecting calls, stopService, and the events of the individual Reconnectors interleaved):
    #      fixed witnesses, ALL Tub-level histories up to the tier's length (<= 2 Reconnectors), seeded long ones (<= 5)
    tubs = []
    tworst = {}

    def tub_case(h, src):
        obs, viol, done = impl.run_tub_history(h)
        ctx.case(["tub"] + [impl.tev_json(e) for e in h], nontrivial=len(h) >= 2)
        ctx.hist("source", src)
        ctx.hist("tub_last_event", h[-1][0] if h[-1][0] != "rc" else "rc." + h[-1][2][0])
        if viol:
            if viol.sig not in tworst or len(h) < len(tworst[viol.sig][1]):
                tworst[viol.sig] = (viol, h)
        elif done == len(h):
            tubs.append((h, obs))
        return viol, done
    for name, h in tub_witnesses():
        viol, done = tub_case(h, "tub-witness")
        if viol is None and done != len(h):
            ctx.fail("corpus-not-permitted", "Tub witness %s: event %d (%s) is not enabled on the real Tub"
                     % (name, done, impl.tev_name(h[done])), replay=dict(witness=name), has_input=False)
    tdepth = ctx.n(5, 6)
    ntub = [0]

    def on_tnode(path, obs, viol):
        ntub[0] += 1
        ctx.case(["tub"] + [impl.tev_json(e) for e in path], nontrivial=len(path) >= 2)
        ctx.hist("source", "tub-exhaustive")
        if viol:
            if viol.sig not in tworst or len(path) < len(tworst[viol.sig][1]):
                tworst[viol.sig] = (viol, list(path))
        else:
            tubs.append((list(path), obs))
    impl.dfs_tub(tdepth, on_tnode)
    ctx.extra["tub_enumeration_depth"] = tdepth
    ctx.extra["tub_enumerated_histories"] = ntub[0]
    for k in range(ctx.n(200, 4000)):
        L = ctx.rng.randint(6, 40)
        drv = impl.TubDriver()
        h = []
        try:
            with E_quiet():
                for i in range(L):
                    nrc = len(drv.rcs)
                    cand = [e for e in impl.tub_alphabet(nrc, i) + [("rc", kk, ("ok", ("reset",))) for kk in range(nrc)]
                            if drv.enabled(e) and not (e[0] == "connectTo" and nrc >= 5)]
                    if not cand:
                        break
                    w = [(0.15 if e[0] == "stopService" else 0.4 if (e[0] == "rc" and "stop" in str(e[2])) else 1.0) for e in cand]
                    e = ctx.rng.choices(cand, w)[0]
                    if e[0] == "rc" and e[2][0] == "fail":
                        e = ("rc", e[1], ("fail", Fraction(ctx.rng.randint(-128, 128), 16), ctx.rng.randint(0, 4)))
                    h.append(e)
                    drv.do(e)
        finally:
            drv.close()
        if h:
            tub_case(h, "tub-seeded")
    for sig, (viol, h) in sorted(tworst.items()):
        ctx.fail(sig, viol.what + "  [Tub history: %s]" % " ".join(impl.tev_name(e) for e in h),
                 replay=dict(tub_history=[impl.tev_json(e) for e in h]))
    ctx.extra["tub_histories"] = len(tubs) + len(tworst)

    # ---- 2. exhaustive enumeration on the real object, direct oracle on every node
    depth = ctx.n(8, 11)
    nodes = []

    def on_node(path, o, viol):
        nodes.append((path, o))
        ctx.case([impl.ev_json(e) for e in path], nontrivial=(len(path) >= 2 and any(e[0] == "start" for e in path)))
        ctx.hist("length", len(path))
        ctx.hist("last_event", path[-1][0])
        if viol:
            report(viol, path)
    impl.dfs_real(depth, on_node)
    ctx.extra["enumeration_depth"] = depth
    ctx.extra["enumerated_sequences"] = len(nodes)
    for p, o in nodes[:40:8]:
        ctx.sample(dict(events=[impl.ev_json(e) for e in p], observed=dict(flags=o[0], outputs=o[1], delay=o[2], timer=o[3])))

    # ---- 3. seeded long sequences (random draws, random failure types, raising user callback)
    longs = []
    longs_cbr = []
    nlong = ctx.n(150, 1500)
    for k in range(nlong):
        L = ctx.rng.randint(12, 60)
        cbr = ctx.rng.random() < 0.3
        drv = impl.Driver(cbr)
        evs = []
        try:
            for i in range(L):
                en = [a for a in impl.ALPHABET if drv.enabled(a)]
                w = [(0.3 if a in ("stop", "reset") and i < L - 8 else 1.0) for a in en]
                a = ctx.rng.choices(en, w)[0]
                ev = ("fail", Fraction(ctx.rng.randint(-128, 128), 16), ctx.rng.randint(0, 4)) if a == "fail" else (a,)
                evs.append(ev)
                try:
                    drv.do(ev)
                except Exception:
                    break           # reported by run_sequence below as oracle/exception-in-reconnector
        finally:
            drv.close()
        obs, viol, done = impl.run_sequence(evs, cb_raises=cbr)
        ctx.case([impl.ev_json(e) for e in evs] + [cbr], nontrivial=True)
        ctx.hist("source", "seeded-long")
        ctx.hist("length", len(evs))
        if viol:
            shrunk = common.shrink_list(evs, lambda c: (lambda r: r[1] is not None and r[1].sig == viol.sig and r[2] == len(c))(
                impl.run_sequence(c, cb_raises=cbr)))
            o2, v2, _ = impl.run_sequence(shrunk, cb_raises=cbr)
            report(v2 or viol, shrunk if v2 else evs, cb_raises=cbr)
        else:
            longs.append((evs, obs))
            longs_cbr.append((evs, obs, cbr))
            nsync, v3 = impl.run_sync_variant(evs, obs, cb_raises=cbr)
            ctx.hist("synchronous_completions", min(nsync, 5))
            if v3:
                report(v3, evs, cb_raises=cbr, variant="synchronous completion")

    # ---- 3a. fixed witnesses of the family "unbounded runs of consecutive failures" (weeks of outage): the back-off
    #      must stay a finite number in range for EVERY number of failures in a row (double range: e**710, phi**1475)
    streaks = []
    streak_720 = []
    for name, evs in impl.streak_witnesses(ctx.n([720, 1500], [720, 1500, 5000])):
        obs, viol, done = impl.run_sequence(evs)
        ctx.case(["streak", name], nontrivial=True)
        ctx.hist("source", "failure-streak")
        if viol is None and name.startswith("streak-720-"):
            streak_720.append((name, evs, obs))
        if viol:
            nfail = len([e for e in evs[:done] if e[0] == "fail"])
            ctx.fail(viol.sig, viol.what[:900] + "  [%s: start, then %d consecutive failed attempts each followed by the expiry "
                     "of the retry timer]" % (name, nfail), replay=dict(streak=name, events_performed=done))
        elif name.endswith("-jitter") and len(evs) % 4 == 1:
            # the model follows the same streak (exact rationals stay small: capped at maxDelay); the events are
            # generated inside Coq and only the length and the final observation are compared
            streaks.append((name, (len(evs) - 1) // 4, obs[-1]))
        elif ctx.tier == "thorough" and name.startswith("streak-720-") and not name.endswith("-resets"):
            longs.append((evs, obs))

    # ---- 3b. the reactor turn structure made explicit: every operation at every point of a turn
    #      (same turn right after an attempt's Deferred fired, between drains of the eventual queue, from inside the
    #      user callback / the user's disconnect handler, from an event queued in the same batch)
    micro = list(corpus_micro)
    micro_cbr = []
    worst = {}

    def micro_report(viol, path, cbr=False):
        k = viol.sig
        if k not in worst or len(path) < len(worst[k][1]):
            worst[k] = (viol, path, cbr)

    nmicro = [0]

    def on_mnode(path, viol):
        nmicro[0] += 1
        ctx.case(["micro"] + [impl.micro_json(o) for o in path], nontrivial=len(path) >= 2)
        ctx.hist("micro_last_op", impl.micro_name(path[-1]).split(":")[0].split("{")[0])
        if viol:
            micro_report(viol, path)
    mdepth = ctx.n(6, 7)
    mtree = impl.dfs_micro(mdepth, on_mnode)
    ctx.extra["micro_enumeration_depth"] = mdepth
    ctx.extra["micro_enumerated_sequences"] = nmicro[0]
    for k in range(ctx.n(150, 1500)):
        L = ctx.rng.randint(8, 40)
        cbr = ctx.rng.random() < 0.3
        drv = impl.Driver(cbr)
        ops = []
        try:
            for i in range(L):
                en = [a for a in impl.MICRO_ALL if impl.micro_enabled(drv, a)]
                w = [(0.25 if a in (("stop",), ("later", ("stop",))) or (len(a) > 1 and "stop" in a[1]) else 1.0) for a in en]
                a = ctx.rng.choices(en, w)[0]
                if a == ("fail",):
                    a = ("fail", Fraction(ctx.rng.randint(-128, 128), 16), ctx.rng.randint(0, 4))
                elif a == ("later", ("fail",)):
                    a = ("later", ("fail", Fraction(ctx.rng.randint(-128, 128), 16), ctx.rng.randint(0, 4)))
                ops.append(a)
                try:
                    drv.micro(a)
                except Exception:
                    break
        finally:
            drv.close()
        groups, viol, done = impl.run_micro(ops, cb_raises=cbr)
        ctx.case(["micro"] + [impl.micro_json(o) for o in ops] + [cbr], nontrivial=True)
        ctx.hist("source", "seeded-micro")
        if viol:
            shrunk = common.shrink_list(ops, lambda c: (lambda r: r[1] is not None and r[1].sig == viol.sig)(
                impl.run_micro(c, cb_raises=cbr)))
            g2, v2, _ = impl.run_micro(shrunk, cb_raises=cbr)
            micro_report(v2 or viol, shrunk if v2 else ops, cbr)
        else:
            micro.append((ops, groups))
            micro_cbr.append((ops, groups, cbr))
    for k, (viol, path, cbr) in sorted(worst.items()):
        ctx.fail(viol.sig, viol.what + "  [operations: %s]" % " ".join(impl.micro_name(o) for o in path),
                 replay=dict(micro_operations=[impl.micro_json(o) for o in path], cb_raises=cbr))

    # ---- 3c. round 6: the knobs (logging on; other tunables) do not change the state machine
    knobs(ctx, impl, nodes, corpus_cbr, longs_cbr, corpus_micro_cbr, micro_cbr, mtree, tubs, real, streak_720)

    # ---- 4. correspondence with the Coq model
    model_ok = ok
    if not ok:
        model_ok, _ = ctx.coq_build(["lib/Reconnector.vo"])
    if model_ok:
        correspond(ctx, depth, nodes, corpus + longs, micro, mtree, real)
        correspond_streaks(ctx, streaks)
        correspond_tub(ctx, tubs)
    if not ok and len(ctx.failures) == before:
        ctx.fail("proof-broken", "theorem closure props/C16.vo no longer builds against the regenerated gen/ReconnectorGen.v:\n"
                 + log[-2500:], replay=dict(log=log[-6000:]), has_input=False)


def knobs(ctx, impl, nodes, corpus, longs, corpus_micro, micro, mtree, tubs, real, streak_720):
    """Round 6 (seed C16-r6s2: a verbose-only log line in _retry reads self._last_failure, which is None on the path from
    _disconnected; the exception is swallowed by the eventual queue and the Reconnector never reconnects).  Family: the knobs
    of the Reconnector -- `verbose` on the instance; maxDelay / initialDelay / factor / jitter (falsy: no draw) on the class --
    must leave the state machine alone.  Every generator of the check is run again under knob settings (impl.OPTION_SETS):
    the oracle is the usual one, evaluated with the tunables read off the real object, plus a differential against the run of
    the same history with the defaults: logging on -> identical (flags, ordered outputs, delay, timer) after every event;
    other tunables -> identical flags and ordered outputs."""
    worst = {}

    def note(viol, size, text, replay):
        if viol.sig not in worst or size < worst[viol.sig][0]:
            worst[viol.sig] = (size, viol, text, replay)

    def differ(oname, logging_only, seq, base, got, what):
        """base/got: lists of observations (None = not recorded) -> Violation or None"""
        width = 4 if logging_only else 2
        for i, (a, b) in enumerate(zip(base, got)):
            if a is None or b is None:
                continue
            if tuple(a[:width]) != tuple(b[:width]):
                return impl.Violation("oracle/knob-changes-behaviour", "with the knobs [%s] the Reconnector does not do what it does "
                                      "on the same history with the defaults: after %s %d (%s) it is in %s = %r, with the defaults in %r"
                                      % (oname, what, i, seq[i] if i < len(seq) else "the final drain",
                                         "(flags, outputs, delay, timer)" if logging_only else "(flags, outputs)",
                                         tuple(b[:width]), tuple(a[:width])))
        if len(base) != len(got):
            return impl.Violation("oracle/knob-changes-behaviour", "with the knobs [%s] the Reconnector permits %d of the %d %ss "
                                  "that it permits with the defaults" % (oname, len(got), len(base), what))
        return None

    def judge_events(evs, cbr, options, oname, logging_only, base_obs=None):
        if base_obs is None:
            base_obs, bv, bd = impl.run_sequence(evs, cb_raises=cbr)
            if bv is not None or bd != len(evs):
                return None
        obs, viol, done = impl.run_sequence(evs, cb_raises=cbr, options=options)
        return viol or differ(oname, logging_only, [e[0] for e in evs], base_obs, obs, "event")

    def run_events(evs, base_obs, cbr, src, sets, shrink=False):
        for sname, options, logging_only in sets:
            oname = impl.options_name(options)
            ctx.case(["knobs", sname] + [impl.ev_json(e) for e in evs] + [cbr], nontrivial=True)
            ctx.hist("source", src)
            ctx.hist("knobs", sname)
            viol = judge_events(evs, cbr, options, oname, logging_only, base_obs)
            if viol is None:
                continue
            seq = evs
            if shrink:
                seq = common.shrink_list(evs, lambda c: (lambda v: v is not None and v.sig == viol.sig)(
                    judge_events(c, cbr, options, oname, logging_only)))
                v2 = judge_events(seq, cbr, options, oname, logging_only)
                viol, seq = (v2, seq) if v2 else (viol, evs)
            note(viol, len(seq), "  [knobs: %s; events: %s]" % (oname, " ".join(e[0] for e in seq)),
                 dict(events=[impl.ev_json(e) for e in seq], options=options, cb_raises=cbr))

    def run_micro(ops, base_groups, cbr, src, sets):
        for sname, options, logging_only in sets:
            oname = impl.options_name(options)
            groups, viol, done = impl.run_micro(ops, cb_raises=cbr, options=options)
            ctx.case(["knobs", sname, "micro"] + [impl.micro_json(o) for o in ops] + [cbr], nontrivial=True)
            ctx.hist("source", src)
            ctx.hist("knobs", sname)
            if viol is None:
                viol = differ(oname, logging_only, [impl.micro_name(o) for o in ops], [g[1] for g in base_groups],
                              [g[1] for g in groups], "operation")
            if viol is not None:
                note(viol, len(ops), "  [knobs: %s; operations: %s]" % (oname, " ".join(impl.micro_name(o) for o in ops)),
                     dict(micro_operations=[impl.micro_json(o) for o in ops], options=options, cb_raises=cbr))

    all_sets = impl.OPTION_SETS
    vname, voptions, _ = all_sets[0]            # logging on, everything else default
    # (i) fixed witnesses (every method, every branch) and the whole corpus, under every knob setting
    for name, evs in impl.option_witnesses():
        base, bviol, bdone = impl.run_sequence(evs)
        ctx.case(["knob-witness", name], nontrivial=True)
        if bviol is not None:
            ctx.fail(bviol.sig, bviol.what + "  [knob witness %s with the defaults]" % name,
                     replay=dict(events=[impl.ev_json(e) for e in evs]))
        elif bdone != len(evs):
            ctx.fail("corpus-not-permitted", "knob witness %s: event %d is not enabled on the real object" % (name, bdone),
                     replay=dict(witness=name), has_input=False)
        else:
            run_events(evs, base, False, "knob-witness", all_sets)
    for evs, obs, cbr in corpus:
        run_events(evs, obs, cbr, "knob-corpus", all_sets)
    for ops, groups, cbr in corpus_micro:
        run_micro(ops, groups, cbr, "knob-corpus", all_sets)
    # (ii) ALL permitted atomic sequences: logging on up to one less than the main enumeration, the tunables shorter;
    #      every node compared with the node of the default enumeration
    def key(path):
        return json.dumps([impl.ev_json(e) for e in path])
    base_nodes = dict((key(p), o) for p, o in nodes)
    kdepth = {True: ctx.n(7, 9), False: ctx.n(5, 7)}
    nk = [0]
    for sname, options, logging_only in all_sets:
        oname = impl.options_name(options)
        seen = set()
        bad = [0]

        def on_node(path, o, viol):
            nk[0] += 1
            seen.add(key(path))
            ctx.case(["knobs", sname] + [impl.ev_json(e) for e in path], nontrivial=len(path) >= 2)
            ctx.hist("knobs", sname)
            if viol is None:
                b = base_nodes.get(key(path))
                if b is None:
                    viol = impl.Violation("oracle/knob-changes-behaviour", "with the knobs [%s] the Reconnector permits a "
                                          "history that it does not permit with the defaults" % oname)
                else:
                    viol = differ(oname, logging_only, [e[0] for e in path], [None] * (len(path) - 1) + [b],
                                  [None] * (len(path) - 1) + [o], "event")
            if viol is not None:
                bad[0] += 1
                note(viol, len(path), "  [knobs: %s; events: %s]" % (oname, " ".join(e[0] for e in path)),
                     dict(events=[impl.ev_json(e) for e in path], options=options))
        d = kdepth[logging_only]
        impl.dfs_real(d, on_node, options=options)
        missing = [p for p, o in nodes if len(p) <= d and key(p) not in seen]
        if missing and not bad[0]:
            p = min(missing, key=len)
            note(impl.Violation("oracle/knob-changes-behaviour", "with the knobs [%s] the last event of this history, which the "
                                "Reconnector permits with the defaults, is not possible (nothing is there to fire)" % oname),
                 len(p), "  [knobs: %s; events: %s]" % (oname, " ".join(e[0] for e in p)),
                 dict(events=[impl.ev_json(e) for e in p], options=options))
    ctx.extra["knob_enumerated_sequences"] = nk[0]
    # (iii) ALL turn-structure sequences (shorter) with logging on, compared node by node with the default tree
    base_micro = {}

    def mkey(path):
        return json.dumps([impl.micro_json(o) for o in path])

    def walk(n):
        base_micro[mkey(n["path"])] = n["obs"]
        for k in n["kids"]:
            walk(k)
    for root in mtree:
        walk(root)

    def mnote(viol, path):
        note(viol, len(path), "  [knobs: %s; operations: %s]" % (impl.options_name(voptions), " ".join(impl.micro_name(o) for o in path)),
             dict(micro_operations=[impl.micro_json(o) for o in path], options=voptions))

    def on_mnode(path, viol):
        ctx.case(["knobs", vname, "micro"] + [impl.micro_json(o) for o in path], nontrivial=len(path) >= 2)
        if viol is not None:
            mnote(viol, path)

    def on_groups(path, groups):
        b = base_micro.get(mkey(path))
        if b is None:
            return
        v = differ(impl.options_name(voptions), True, [impl.micro_name(o) for o in path], [b], [groups[len(path) - 1][1]], "operation")
        if v is not None:
            v.what = v.what.replace("after operation 0", "after the last operation")
            mnote(v, path)
    impl.dfs_micro(ctx.n(5, 6), on_mnode, options=voptions, on_groups=on_groups)
    # (iv) every seeded history once more, under one knob setting (round robin); the 720-failure streaks with logging on
    for k, (evs, obs, cbr) in enumerate(longs):
        run_events(evs, obs, cbr, "knob-seeded", [all_sets[k % len(all_sets)]], shrink=True)
    for k, (ops, groups, cbr) in enumerate(micro):
        run_micro(ops, groups, cbr, "knob-seeded", [all_sets[k % len(all_sets)]])
    for name, evs, obs in streak_720:
        run_events(evs, obs, False, "knob-streak", [all_sets[0], all_sets[3]])
    # (v) the REAL Tub with all its Reconnectors, logging switched on in each of them: the fixed witnesses, ALL histories
    #     (shorter), every fourth seeded one; observations (list, queue, flags of every Reconnector) as with the defaults
    def tkey(h):
        return json.dumps([impl.tev_json(e) for e in h])
    base_tubs = dict((tkey(h), obs) for h, obs in tubs)

    def tub_judge(h, obs, viol):
        ctx.case(["knobs", vname, "tub"] + [impl.tev_json(e) for e in h], nontrivial=len(h) >= 2)
        b = base_tubs.get(tkey(h))
        if viol is None and b is not None and obs != b:
            i = ([j for j in range(min(len(b), len(obs))) if obs[j] != b[j]] + [min(len(b), len(obs))])[0]
            viol = impl.Violation("oracle/knob-changes-behaviour", "with verbose=True on every Reconnector the real Tub does not do "
                                  "what it does with the defaults: after event %d (%s) (raised+2*running+4*shut, reconnectors, queued "
                                  "starts, flags) = %r, with the defaults %r"
                                  % (i, impl.tev_name(h[i]) if i < len(h) else "-", obs[i] if i < len(obs) else None,
                                     b[i] if i < len(b) else None))
        if viol is not None:
            note(viol, len(h), "  [knobs: verbose=True; Tub history: %s]" % " ".join(impl.tev_name(e) for e in h),
                 dict(tub_history=[impl.tev_json(e) for e in h], options=voptions))
    for h in [h for name, h in tub_witnesses()] + [h for h, obs in tubs if len(h) > 6][::4]:
        obs, viol, done = impl.run_tub_history(h, verbose=True)
        ctx.hist("source", "knob-tub")
        tub_judge(h, obs, viol)
    impl.dfs_tub(ctx.n(4, 5), lambda path, obs, viol: tub_judge(list(path), obs, viol), verbose=True)
    # (vi) real Tub/Broker pairs on the in-memory network with logging on: every kind of loss x both stop stages, every
    #      kind of traffic once, the corpus histories, and the scenarios
    def rkey(rounds, ss):
        return json.dumps([[[list(map(list, rd["traffic"])), rd["loss"], bool(rd["turn_before_loss"])] for rd in rounds], ss])
    base_real = dict((rkey(rounds, ss), groups) for (rounds, ss), groups in real)
    fixed = [([dict(traffic=[], loss=loss, turn_before_loss=False)] * 2, ss) for loss in impl.LOSSES for ss in ("connected", "connecting")]
    fixed += [([dict(traffic=[(kind, 1)], loss="b_hangup", turn_before_loss=False)], "connected") for kind in impl.TRAFFIC]
    for p in sorted(glob.glob(os.path.join(common.VERIF, "corpus", "C16", "*.json"))):
        j = json.load(open(p))
        if "real_history" in j:
            fixed.append(([dict(traffic=[tuple(t) for t in rd["traffic"]], loss=rd["loss"], turn_before_loss=bool(rd["turn_before_loss"]))
                           for rd in j["real_history"]], j.get("stop_stage", "connected")))
    for rounds, ss in fixed:
        groups, viol = impl.run_real_history(rounds, ss, verbose=True)
        ctx.case(["knobs", vname, "real-stack", impl.real_history_name(rounds, ss)], nontrivial=True)
        ctx.hist("source", "knob-real-stack")
        b = base_real.get(rkey(rounds, ss))
        if viol is None and b is not None:
            viol = differ("verbose=True", True, ["-"] * len(b), [g[1] for g in b], [g[1] for g in groups], "observation")
        if viol is not None:
            note(viol, sum(1 + len(rd["traffic"]) for rd in rounds), "  [knobs: verbose=True; real Tub/Broker history: %s]"
                 % impl.real_history_name(rounds, ss),
                 dict(real_history=[dict(traffic=[list(t) for t in rd["traffic"]], loss=rd["loss"],
                                         turn_before_loss=rd["turn_before_loss"]) for rd in rounds], stop_stage=ss, options=voptions))
    for sig, (size, viol, text, replay) in sorted(worst.items()):
        ctx.fail(viol.sig, viol.what + text, replay=replay)
    for name, sig, good, detail in impl.real_tub_scenarios(verbose=True):
        ctx.case(["knobs", vname, "real-tub", name], nontrivial=True)
        ctx.hist("source", "knob-real-tub")
        if not good:
            ctx.fail(sig, "real Tub scenario %s with verbose=True on the Reconnector: %s" % (name, detail),
                     replay=dict(scenario=name, options=voptions))
    ctx.extra["knob_settings"] = [impl.options_name(o) for _, o, _ in all_sets]


def correspond_streaks(ctx, streaks):
    """long runs of consecutive failures: start, then K times (fail z=1/2, timer, fail z=-1/2, timer); the model must
    permit all 1+4K events and end in the observation the real Reconnector ended in"""
    if not streaks:
        return
    body = ""
    for name, K, last in streaks:
        body += ("Eval vm_compute in (let tr := map pack_obs (trace init_state (Start :: List.concat (List.repeat [AttemptFail (Qmake 1 2); "
                 "TimerExpired; AttemptFail (Qmake (-1) 2); TimerExpired] %d))) in (Z.of_nat (List.length tr), "
                 "obs_match (List.last tr (0, 0, 0)%%Z) %s, List.last tr (0, 0, 0)%%Z)).\n" % (K, coq_triple(pack(last))))
    try:
        vals = ctx.coq_eval("C16_streak_cases", body, requires=REQ, timeout=600)
    except common.CoqEvalError as e:
        ctx.fail("correspondence-broken", "the model could not be evaluated on a failure streak: " + str(e)[-1500:], has_input=False)
        return
    for (name, K, last), v in zip(streaks, vals):
        n, same, m = v
        if n == 1 + 4 * K and same is True:
            ctx.traces += 1
        else:
            ctx.fail("correspondence/streak", "after %d consecutive failures (%s) model and implementation disagree: the model "
                     "performed %d of %d events and ends in %r, the implementation in %r" % (2 * K, name, n, 1 + 4 * K, m, pack(last)),
                     replay=dict(streak=name), has_input=False)
    ctx.extra["streak_correspondence_cases"] = len(streaks)


def correspond_tub(ctx, tubs):
    """Tub-level histories: the model (translated m_tub_* + dispatcher of lib/ReconnectorTub.v) is run on the same events;
    compared per event inside Coq: raised?, running, shut down, self.reconnectors (ids, in order), the queued
    startConnecting calls, and the flags of EVERY Reconnector of the Tub"""
    from harness import c16_impl as impl
    if not tubs:
        return
    body = ""
    chunks = [tubs[i:i + 250] for i in range(0, len(tubs), 250)]
    for ch in chunks:
        body += ("Eval vm_compute in map (fun c => tfirst_mismatch 0%%Z (ttrace tub_init (fst c)) (snd c)) %s.\n"
                 % common.coq_list(["(%s, %s)" % (common.coq_list([coq_tevent(e) for e in h]),
                                                  common.coq_list([coq_tobs(o) for o in obs])) for h, obs in ch]))
    try:
        vals = ctx.coq_eval("C16_tub_cases", body, requires=REQ_TUB, timeout=1500)
    except common.CoqEvalError as e:
        ctx.fail("correspondence-broken", "the Tub model could not be evaluated: " + str(e)[-1500:], has_input=False)
        return
    nbad = 0
    flat = [t for v in vals for t in v]
    worst = None
    for (h, obs), (k, m) in zip(tubs, flat):
        if k == -1:
            ctx.traces += 1
            continue
        nbad += 1
        if worst is None or len(h) < len(worst[0]):
            worst = (h, obs, k, m)
    if worst:
        h, obs, k, m = worst
        ctx.fail("correspondence/tub", "model and real Tub disagree at event %d of [%s]: model (raised+2*running+4*shut, "
                 "reconnectors, queued starts, flags per Reconnector) = %r, real Tub %r"
                 % (k, " ".join(impl.tev_name(e) for e in h), m, obs[k] if k < len(obs) else None),
                 replay=dict(tub_history=[impl.tev_json(e) for e in h], at=k), has_input=False)
    ctx.extra["tub_correspondence_cases"] = len(tubs)
    ctx.extra["tub_correspondence_disagreements"] = nbad


def correspond(ctx, depth, nodes, seqs, micro=(), mtree=(), real=()):
    """the comparison runs inside Coq (Reconnector.first_mismatch): the expected observations are written into the
    case file, the model is evaluated with vm_compute, and only the index of the first disagreement comes back"""
    from harness import c16_impl as impl
    body = "Eval vm_compute in first_mismatch 0%%Z (map pack_obs (dfs %d 0 init_state)) %s.\n" % (
        depth, common.coq_list([coq_triple(pack(o)) for _, o in nodes]))
    chunks = [seqs[i:i + 100] for i in range(0, len(seqs), 100)]
    for ch in chunks:
        body += ("Eval vm_compute in map (fun c => first_mismatch 0%%Z (map pack_obs (trace init_state (fst c))) (snd c)) %s.\n"
                 % common.coq_list(["(%s, %s)" % (common.coq_list([coq_event(e) for e in evs]),
                                                  common.coq_list([coq_triple(pack(o)) for o in obs]))
                                    for evs, obs in ch]))
    mchunks = [micro[i:i + 300] for i in range(0, len(micro), 300)]
    for ch in mchunks:
        body += ("Eval vm_compute in map (group_mismatch 0%%Z init_state) %s.\n"
                 % common.coq_list([common.coq_list(["(%s, %s)" % (common.coq_list([coq_event(e) for e in evs]),
                                                                    coq_triple(pack(o))) for evs, o in groups])
                                    for _, groups in ch]))
    rchunks = [real[i:i + 300] for i in range(0, len(real), 300)]
    for ch in rchunks:
        body += ("Eval vm_compute in map (group_mismatch_state 0%%Z init_state) %s.\n"
                 % common.coq_list([common.coq_list(["(%s, %s)" % (common.coq_list([coq_event(e) for e in evs]),
                                                                    coq_triple(pack(o))) for evs, o in groups])
                                    for _, groups in ch]))
    # the exhaustive turn-structure enumeration, as trees with shared prefixes (one per first operation)
    preorder = []

    def gnode(n):
        preorder.append(n)
        return "GNode %s %s %s" % (common.coq_list([coq_event(e) for e in n["evs"]]), coq_triple(pack(n["obs"])),
                                   common.coq_list([gnode(k) for k in n["kids"]]))
    starts = []
    for root in mtree:
        starts.append(len(preorder))
        body += "Eval vm_compute in tree_mismatch (%s) init_state %d%%Z.\n" % (gnode(root), starts[-1])
    try:
        vals = ctx.coq_eval("C16_cases", body, requires=REQ, timeout=1500)
    except common.CoqEvalError as e:
        ctx.fail("correspondence-broken", "the model could not be evaluated: " + str(e)[-1500:], has_input=False)
        return
    nbad = 0
    idx, m = vals[0]
    if idx == -1:
        ctx.traces += len(nodes)
    else:
        nbad += 1
        ctx.traces += idx
        if idx < len(nodes):
            path, o = nodes[idx]
            ctx.fail("correspondence/enumeration", "model and implementation disagree at node %d of the enumeration of all "
                     "permitted sequences, events [%s]: model (flags+4096*outputs, delay ns, timer ns) = %r, implementation %r "
                     "= packed %r" % (idx, " ".join(e[0] for e in path), m, o[:4], pack(o)),
                     replay=dict(events=[impl.ev_json(e) for e in path], model=repr(m), impl=list(pack(o))), has_input=False)
        else:
            ctx.fail("correspondence/enumeration", "the model permits more sequences of length <= %d than the implementation "
                     "(%d); first extra model observation %r" % (depth, len(nodes), m), has_input=False)
    mflat = [t for v in vals[1 + len(chunks):1 + len(chunks) + len(mchunks)] for t in v]
    for (ops, groups), (k, m) in zip(micro, mflat):
        if k == -1:
            ctx.traces += 1
            continue
        nbad += 1
        g = groups[k] if k < len(groups) else None
        ctx.fail("correspondence/turn-structure", "model and implementation disagree at operation %d of [%s] (the last one is "
                 "the final drain): the Reconnector's entry points were invoked as %r; model %r, implementation %r"
                 % (k, " ".join(impl.micro_name(o) for o in ops), g and g[0], m, g and pack(g[1])),
                 replay=dict(micro_operations=[impl.micro_json(o) for o in ops], at=k), has_input=False)
    base = 1 + len(chunks) + len(mchunks)
    rflat = [t for v in vals[base:base + len(rchunks)] for t in v]
    for ((rounds, stop_stage), groups), (k, m) in zip(real, rflat):
        if k == -1:
            ctx.traces += 1
            continue
        nbad += 1
        g = groups[k] if k < len(groups) else None
        ctx.fail("correspondence/real-stack", "model and implementation disagree at observation %d of the real Tub/Broker history "
                 "[%s]: the Reconnector's entry points were invoked as %r; model %r, implementation %r"
                 % (k, impl.real_history_name(rounds, stop_stage), g and g[0], m, g and pack(g[1])), has_input=False)
    for st0, (nxt, bad) in zip(starts, vals[base + len(rchunks):]):
        if bad == "None":
            continue
        k, m = bad[1] if isinstance(bad, tuple) and bad[0] == "Some" else (None, None)
        nbad += 1
        n = preorder[k] if k is not None and k < len(preorder) else None
        ctx.fail("correspondence/turn-structure", "model and implementation disagree after the operations [%s]: the last one "
                 "made the Reconnector's entry points run as %r; model %r, implementation %r"
                 % (n and " ".join(impl.micro_name(o) for o in n["path"]), n and n["evs"], m, n and pack(n["obs"])),
                 replay=dict(micro_operations=n and [impl.micro_json(o) for o in n["path"]]), has_input=False)
    if not nbad:
        ctx.traces += len(preorder)
    flat = [t for v in vals[1:1 + len(chunks)] for t in v]
    for (evs, obs), (k, m) in zip(seqs, flat):
        if k == -1:
            ctx.traces += 1
            continue
        nbad += 1
        ctx.fail("correspondence/trace", "model and implementation disagree at event %d of [%s]: model %r, implementation %r"
                 % (k, " ".join(e[0] for e in evs[:k + 1]), m, pack(obs[k]) if k < len(obs) else None),
                 replay=dict(events=[impl.ev_json(e) for e in evs], at=k), has_input=False)
    ctx.extra["correspondence_cases"] = len(nodes) + len(seqs) + len(micro) + len(preorder) + len(real)
    ctx.extra["correspondence_disagreements"] = nbad
