"""C16 -- Reconnector keeps retrying until stopped and is silent afterwards."""
import glob, json, math, os
from fractions import Fraction
from harness import common

REQ = ["Coq.QArith.QArith", "Verif.lib.ReconnectorBase", "Verif.gen.ReconnectorGen", "Verif.lib.Reconnector"]


def coq_event(ev):
    n = ev[0]
    if n == "fail":
        z = Fraction(ev[1])
        q = "(Qmake (%d)%%Z %d%%positive)" % (z.numerator, z.denominator)
        return "AttemptFail %s" % q
    if n == "ok":
        u = ev[1] if len(ev) > 1 else ()
        return "AttemptOk [%s]" % "; ".join({"stop": "UStop", "reset": "UReset"}[x] for x in u)
    return {"start": "Start", "lost": "Lost", "timer": "TimerExpired", "elapse": "Elapse",
            "reset": "Reset", "stop": "Stop"}[n]


def ns(f):
    """seconds (double) -> nanoseconds, the timer encoding of Reconnector.obs (None -> -1, negatives shifted)"""
    return int(math.floor(f * 1e9))


def pack(o):
    """observation of c16_impl.run_sequence -> the (flags+outputs, delay ns, timer ns) triple of Reconnector.pack_obs"""
    flags, outs, delay, timer = o[:4]
    code = 0
    for c in outs:
        code = code * 8 + c
    if timer is None:
        t = -1
    else:
        t = ns(timer)
        if t < 0:
            t -= 1
    return (flags + 4096 * code, ns(delay), t)


def coq_triple(t):
    return "(%s, %s, %s)" % tuple(common.coq_Z(x) for x in t)


def run(ctx):
    ctx.rule = ("(a) atomic events {start, attempt-ok, attempt-fail(z, failure type), lost, timer-expired, half-the-wait-elapses, "
                "reset, stop} that the real object permits (a Deferred/watcher/timer can only fire if it exists; startConnecting "
                "at most once), each followed by draining the eventual queue: ALL sequences up to the tier's length + seeded "
                "long ones; (b) micro-operations with the reactor turn structure explicit: attempts fire without draining, "
                "'lose' queues the disconnect watchers like Broker does, 'turn' runs one turn of the eventual queue, "
                "stop/reset at top level, from inside the user callback, from inside the user's disconnect handler, or queued "
                "in the same batch ('later'): ALL sequences up to the tier's length + seeded long ones; executed on the real "
                "Reconnector with fake Tub, virtual clocks, scripted normalvariate; the model history is the order in which "
                "the Reconnector's entry points were really invoked; distinct = distinct sequence; non-trivial = at least "
                "two operations, one of them start")
    ctx.assumptions = [
        "delays are exact rationals in the model, IEEE doubles in the code: compared with 1e-9 relative tolerance (+1 ns)",
        "random.normalvariate(mu, sigma) is modelled as mu + z*sigma with the draw z an input; the range theorem assumes "
        "|z| <= Zmax <= 1/jitter (8.36 sigmas); beyond that the delay is negative and reactor.callLater asserts",
        "Tub/Deferred/reactor/RemoteReference are the environment: a fake Tub in the enumerations; the assumption that a lost "
        "connection reaches _disconnected (and a finished attempt _connected/_failed) is checked on real Tub/Broker pairs on the "
        "in-memory network with traffic of every kind in flight at the loss (modelled-not-verified: Twisted's Deferred and DelayedCall)",
        "logging, _last_failure and the informational ReconnectionInfo timestamps are not modelled (white-listed statements)",
        "'after stopConnecting returned' is judged on the order of the actual invocations (flag set when the call returns, "
        "checked inside the user callback, getReference, callLater and notifyOnDisconnect), after every operation and "
        "after a final drain of the eventual queue",
    ]
    ok, log = ctx.coq_build(["props/C16.vo"])
    from harness import c16_impl as impl
    before = len(ctx.failures)

    def report(viol, events, **kw):
        ctx.fail(viol.sig, viol.what + "  [events: %s]" % " ".join(e[0] for e in events),
                 replay=dict(events=[impl.ev_json(e) for e in events], **kw))

    # ---- 0. corpus (regression witnesses), direct oracle
    corpus = []
    corpus_micro = []
    corpus_real = []
    for p in sorted(glob.glob(os.path.join(common.VERIF, "corpus", "C16", "*.json"))):
        j = json.load(open(p))
        if "real_history" in j:
            corpus_real.append((j["real_history"], j.get("stop_stage", "connected")))
            continue
        if "micro_operations" in j:
            ops = [impl.micro_from_json(o) for o in j["micro_operations"]]
            groups, viol, done = impl.run_micro(ops, cb_raises=j.get("cb_raises", False))
            ctx.case(["corpus", os.path.basename(p)], nontrivial=True)
            ctx.hist("source", "corpus")
            if done != len(ops):
                ctx.fail("corpus-not-permitted", "corpus case %s: operation %d is not enabled on the real object" % (p, done),
                         replay=dict(file=p), has_input=False)
            elif viol:
                ctx.fail(viol.sig, viol.what + "  [operations: %s]" % " ".join(impl.micro_name(o) for o in ops),
                         replay=dict(micro_operations=j["micro_operations"], corpus=os.path.basename(p)))
            else:
                corpus_micro.append((ops, groups))
            continue
        evs = [impl.ev_from_json(e) for e in j["events"]]
        obs, viol, done = impl.run_sequence(evs, cb_raises=j.get("cb_raises", False))
        ctx.case(["corpus", os.path.basename(p)], nontrivial=True)
        ctx.hist("source", "corpus")
        if done != len(evs):
            ctx.fail("corpus-not-permitted", "corpus case %s: event %d is not enabled on the real object" % (p, done),
                     replay=dict(file=p), has_input=False)
            continue
        if viol:
            report(viol, evs, corpus=os.path.basename(p))
        else:
            corpus.append((evs, obs))

    # ---- 1. real Tubs on the in-memory network
    for name, sig, good, detail in impl.real_tub_scenarios():
        ctx.case(["real-tub", name], nontrivial=True)
        ctx.hist("source", "real-tub")
        if not good:
            ctx.fail(sig, "real Tub scenario %s: %s" % (name, detail), replay=dict(scenario=name))

    # ---- 1b. the Reconnector on a REAL Tub/Broker pair (in-memory network): traffic of every kind in flight, at every
    #      stage of delivery, when the connection is lost in every way; invariant evaluated on the real stack
    real = []
    rworst = {}

    def real_case(rounds, stop_stage, src):
        rounds = [dict(traffic=[tuple(t) for t in rd["traffic"]], loss=rd["loss"], turn_before_loss=bool(rd["turn_before_loss"]))
                  for rd in rounds]
        groups, viol = impl.run_real_history(rounds, stop_stage)
        ctx.case(["real-stack", [[list(map(list, rd["traffic"])), rd["loss"], rd["turn_before_loss"]] for rd in rounds], stop_stage],
                 nontrivial=True)
        ctx.hist("source", src)
        for rd in rounds:
            ctx.hist("real_loss", rd["loss"])
            for t in rd["traffic"]:
                ctx.hist("real_traffic", "%s@%d" % t)
        if viol:
            size = sum(1 + len(rd["traffic"]) for rd in rounds)
            if viol.sig not in rworst or size < rworst[viol.sig][0]:
                rworst[viol.sig] = (size, viol, rounds, stop_stage)
        else:
            real.append(((rounds, stop_stage), groups))
    for rounds, stop_stage in corpus_real:
        real_case(rounds, stop_stage, "corpus")
    for kind in impl.TRAFFIC:
        for stage in range(4):
            for loss in impl.LOSSES:
                for tb in (False, True):
                    real_case([dict(traffic=[(kind, stage)], loss=loss, turn_before_loss=tb)], "connected", "real-stack-exhaustive")
    for loss in impl.LOSSES:
        for ss in ("connected", "connecting"):
            real_case([dict(traffic=[], loss=loss, turn_before_loss=False)] * 2, ss, "real-stack-exhaustive")
    for k in range(ctx.n(150, 2000)):
        rounds = []
        for r_ in range(ctx.rng.randint(1, 3)):
            tr = [(ctx.rng.choice(impl.TRAFFIC + ["partial"]), ctx.rng.randint(0, 3)) for _ in range(ctx.rng.randint(0, 4))]
            rounds.append(dict(traffic=tr, loss=ctx.rng.choice(impl.LOSSES), turn_before_loss=ctx.rng.random() < 0.3))
        real_case(rounds, ctx.rng.choice(["connected", "connecting"]), "real-stack-seeded")
    for sig, (size, viol, rounds, stop_stage) in sorted(rworst.items()):
        ctx.fail(sig, viol.what + "  [real Tub/Broker history: %s]" % impl.real_history_name(rounds, stop_stage),
                 replay=dict(real_history=[dict(traffic=[list(t) for t in rd["traffic"]], loss=rd["loss"],
                                                turn_before_loss=rd["turn_before_loss"]) for rd in rounds], stop_stage=stop_stage))
    ctx.extra["real_stack_histories"] = len(real) + len(rworst)

    # ---- 2. exhaustive enumeration on the real object, direct oracle on every node
    depth = ctx.n(8, 11)
    nodes = []

    def on_node(path, o, viol):
        nodes.append((path, o))
        ctx.case([impl.ev_json(e) for e in path], nontrivial=(len(path) >= 2 and any(e[0] == "start" for e in path)))
        ctx.hist("length", len(path))
        ctx.hist("last_event", path[-1][0])
        if viol:
            report(viol, path)
    impl.dfs_real(depth, on_node)
    ctx.extra["enumeration_depth"] = depth
    ctx.extra["enumerated_sequences"] = len(nodes)
    for p, o in nodes[:40:8]:
        ctx.sample(dict(events=[impl.ev_json(e) for e in p], observed=dict(flags=o[0], outputs=o[1], delay=o[2], timer=o[3])))

    # ---- 3. seeded long sequences (random draws, random failure types, raising user callback)
    longs = []
    nlong = ctx.n(150, 1500)
    for k in range(nlong):
        L = ctx.rng.randint(12, 60)
        cbr = ctx.rng.random() < 0.3
        drv = impl.Driver(cbr)
        evs = []
        try:
            for i in range(L):
                en = [a for a in impl.ALPHABET if drv.enabled(a)]
                w = [(0.3 if a in ("stop", "reset") and i < L - 8 else 1.0) for a in en]
                a = ctx.rng.choices(en, w)[0]
                ev = ("fail", Fraction(ctx.rng.randint(-128, 128), 16), ctx.rng.randint(0, 4)) if a == "fail" else (a,)
                evs.append(ev)
                try:
                    drv.do(ev)
                except Exception:
                    break           # reported by run_sequence below as oracle/exception-in-reconnector
        finally:
            drv.close()
        obs, viol, done = impl.run_sequence(evs, cb_raises=cbr)
        ctx.case([impl.ev_json(e) for e in evs] + [cbr], nontrivial=True)
        ctx.hist("source", "seeded-long")
        ctx.hist("length", len(evs))
        if viol:
            shrunk = common.shrink_list(evs, lambda c: (lambda r: r[1] is not None and r[1].sig == viol.sig and r[2] == len(c))(
                impl.run_sequence(c, cb_raises=cbr)))
            o2, v2, _ = impl.run_sequence(shrunk, cb_raises=cbr)
            report(v2 or viol, shrunk if v2 else evs, cb_raises=cbr)
        else:
            longs.append((evs, obs))
            nsync, v3 = impl.run_sync_variant(evs, obs, cb_raises=cbr)
            ctx.hist("synchronous_completions", min(nsync, 5))
            if v3:
                report(v3, evs, cb_raises=cbr, variant="synchronous completion")

    # ---- 3b. the reactor turn structure made explicit: every operation at every point of a turn
    #      (same turn right after an attempt's Deferred fired, between drains of the eventual queue, from inside the
    #      user callback / the user's disconnect handler, from an event queued in the same batch)
    micro = list(corpus_micro)
    worst = {}

    def micro_report(viol, path, cbr=False):
        k = viol.sig
        if k not in worst or len(path) < len(worst[k][1]):
            worst[k] = (viol, path, cbr)

    nmicro = [0]

    def on_mnode(path, viol):
        nmicro[0] += 1
        ctx.case(["micro"] + [impl.micro_json(o) for o in path], nontrivial=len(path) >= 2)
        ctx.hist("micro_last_op", impl.micro_name(path[-1]).split(":")[0].split("{")[0])
        if viol:
            micro_report(viol, path)
    mdepth = ctx.n(6, 7)
    mtree = impl.dfs_micro(mdepth, on_mnode)
    ctx.extra["micro_enumeration_depth"] = mdepth
    ctx.extra["micro_enumerated_sequences"] = nmicro[0]
    for k in range(ctx.n(150, 1500)):
        L = ctx.rng.randint(8, 40)
        cbr = ctx.rng.random() < 0.3
        drv = impl.Driver(cbr)
        ops = []
        try:
            for i in range(L):
                en = [a for a in impl.MICRO_ALL if impl.micro_enabled(drv, a)]
                w = [(0.25 if a in (("stop",), ("later", ("stop",))) or (len(a) > 1 and "stop" in a[1]) else 1.0) for a in en]
                a = ctx.rng.choices(en, w)[0]
                if a == ("fail",):
                    a = ("fail", Fraction(ctx.rng.randint(-128, 128), 16), ctx.rng.randint(0, 4))
                elif a == ("later", ("fail",)):
                    a = ("later", ("fail", Fraction(ctx.rng.randint(-128, 128), 16), ctx.rng.randint(0, 4)))
                ops.append(a)
                try:
                    drv.micro(a)
                except Exception:
                    break
        finally:
            drv.close()
        groups, viol, done = impl.run_micro(ops, cb_raises=cbr)
        ctx.case(["micro"] + [impl.micro_json(o) for o in ops] + [cbr], nontrivial=True)
        ctx.hist("source", "seeded-micro")
        if viol:
            shrunk = common.shrink_list(ops, lambda c: (lambda r: r[1] is not None and r[1].sig == viol.sig)(
                impl.run_micro(c, cb_raises=cbr)))
            g2, v2, _ = impl.run_micro(shrunk, cb_raises=cbr)
            micro_report(v2 or viol, shrunk if v2 else ops, cbr)
        else:
            micro.append((ops, groups))
    for k, (viol, path, cbr) in sorted(worst.items()):
        ctx.fail(viol.sig, viol.what + "  [operations: %s]" % " ".join(impl.micro_name(o) for o in path),
                 replay=dict(micro_operations=[impl.micro_json(o) for o in path], cb_raises=cbr))

    # ---- 4. correspondence with the Coq model
    model_ok = ok
    if not ok:
        model_ok, _ = ctx.coq_build(["lib/Reconnector.vo"])
    if model_ok:
        correspond(ctx, depth, nodes, corpus + longs, micro, mtree, real)
    if not ok and len(ctx.failures) == before:
        ctx.fail("proof-broken", "theorem closure props/C16.vo no longer builds against the regenerated gen/ReconnectorGen.v:\n"
                 + log[-2500:], replay=dict(log=log[-6000:]), has_input=False)


def correspond(ctx, depth, nodes, seqs, micro=(), mtree=(), real=()):
    """the comparison runs inside Coq (Reconnector.first_mismatch): the expected observations are written into the
    case file, the model is evaluated with vm_compute, and only the index of the first disagreement comes back"""
    from harness import c16_impl as impl
    body = "Eval vm_compute in first_mismatch 0%%Z (map pack_obs (dfs %d 0 init_state)) %s.\n" % (
        depth, common.coq_list([coq_triple(pack(o)) for _, o in nodes]))
    chunks = [seqs[i:i + 100] for i in range(0, len(seqs), 100)]
    for ch in chunks:
        body += ("Eval vm_compute in map (fun c => first_mismatch 0%%Z (map pack_obs (trace init_state (fst c))) (snd c)) %s.\n"
                 % common.coq_list(["(%s, %s)" % (common.coq_list([coq_event(e) for e in evs]),
                                                  common.coq_list([coq_triple(pack(o)) for o in obs]))
                                    for evs, obs in ch]))
    mchunks = [micro[i:i + 300] for i in range(0, len(micro), 300)]
    for ch in mchunks:
        body += ("Eval vm_compute in map (group_mismatch 0%%Z init_state) %s.\n"
                 % common.coq_list([common.coq_list(["(%s, %s)" % (common.coq_list([coq_event(e) for e in evs]),
                                                                    coq_triple(pack(o))) for evs, o in groups])
                                    for _, groups in ch]))
    rchunks = [real[i:i + 300] for i in range(0, len(real), 300)]
    for ch in rchunks:
        body += ("Eval vm_compute in map (group_mismatch_state 0%%Z init_state) %s.\n"
                 % common.coq_list([common.coq_list(["(%s, %s)" % (common.coq_list([coq_event(e) for e in evs]),
                                                                    coq_triple(pack(o))) for evs, o in groups])
                                    for _, groups in ch]))
    # the exhaustive turn-structure enumeration, as trees with shared prefixes (one per first operation)
    preorder = []

    def gnode(n):
        preorder.append(n)
        return "GNode %s %s %s" % (common.coq_list([coq_event(e) for e in n["evs"]]), coq_triple(pack(n["obs"])),
                                   common.coq_list([gnode(k) for k in n["kids"]]))
    starts = []
    for root in mtree:
        starts.append(len(preorder))
        body += "Eval vm_compute in tree_mismatch (%s) init_state %d%%Z.\n" % (gnode(root), starts[-1])
    try:
        vals = ctx.coq_eval("C16_cases", body, requires=REQ, timeout=1500)
    except common.CoqEvalError as e:
        ctx.fail("correspondence-broken", "the model could not be evaluated: " + str(e)[-1500:], has_input=False)
        return
    nbad = 0
    idx, m = vals[0]
    if idx == -1:
        ctx.traces += len(nodes)
    else:
        nbad += 1
        ctx.traces += idx
        if idx < len(nodes):
            path, o = nodes[idx]
            ctx.fail("correspondence/enumeration", "model and implementation disagree at node %d of the enumeration of all "
                     "permitted sequences, events [%s]: model (flags+4096*outputs, delay ns, timer ns) = %r, implementation %r "
                     "= packed %r" % (idx, " ".join(e[0] for e in path), m, o[:4], pack(o)),
                     replay=dict(events=[impl.ev_json(e) for e in path], model=repr(m), impl=list(pack(o))), has_input=False)
        else:
            ctx.fail("correspondence/enumeration", "the model permits more sequences of length <= %d than the implementation "
                     "(%d); first extra model observation %r" % (depth, len(nodes), m), has_input=False)
    mflat = [t for v in vals[1 + len(chunks):1 + len(chunks) + len(mchunks)] for t in v]
    for (ops, groups), (k, m) in zip(micro, mflat):
        if k == -1:
            ctx.traces += 1
            continue
        nbad += 1
        g = groups[k] if k < len(groups) else None
        ctx.fail("correspondence/turn-structure", "model and implementation disagree at operation %d of [%s] (the last one is "
                 "the final drain): the Reconnector's entry points were invoked as %r; model %r, implementation %r"
                 % (k, " ".join(impl.micro_name(o) for o in ops), g and g[0], m, g and pack(g[1])),
                 replay=dict(micro_operations=[impl.micro_json(o) for o in ops], at=k), has_input=False)
    base = 1 + len(chunks) + len(mchunks)
    rflat = [t for v in vals[base:base + len(rchunks)] for t in v]
    for ((rounds, stop_stage), groups), (k, m) in zip(real, rflat):
        if k == -1:
            ctx.traces += 1
            continue
        nbad += 1
        g = groups[k] if k < len(groups) else None
        ctx.fail("correspondence/real-stack", "model and implementation disagree at observation %d of the real Tub/Broker history "
                 "[%s]: the Reconnector's entry points were invoked as %r; model %r, implementation %r"
                 % (k, impl.real_history_name(rounds, stop_stage), g and g[0], m, g and pack(g[1])), has_input=False)
    for st0, (nxt, bad) in zip(starts, vals[base + len(rchunks):]):
        if bad == "None":
            continue
        k, m = bad[1] if isinstance(bad, tuple) and bad[0] == "Some" else (None, None)
        nbad += 1
        n = preorder[k] if k is not None and k < len(preorder) else None
        ctx.fail("correspondence/turn-structure", "model and implementation disagree after the operations [%s]: the last one "
                 "made the Reconnector's entry points run as %r; model %r, implementation %r"
                 % (n and " ".join(impl.micro_name(o) for o in n["path"]), n and n["evs"], m, n and pack(n["obs"])),
                 replay=dict(micro_operations=n and [impl.micro_json(o) for o in n["path"]]), has_input=False)
    if not nbad:
        ctx.traces += len(preorder)
    flat = [t for v in vals[1:1 + len(chunks)] for t in v]
    for (evs, obs), (k, m) in zip(seqs, flat):
        if k == -1:
            ctx.traces += 1
            continue
        nbad += 1
        ctx.fail("correspondence/trace", "model and implementation disagree at event %d of [%s]: model %r, implementation %r"
                 % (k, " ".join(e[0] for e in evs[:k + 1]), m, pack(obs[k]) if k < len(obs) else None),
                 replay=dict(events=[impl.ev_json(e) for e in evs], at=k), has_input=False)
    ctx.extra["correspondence_cases"] = len(nodes) + len(seqs) + len(micro) + len(preorder) + len(real)
    ctx.extra["correspondence_disagreements"] = nbad
