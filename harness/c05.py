"""C05 -- a connection is bound to a TubID only if the peer proved that identity."""
import itertools, json, os
from harness import common
from harness.common import coq_list, coq_Z, coq_opt

REQ = ["Verif.lib.PyLite", "Verif.gen.NegotiateGen", "Verif.lib.Negotiate", "Verif.gen.IdentityGen", "Verif.lib.Identity"]
CLAIMS = [None, "absent", "A", "B", "C", "empty", "garbage", "upper", "prefix", "ext", "long"]
CERTS = ["none", "A", "B", "C"]
CORPUS = os.path.join(common.VERIF, "corpus", "C05")


def run(ctx):
    ctx.rule = ("cells = role under test x certificate the TLS layer reports (none / own / another Tub's / the verifier's) x "
                "claimed my-tub-id (untouched / absent / each Tub's / empty / garbage / case-changed / truncated / extended / "
                "long) x dialled id x id in the GET line x tub-id order, run on three real Tubs over the in-memory network; "
                "non-trivial = distinct cell that is dishonest in at least one dimension and whose rewrite was applied "
                "(or the honest control cells); plus malformed hello/decision blocks, forged reference URLs, gifts and "
                "random multi-attempt histories on one Tub")
    ctx.assumptions = [
        "TLS is replaced by a no-op startTLS; crypto.peerFromTransport is replaced by the harness and returns the certificate "
        "the cell prescribes: that a certificate reported by TLS was proven by the handshake is trusted, not checked",
        "tubid_of (crypto.digest32 of the sha1 digest) is an uninterpreted function in the theorems; the oracle recomputes it "
        "independently (hashlib + base64) for the certificates used",
        "the model covers Tubs with a certificate (myTubID is never None) and listeners without redirects",
        "exception classes raised by handlePLAINTEXTClient (BananaError on a non-101 answer), the error-block / timeout paths "
        "(RemoteNegotiationError, ConnectionDone, NegotiationError) are hand-modelled and tied by the correspondence only",
    ]
    ok, log = build(ctx, ["props/C05.vo"])
    from harness import c05_impl as impl
    before = len(ctx.failures)
    with impl.quiet():
        cells = corpus(ctx, impl)
        cells += matrix(ctx, impl)
    model_ok = ok
    if not ok:
        model_ok, _ = build(ctx, ["lib/Identity.vo"])
    if model_ok:
        correspond_sessions(ctx, cells)
    with impl.quiet():
        malformed(ctx, impl)
        urls = inbound_urls(ctx, impl)
        gifts(ctx, impl)
        hist = histories(ctx, impl)
    if model_ok:
        correspond_urls(ctx, urls)
        correspond_histories(ctx, hist)
    if not ok and len(ctx.failures) == before:
        ctx.fail("proof-broken", "the Coq development for C05 no longer builds against the regenerated gen/IdentityGen.v "
                 "(theorem closure props/C05.vo):\n" + log[-2500:], replay=dict(log=log[-6000:]), has_input=False)
    elif not ok:
        ctx.note("proof broken AND a failing input was found (reported above)")


MY_CLOSURE = ("gen/IdentityGen.v", "gen/NegotiateGen.v", "lib/PyLite.v", "lib/Negotiate.v", "lib/NegotiateProofs.v",
              "lib/Identity.v", "lib/IdentityProofs.v", "props/C05.v")


def build(ctx, targets):
    """ctx.coq_build; LOCAL WORKAROUND for a shared-file behaviour: common.forbidden_scan() gates on every .v file under
    coq/, so a half-finished file of ANOTHER property (e.g. one containing `Abort`) fails this property's build.  When the
    gate trips only on files outside C05's dependency closure, the same steps are performed here with the gate restricted
    to the closure.  (The translation has already been done by ctx.coq_build at that point.)"""
    import re, subprocess, fcntl
    ok, log = ctx.coq_build(targets)
    if ok or not log.startswith("FORBIDDEN CONSTRUCT"):
        return ok, log
    flagged = [l for l in log.splitlines()[1:] if l.strip()]
    mine = [l for l in flagged if any(("/coq/" + m + ":") in l for m in MY_CLOSURE)]
    if mine:
        return False, "FORBIDDEN CONSTRUCT\n" + "\n".join(mine)
    ctx.note("forbidden-construct gate tripped only on files of other properties (%s); gate applied to C05's closure only"
             % ", ".join(sorted(set(l.split(":")[0].split("/coq/")[-1] for l in flagged))))
    with open(os.path.join(common.BUILD, ".lock"), "w") as lk:
        fcntl.flock(lk, fcntl.LOCK_EX)
        common.refresh_coqproject()
        for t in targets:
            if t.startswith("props/"):
                for ext in (".vo", ".glob", ".vok", ".vos"):
                    try:
                        os.unlink(os.path.join(common.COQ, t[:-3] + ext))
                    except OSError:
                        pass
        cmd = ["timeout", "900", "make", "-j16"] + targets
        r = subprocess.run(cmd, cwd=common.COQ, capture_output=True, text=True)
    log = r.stdout + r.stderr
    ctx.checker_cmds.append("cd coq && " + " ".join(cmd))
    if r.returncode != 0:
        ctx.build_ok = False
        return False, log
    if "Axioms:" in log:
        ctx.build_ok = False
        return False, "AXIOMS REPORTED\n" + log
    ctx.build_ok = True
    ctx.extra["print_assumptions_closed"] = len(re.findall(r"Closed under the global context", log))
    ctx.obligations, names = common.count_obligations(targets)
    ctx.discharged = ctx.obligations
    ctx.extra["theorems"] = names
    return True, log


# ---------------------------------------------------------------------------------------------- cells
def canon(cfg):
    return {k: cfg[k] for k in sorted(cfg) if cfg[k] is not None}


def one_cell(ctx, impl, cfg, tag):
    try:
        t = impl.run_cell(cfg)
    except Exception as e:
        import traceback
        ctx.fail("oracle/exception-escaped", "an exception escaped to the transport/reactor in cell %r: %r" % (cfg, e),
                 replay=dict(cell=cfg, tb=traceback.format_exc()))
        return None
    impl.judge(ctx, tag, cfg, t)
    dishonest = not impl.honest_cell(cfg)
    applied = bool(t.hits) or cfg.get("srv_cert", "B") != "B" or cfg.get("cli_cert", "A") != "A" or cfg.get("dial", "B") != "B"
    ctx.case([tag, canon(cfg)], nontrivial=(dishonest and applied) or not dishonest)
    obs = t.observation()
    kind = "connected" if obs["A_final"] and obs["B_final"] else ("transient" if obs["A_ever"] or obs["B_ever"] else "refused")
    ctx.hist("cell_outcome", kind)
    ctx.hist("client_failure", (obs["client_fail"] or ["-"])[0])
    ctx.hist("server_failure", (obs["server_fail"] or ["-"])[0])
    return dict(cfg=cfg, obs=obs, ids=t.ids)


def matrix(ctx, impl):
    out = []
    cfgs = []
    # the client is the verifier: everything the server presents / claims, against both dialled ids
    for a_pos in ("hi", "lo"):
        for dial in ("B", "C"):
            for cert in CERTS:
                for claim in CLAIMS:
                    cfgs.append(dict(a_pos=a_pos, dial=dial, get="B", srv_cert=cert, srv_claim=claim))
    # the server is the verifier
    for a_pos in ("hi", "lo"):
        for cert in CERTS:
            for claim in CLAIMS:
                cfgs.append(dict(a_pos=a_pos, cli_cert=cert, cli_claim=claim))
        for get in ("C", "A", "empty", "garbage", "upper"):
            for cert in ("none", "A"):
                for claim in (None, "C"):
                    cfgs.append(dict(a_pos=a_pos, get=get, cli_cert=cert, cli_claim=claim))
        cfgs.append(dict(a_pos=a_pos, dial="C"))          # FURL names C, hint leads to B, nothing rewritten
    # tub-id orders in which both ends (or neither) would decide
    for a_pos in ("hi2", "lo2"):
        for extra in (dict(), dict(cli_cert="C", cli_claim="C"), dict(cli_cert="B", cli_claim="B"),
                      dict(dial="C", get="B", srv_cert="C", srv_claim="C"), dict(srv_cert="C"), dict(cli_claim="absent", cli_cert="none")):
            cfgs.append(dict(extra, a_pos=a_pos))
    # both sides dishonest at once, at random
    n = ctx.n(150, 4000)
    for i in range(n):
        r = ctx.rng
        cfgs.append(dict(a_pos=r.choice(["hi", "lo", "hi2", "lo2"]), dial=r.choice(["B", "B", "C"]),
                         get=r.choice([None, "B", "B", "B", "C", "empty", "upper"]),
                         srv_cert=r.choice(CERTS), srv_claim=r.choice(CLAIMS), cli_cert=r.choice(CERTS), cli_claim=r.choice(CLAIMS)))
    for cfg in cfgs:
        c = one_cell(ctx, impl, cfg, "cell")
        if c:
            out.append(c)
    for c in (out[0], out[5], out[200] if len(out) > 200 else out[-1]):
        ctx.sample(dict(kind="cell", cell=c["cfg"], observed=c["obs"]))
    return out


def corpus(ctx, impl):
    """regression witnesses / hand-picked cells, run first (they also take part in the correspondence)"""
    out = []
    if not os.path.isdir(CORPUS):
        return out
    for fn in sorted(os.listdir(CORPUS)):
        if fn.endswith(".json"):
            d = json.load(open(os.path.join(CORPUS, fn)))
            for cfg in d.get("cells", []):
                c = one_cell(ctx, impl, cfg, "corpus:" + fn)
                if c:
                    out.append(c)
    return out


# ---------------------------------------------------------------------------------------------- correspondence (sessions)
def cstr(s):
    return "None" if s is None else "(Some %s)" % zs(s)


def zs(s):
    return "[" + ";".join(str(ord(ch)) for ch in s) + "]%Z"


def session_term(impl, c):
    cfg, ids = c["cfg"], c["ids"]
    certn = dict(none="None", A="(Some 1%Z)", B="(Some 2%Z)", C="(Some 3%Z)")
    dial = ids[cfg.get("dial", "B")]
    req = dial if cfg.get("get") is None else impl.get_value(cfg["get"], ids)
    def claim(kind, untouched, right):
        if kind is None:
            return untouched
        return impl.claim_value(kind, ids, right)
    claim_c = claim(cfg.get("srv_claim"), ids["B"], ids["B"])
    claim_s = claim(cfg.get("cli_claim"), ids["A"], ids["A"])
    return ("(%s, Build_session_cfg Z %s %s %s %s %s %s %s %s)" % (
        "ord_%s" % cfg["a_pos"], "idA_" + cfg["a_pos"], zs(dial), zs(req), "idB_" + cfg["a_pos"],
        certn[cfg.get("srv_cert", "B")], cstr(claim_c), certn[cfg.get("cli_cert", "A")], cstr(claim_s)))


def correspond_sessions(ctx, cells):
    from harness import c05_impl as impl
    if not cells:
        return
    defs = []
    for a_pos in ("hi", "lo", "hi2", "lo2"):
        arr = impl.arrangement(a_pos)
        for k in "ABC":
            defs.append("Definition id%s_%s : list Z := %s." % (k, a_pos, zs(arr[k][0])))
        defs.append("Definition ord_%s : Z -> list Z := fun c => if (c =? 1)%%Z then idA_%s else if (c =? 2)%%Z then idB_%s "
                    "else if (c =? 3)%%Z then idC_%s else []." % (a_pos, a_pos, a_pos, a_pos))
    nbad = 0
    for shard in range(0, len(cells), 400):
        part = cells[shard:shard + 400]
        body = "\n".join(defs) + """
Definition code (tubid_of : Z -> list Z) (k : option (list Z)) : Z :=
  match k with None => (-1)%Z | Some k =>
    if list_eqb k (tubid_of 1%Z) then 1%Z else if list_eqb k (tubid_of 2%Z) then 2%Z else if list_eqb k (tubid_of 3%Z) then 3%Z else 0%Z end.
Definition fs (o : option string) : string := match o with None => "-"%string | Some s => s end.
Definition show (f : Z -> list Z) (o : endobs) := (code f (ever o), code f (final o), fs (fail o)).
Definition cases : list ((Z -> list Z) * session_cfg Z) := """ + coq_list(session_term(impl, c) for c in part) + """.
Eval vm_compute in map (fun c => let '(oc, os) := session Z (fst c) (snd c) in [show (fst c) oc; show (fst c) os]) cases.
"""
        try:
            (vals,) = ctx.coq_eval("C05_sessions_%d" % (shard // 400), body, requires=REQ)
        except common.CoqEvalError as e:
            ctx.fail("correspondence-broken", "the C05 model could not be evaluated: " + str(e)[-1500:], has_input=False)
            return
        for c, (mc, ms) in zip(part, vals):
            ids, o = c["ids"], c["obs"]
            rev = {v: i + 1 for i, v in enumerate([ids["A"], ids["B"], ids["C"]])}
            enc = lambda lst: -1 if not lst else (rev.get(lst[0], 0) if len(lst) == 1 else 99)
            fl = lambda lst: "-" if not lst else (lst[0] if len(lst) == 1 else "+".join(lst))
            ic = (enc(o["A_ever"]), enc(o["A_final"]), fl(o["client_fail"]))
            is_ = (enc(o["B_ever"]), enc(o["B_final"]), fl(o["server_fail"]))
            ctx.traces += 1
            if tuple(mc) != ic or tuple(ms) != is_ or (o["result"] == [42]) != (mc[1] != -1):
                nbad += 1
                if nbad <= 3:
                    ctx.fail("correspondence/session", "model and implementation disagree on cell %r: model client=%r server=%r, "
                             "implementation client=%r server=%r result=%r" % (c["cfg"], mc, ms, ic, is_, o["result"]),
                             replay=dict(cell=c["cfg"], model=[mc, ms], impl=[ic, is_], observed=o), has_input=False)
    ctx.extra["correspondence_session_cells"] = len(cells)
    ctx.extra["correspondence_session_disagreements"] = nbad


# ---------------------------------------------------------------------------------------------- malformed blocks
def malformed(ctx, impl):
    import re
    fams = [
        ("hello-no-colon", lambda d, ids: d.replace(b"my-tub-id: ", b"my-tub-id ") if b"my-tub-id: " in d else d),
        ("hello-two-claims-right-then-wrong", lambda d, ids: re.sub(rb"(my-tub-id: [^\r\n]*\r\n)", lambda m: m.group(1) + b"my-tub-id: " + ids["C"].encode() + b"\r\n", d)),
        ("hello-two-claims-wrong-then-right", lambda d, ids: re.sub(rb"(my-tub-id: [^\r\n]*\r\n)", lambda m: b"my-tub-id: " + ids["C"].encode() + b"\r\n" + m.group(1), d)),
        ("hello-claim-key-uppercase-wrong", lambda d, ids: re.sub(rb"my-tub-id: [^\r\n]*\r\n", b"MY-TUB-ID: " + ids["C"].encode() + b"\r\n", d)),
        ("hello-claim-leading-spaces-wrong", lambda d, ids: re.sub(rb"my-tub-id: [^\r\n]*\r\n", b"my-tub-id:     " + ids["C"].encode() + b"\r\n", d)),
        ("hello-claim-trailing-space", lambda d, ids: re.sub(rb"(my-tub-id: [^\r\n]*)\r\n", rb"\1 \r\n", d)),
        ("hello-claim-nul", lambda d, ids: re.sub(rb"(my-tub-id: [^\r\n]*)\r\n", lambda m: m.group(1) + b"\x00\r\n", d)),
        ("hello-claim-non-ascii", lambda d, ids: re.sub(rb"my-tub-id: [^\r\n]*\r\n", b"my-tub-id: \xff\xfe\r\n", d)),
        ("hello-claim-non-utf8-prefix", lambda d, ids: d.replace(b"my-tub-id: ", b"my-tub-id: \xc3\xa9") if b"my-tub-id: " in d else d),
        ("hello-error-block", lambda d, ids: b"error: go away\r\n" if b"my-tub-id: " in d else d),
        ("hello-binary", lambda d, ids: bytes(range(256)) if b"my-tub-id: " in d else d),
        ("hello-oversized", lambda d, ids: b"x-pad: " + b"A" * 5000 + b"\r\n" + d if b"my-tub-id: " in d else d),
        ("hello-forced", lambda d, ids: d + b"negotiation-forced: true\r\n" if b"my-tub-id: " in d else d),
        ("decision-claims-other-tub", lambda d, ids: d + b"my-tub-id: " + ids["C"].encode() + b"\r\n" if d.startswith(b"banana-decision-version") else d),
        ("decision-garbage-version", lambda d, ids: re.sub(rb"banana-decision-version: \d+", b"banana-decision-version: zz", d)),
        ("decision-error", lambda d, ids: d + b"error: no\r\n" if d.startswith(b"banana-decision-version") else d),
        ("decision-missing-version", lambda d, ids: b"x: y\r\n" if d.startswith(b"banana-decision-version") else d),
        ("get-two-tokens", lambda d, ids: b"GET /id/" + ids["B"].encode() if d.startswith(b"GET ") else d),
        ("get-not-id", lambda d, ids: b"GET /index.html HTTP/1.1" if d.startswith(b"GET ") else d),
        ("get-post", lambda d, ids: d.replace(b"GET ", b"POST ") if d.startswith(b"GET ") else d),
        ("get-id-with-trailing-junk", lambda d, ids: re.sub(rb"^GET /id/(\S*)", rb"GET /id/\1/../x", d)),
        ("http-200-instead-of-101", lambda d, ids: d.replace(b"HTTP/1.1 101", b"HTTP/1.1 200") if d.startswith(b"HTTP/1.1 101") else d),
        ("http-no-upgrade", lambda d, ids: b"HTTP/1.1 101 Switching Protocols\r\nConnection: Upgrade" if d.startswith(b"HTTP/1.1 101") else d),
    ]
    last = None
    for name, fn in fams:
        for side in (0, 1):
            for a_pos in ("hi", "lo"):
                for base in (dict(), dict(srv_cert="C"), dict(cli_cert="C"), dict(dial="C", get="B")):
                    cfg = dict(base, a_pos=a_pos)
                    hit = []

                    def extra(link, s, d, fn=fn, side=side, hit=hit):
                        if s != side or link.name != "L0":
                            return d
                        d2 = fn(d, IDS[0])
                        if d2 != d:
                            hit.append(1)
                        return d2
                    IDS = [{k: v[0] for k, v in impl.arrangement(a_pos).items()}]
                    try:
                        t = impl.run_cell(cfg, extra)
                    except Exception as e:
                        import traceback
                        ctx.fail("oracle/malformed-exception", "an exception escaped for malformed block %s (side %d) in cell %r: %r"
                                 % (name, side, cfg, e), replay=dict(malformed=name, side=side, cell=cfg, tb=traceback.format_exc()))
                        continue
                    mcfg = dict(cfg, malformed=name, side=side)
                    ctx.case(["malformed", name, side, canon(cfg)], nontrivial=bool(hit))
                    ctx.hist("malformed_outcome", "not-applicable" if not hit else ("connected" if t.result == [42] else "refused"))
                    if not hit:
                        continue
                    # the oracle proper (proof of identity) applies unchanged; honesty of the outcome is not prescribed here
                    problems = list(t.bad)
                    dial = t.ids[cfg.get("dial", "B")]
                    for (tn, key, is_client, cid) in t.attached:
                        if cid != "loopback" and (cid is None or cid != key):
                            problems.append(("attached-unproven", tn, key, cid))
                        if is_client and key != dial:
                            problems.append(("client-attached-other-than-dialled", tn, key, dial))
                    if t.result == [42] and not any(n == "A" and key == dial and cid == dial for (n, key, ic, cid) in t.attached):
                        problems.append(("getReference-succeeded-without-proof", "A", dial, None))
                    if len(t.result) != 1:
                        problems.append(("getReference-fired-%d-times" % len(t.result), "A", dial, None))
                    for p in problems[:2]:
                        ctx.fail("oracle/malformed/%s" % p[0], "%s with malformed block %s (direction %d): Tub %s key=%s certificate/expected=%s; cell %r"
                                 % (p[0], name, side, p[1], p[2], p[3], cfg),
                                 replay=dict(cell=mcfg, attached=t.attached, final=t.final, result=t.result, neglog=t.neglog))
                    last = dict(kind="malformed", cell=mcfg, result=t.result, attached=t.attached)
    if last:
        ctx.sample(last)


# ---------------------------------------------------------------------------------------------- inbound reference URLs
def inbound_urls(ctx, impl):
    """B (connected honestly, or C impersonated as far as the harness allows) hands A a Referenceable whose my-reference
    URL names some tub id; A may only accept it if that id is the id its connection is registered under."""
    out = []
    for a_pos in ("hi", "lo"):
        for kind in ("B", "C", "A", "upper", "ext", "prefix", "garbage", "nourl"):
            try:
                r = impl.url_trial(a_pos, kind)
            except Exception as e:
                import traceback
                ctx.fail("oracle/inbound-url/exception", "exception escaped during the inbound-url trial %s/%s: %r" % (a_pos, kind, e),
                         replay=dict(a_pos=a_pos, url_kind=kind, tb=traceback.format_exc()))
                continue
            ctx.case(["inbound-url", a_pos, kind], nontrivial=kind != "B")
            ctx.hist("inbound_url_outcome", "accepted" if r["accepted"] else "refused")
            for p in r["problems"][:2]:
                ctx.fail("oracle/inbound-url/%s" % p[0], "%s: %s (url kind %s, order %s)" % (p[0], p[1], kind, a_pos),
                         replay=dict(a_pos=a_pos, url_kind=kind, detail=r))
            out.append(r)
    if len(out) > 1:
        ctx.sample(dict(kind="inbound-url", case={k: out[1][k] for k in ("a_pos", "kind", "url", "accepted", "result")}))
    return out


def correspond_urls(ctx, urls):
    rows = [r for r in urls if r["url_id"] is not None]
    if not rows:
        return
    body = "Eval vm_compute in [" + "; ".join("accept_inbound_ref %s %s" % (zs(r["key"]), zs(r["url_id"])) for r in rows) + "].\n"
    try:
        (vals,) = ctx.coq_eval("C05_urls", body, requires=REQ)
    except common.CoqEvalError as e:
        ctx.fail("correspondence-broken", "the C05 model could not be evaluated: " + str(e)[-1500:], has_input=False)
        return
    for r, m in zip(rows, vals):
        ctx.traces += 1
        if bool(m) != bool(r["accepted"]):
            ctx.fail("correspondence/inbound-url", "model says accept=%r, implementation accepted=%r for a reference whose URL names %r "
                     "over the connection registered under %r" % (m, r["accepted"], r["url_id"], r["key"]),
                     replay=dict(case=r, model=m), has_input=False)
    ctx.extra["correspondence_url_cases"] = len(rows)


def gifts(ctx, impl):
    """a third-party reference (their-reference) naming Tub C, handed over by B: A must connect to C itself and prove C"""
    for a_pos in ("hi", "lo"):
        for target_honest in (True, False):
            try:
                r = impl.gift_trial(a_pos, target_honest)
            except Exception as e:
                import traceback
                ctx.fail("oracle/gift/exception", "exception escaped during the gift trial %s/%s: %r" % (a_pos, target_honest, e),
                         replay=dict(a_pos=a_pos, target_honest=target_honest, tb=traceback.format_exc()))
                continue
            ctx.case(["gift", a_pos, target_honest], nontrivial=True)
            ctx.hist("gift_outcome", "delivered" if r["delivered"] else "refused")
            for p in r["problems"][:2]:
                ctx.fail("oracle/gift/%s" % p[0], "%s: %s (order %s, honest target %s)" % (p[0], p[1], a_pos, target_honest),
                         replay=dict(a_pos=a_pos, target_honest=target_honest, detail=r))


# ---------------------------------------------------------------------------------------------- histories on one Tub
def histories(ctx, impl):
    n = ctx.n(40, 1500)
    out = []
    for i in range(n):
        length = ctx.rng.randint(2, 7)
        try:
            h = impl.history_trial(ctx.rng, length)
        except Exception as e:
            import traceback
            ctx.fail("oracle/history/exception", "exception escaped while running a history on Tub A: %r" % (e,),
                     replay=dict(tb=traceback.format_exc()))
            continue
        ctx.case(["history", h["ops"]], nontrivial=any(o[0] != "detach" for o in h["ops"]) and len(h["ops"]) >= 2)
        ctx.hist("history_length", len(h["ops"]))
        for o in h["ops"]:
            ctx.hist("history_op", o[0])
        for p in h["problems"][:2]:
            ctx.fail("oracle/history/%s" % p[0], "%s: %s after history %r" % (p[0], p[1], h["ops"]), replay=dict(history=h))
        out.append(h)
    if out:
        ctx.sample(dict(kind="history", ops=out[0]["ops"], tables=out[0]["tables"]))
    return out


def correspond_histories(ctx, hist):
    from harness import c05_impl as impl
    if not hist:
        return
    certn = dict(none="None", A="(Some 1%Z)", B="(Some 2%Z)", C="(Some 3%Z)")
    defs = []
    allids = {}
    for a_pos in ("hi", "lo"):
        arr = impl.arrangement(a_pos)
        allids[a_pos] = {k: v[0] for k, v in arr.items()}
        for k in "ABC":
            defs.append("Definition id%s_%s : list Z := %s." % (k, a_pos, zs(arr[k][0])))
        defs.append("Definition tid_%s : Z -> list Z := fun c => if (c =? 1)%%Z then idA_%s else if (c =? 2)%%Z then idB_%s "
                    "else if (c =? 3)%%Z then idC_%s else []." % (a_pos, a_pos, a_pos, a_pos))
    defs = "\n".join(defs) + """
Definition code (tid : Z -> list Z) (k : list Z) : Z :=
  if list_eqb k (tid 1%Z) then 1%Z else if list_eqb k (tid 2%Z) then 2%Z else if list_eqb k (tid 3%Z) then 3%Z else 0%Z.
Definition show (tid : Z -> list Z) (t : table Z) :=
  map (fun e => (code tid (fst e), match conn_cert Z (snd e) with Some c => c | None => 0%Z end, conn_loop Z (snd e))) t.
Fixpoint trace (tid : Z -> list Z) (t : table Z) (evs : list (event Z)) : list (list (Z * Z * bool)) :=
  match evs with [] => [] | e :: r => let t' := step Z tid (tid 1%Z) t e in show tid t' :: trace tid t' r end.
"""
    def ev(o, a_pos):
        if o[0] == "detach":
            return "(Detached Z id%s_%s)" % (o[1], a_pos)
        if o[0] == "loopback":
            return "(LoopbackRequested Z)"
        role, target, cert, claim, arrives, dropped = o[1:]
        return "(Negotiated Z %s %s %s %s %s %s)" % (role, ("id%s_%s" % (target, a_pos)) if target else "[]", certn[cert], cstr(claim),
                                                     "true" if arrives else "false", "true" if dropped else "false")
    nbad = 0
    for shard in range(0, len(hist), 300):
        part = hist[shard:shard + 300]
        body = defs + "Eval vm_compute in [" + ";\n ".join(
            "trace tid_%s [] [%s]" % (h["a_pos"], "; ".join(ev(o, h["a_pos"]) for o in h["model_ops"])) for h in part) + "].\n"
        try:
            (vals,) = ctx.coq_eval("C05_hist_%d" % (shard // 300), body, requires=REQ)
        except common.CoqEvalError as e:
            ctx.fail("correspondence-broken", "the C05 table model could not be evaluated: " + str(e)[-1500:], has_input=False)
            return
        for h, tr in zip(part, vals):
            ids = allids[h["a_pos"]]
            rev = {ids["A"]: 1, ids["B"]: 2, ids["C"]: 3}
            ctx.traces += 1
            want = [sorted((rev.get(k, 0), rev.get(c, 0) if c else 0, bool(loop)) for (k, c, loop) in tab) for tab in h["tables"]]
            got = [sorted((a, b, bool(c)) for (a, b, c) in tab) for tab in tr]
            if want != got:
                nbad += 1
                if nbad <= 3:
                    ctx.fail("correspondence/history", "Tub.brokers and the model's table differ along history %r: implementation %r, model %r"
                             % (h["ops"], want, got), replay=dict(history=h, model=got, impl=want), has_input=False)
    ctx.extra["correspondence_history_traces"] = len(hist)
    ctx.extra["correspondence_history_disagreements"] = nbad
