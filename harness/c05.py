"""C05 -- a connection is bound to a TubID only if the peer proved that identity."""
import itertools, json, os
from harness import common
from harness.common import coq_list, coq_Z, coq_opt

REQ = ["Verif.lib.PyLite", "Verif.gen.NegotiateGen", "Verif.lib.Negotiate", "Verif.gen.IdentityGen", "Verif.lib.Identity"]
REQB = ["Verif.lib.PyLite", "Verif.gen.NegotiateGen", "Verif.lib.Negotiate", "Verif.lib.NegBytes", "Verif.gen.IdentityGen", "Verif.lib.NegSplit",
        "Verif.lib.Identity", "Verif.lib.IdentityBytes", "Verif.lib.NegCodec", "Verif.gen.NegCodecGen", "Verif.lib.NegWire",
        "Verif.lib.IdentityBytesReal"]
REQK = ["Verif.lib.PyLite", "Verif.gen.NegotiateGen", "Verif.lib.Negotiate", "Verif.gen.IdentityGen", "Verif.lib.Identity", "Verif.lib.IdentityKeys"]
CLAIMS = [None, "absent", "A", "B", "C", "empty", "garbage", "upper", "prefix", "ext", "long"]
CERTS = ["none", "A", "B", "C"]
CORPUS = os.path.join(common.VERIF, "corpus", "C05")


def run(ctx):
    ctx.rule = ("cells = role under test x LEAF certificate the peer authenticates with (none / own / another Tub's / the verifier's) x "
                "extra certificates it sends along (none / each other Tub's public certificate / two) x claimed my-tub-id (untouched / "
                "absent / each Tub's / empty / garbage / case-changed / truncated / extended / long) x dialled id x id in the GET line x "
                "tub-id order, run on three real Tubs over the in-memory network, once with in-flight bytes dropped at hang-up and once "
                "with in-flight bytes delivered until connectionLost; non-trivial = distinct cell that is dishonest in at least one "
                "dimension and whose rewrite was applied (or the honest control cells).  Scripts = a raw peer sending every sequence of "
                "header-block kinds (three hello variants, good/bad decision, error, junk; RPC bytes) of length <= 2 (thorough: 3) in "
                "every chunking to a real Tub as client and as server, never stopping after a rejection; non-trivial = at least two "
                "blocks.  Plus malformed hello/decision blocks, forged reference URLs, gifts and random multi-attempt histories on "
                "one Tub that interleave Tub peers with such raw peers.  getReference histories = requests for different Tubs / names "
                "made before startService (queued), startService, requests after it (all queues of length <= 2, all of length 3 over "
                "five targets, random longer ones); non-trivial = at least two queued requests naming different objects; every "
                "result is judged by the per-reference oracle (connection key, leaf certificate, reference URL, object reached).  Crossed "
                "connections = four Tubs: A has lookups pending to 2 or 3 Tubs (every order) on held links, 1 or 2 of them connect to A, "
                "links finish in several orders and in random delivery-by-delivery interleavings; non-trivial = an inbound connection "
                "was attached at A while >= 2 lookups were issued; table and per-reference oracles judged after every delivery.  Byte scripts = a raw peer "
                "sends BYTES from the first byte of the connection: every variant of the plaintext block (GET line / 101 answer: wrong verb, token "
                "counts, other / empty / undecodable id, redirect configured, missing upgrade), then hello / decision / hybrid hello+decision / "
                "error / junk / over-long blocks, header text with well-formed 2/3/4-byte UTF-8 and every kind of malformed sequence (80 block kinds), "
                "all pairs of 9 core kinds, cut at arbitrary BYTE offsets; "
                "non-trivial = at least 3 blocks or a non-standard plaintext block; phase, theirTubRef, attached keys and the exception class are "
                "compared with the byte-level model after every chunk.  Reference histories = an authenticated peer sends sequences of "
                "my-reference forms (short / long, URL absent / own / another Tub's / the receiver's / case-changed) for new and known clids; "
                "all pairs on one clid plus random longer ones; every tracker and RemoteReference judged after every step.  Key trials = FURLs naming the same Tub in other words (other hints, "
                "other name, longer tubid part, no hints, upper case) and another Tub at the same location, asked in fixed and random orders; "
                "ids differing from a connected Tub's in one character; TubRef equality / hash / dict membership on a 24 x 24 grid of (tubID, hints) pairs")
    ctx.assumptions = [
        "TLS itself is replaced: startTLS is a no-op and the transport's handle is a fake OpenSSL connection object "
        "(get_peer_certificate / get_peer_cert_chain / get_verified_chain) describing what the peer presents: a leaf certificate plus "
        "extra certificates.  The tree's OWN crypto.peerFromTransport (and twisted's Certificate.peerFromTransport) run on it.  Trusted, "
        "not checked: the handshake proves possession of the LEAF certificate's key, and of nothing else the peer sends",
        "tubid_of (crypto.digest32 of the sha1 digest) is an uninterpreted function in the theorems; the oracle recomputes it "
        "independently (hashlib + base64) for the certificates used",
        "the model covers Tubs with a certificate (myTubID is never None: Tub.setupEncryption always sets it).  Listeners WITH redirects are "
        "inside the byte-level model: the redirect table is a universally quantified parameter and the redirect branch (sendRedirect "
        "raises) is translated",
        "byte-level receive loop (lib/IdentityBytes.v): translated = block splitter tests (header_verdict), phase dispatch, "
        "handlePLAINTEXTServer / handlePLAINTEXTClient statement by statement incl. their exception classes, identity checks, attach key, "
        "phase constants; hand-modelled and compared with the real Negotiation chunk by chunk = the statement order inside handleENCRYPTED / "
        "handleDECIDING, switchToBanana emptying the buffer.  In the general theorems the header parser, UTF-8 decoding, every non-identity "
        "check (before / after the identity checks, acceptDecision) and the redirect table are universally quantified (nothing assumed).  The "
        "C05_real_* corollaries and the correspondence instantiate them with C13's translated parseLines (strict UTF-8 decoder of "
        "lib/NegCodec.v) and the wire-level checks of lib/NegWire.v (eval_hello_wire, decide_wire, accept_wire) plus `assert not forced`; "
        "of these, NegCodec.py_int does not cover integer fields with bytes >= 128 (the generated integer fields are ASCII; all other header "
        "text is arbitrary bytes), and the duplicate-connection rule of the deciding end (C14) is not part of post_chk",
        "getReference key path: TubRef._distinguishers / __eq__ / __hash__ (gen/FurlGen.v, C20's generator), SturdyRef.getTubRef, "
        "TubRef.__init__, Tub._getReference's key, Tub.getBrokerForTubRef's decision are translated; a dict probe is modelled as 'equal hashed "
        "tuples and __eq__' (a hash collision between unequal tuples could only be filtered by __eq__ anyway); FURL parsing is C20's model of "
        "decode_furl (the tub id a FURL names = first 32 characters of its tubid part), tied here by comparing SturdyRef(furl).tubID with an "
        "independent reading of the FURL text",
        "exception classes on the certificate-less path (twisted's CertificateError), the error-block and timeout paths "
        "(RemoteNegotiationError, ConnectionDone, NegotiationError of the session model) are hand-modelled and tied by the correspondence only",
        "_test_options (debug_slow_* / debug_pause_* timers of Negotiation) are taken to be unset; bytes that arrive after switchToBanana go to "
        "the Broker and are outside this property's model (oracle only)",
        "`assert theirTubID` is not executed under python -O: C05_without_asserts states exactly what is then still guaranteed (only the "
        "anonymous peer on a listener is additionally accepted, and only if crypto.peerFromTransport did not raise for the missing certificate)",
    ]
    ok, log = build(ctx, ["props/C05.vo"])
    from harness import c05_impl as impl
    before = len(ctx.failures)
    with impl.quiet():
        cells = _t(ctx, 'corpus', corpus, ctx, impl)
        cells += _t(ctx, 'matrix', matrix, ctx, impl)
    _t(ctx, 'closed_world', closed_world, ctx)
    model_ok = bytes_ok = keys_ok = ok
    if not ok:
        model_ok, _ = build(ctx, ["lib/Identity.vo"])
        bytes_ok, _ = build(ctx, ["lib/IdentityBytesReal.vo"])
        keys_ok, _ = build(ctx, ["lib/IdentityKeys.vo"])
    if model_ok:
        _t(ctx, 'correspond_sessions', correspond_sessions, ctx, cells)
    with impl.quiet():
        _t(ctx, 'malformed', malformed, ctx, impl)
        urls = _t(ctx, 'inbound_urls', inbound_urls, ctx, impl)
        rhist = _t(ctx, 'ref_histories', ref_histories, ctx, impl)
        ktr = _t(ctx, 'key_trials', key_trials, ctx, impl)
        _t(ctx, 'gifts', gifts, ctx, impl)
        hist = _t(ctx, 'histories', histories, ctx, impl)
        scripts = _t(ctx, 'keeps_sending', keeps_sending, ctx, impl)
        bscripts = _t(ctx, 'bytes_scripts', bytes_scripts, ctx, impl)
        grs = _t(ctx, 'getref_histories', getref_histories, ctx, impl)
        crs = _t(ctx, 'crossed', crossed, ctx, impl)
    if model_ok:
        _t(ctx, 'correspond_getrefs', correspond_getrefs, ctx, grs)
        _t(ctx, 'correspond_crossed', correspond_crossed, ctx, crs)
        _t(ctx, 'correspond_urls', correspond_urls, ctx, urls)
        _t(ctx, 'correspond_ref_histories', correspond_ref_histories, ctx, rhist)
        _t(ctx, 'correspond_histories', correspond_histories, ctx, hist)
        _t(ctx, 'correspond_scripts', correspond_scripts, ctx, scripts)
    if bytes_ok:
        _t(ctx, 'correspond_bytes', correspond_bytes, ctx, bscripts)
    if keys_ok:
        _t(ctx, 'correspond_keys', correspond_keys, ctx, ktr)
    if not ok and len(ctx.failures) == before:
        ctx.fail("proof-broken", "the Coq development for C05 no longer builds against the regenerated gen/IdentityGen.v "
                 "(theorem closure props/C05.vo):\n" + log[-2500:], replay=dict(log=log[-6000:]), has_input=False)
    elif not ok:
        ctx.note("proof broken AND a failing input was found (reported above)")


def closed_world(ctx):
    """mutation test of the translator's closed-world reading (translate/g_identity.py gen_entry): the paths to switchToBanana /
    Tub.brokerAttached that the byte-level model has are all there are.  Each mutant opens another path (doNegotiation not True, a
    new caller, a stored bound method, access by name, another module, a subclass) without touching any statement the other
    translators read; the translator must refuse every one of them and accept the tree as it is."""
    try:
        from translate import g_identity
        rows = g_identity.closed_world_selftest(limit=ctx.n(4, None))
    except Exception as e:          # the translator itself broke: ctx.coq_build has reported / will report it
        ctx.note("closed-world mutation test not run: %s: %s" % (type(e).__name__, str(e)[:200]))
        return
    ctx.extra["closed_world_mutants"] = [[n, ok_, msg[:120]] for n, ok_, msg in rows]
    if rows and rows[0][0] == "unchanged" and not rows[0][1]:
        return                      # generate() failed for this tree; reported as translator failure / proof-broken
    for name, ok_, msg in rows[1:]:
        ctx.hist("closed_world", "refused" if ok_ else "ACCEPTED")
        if not ok_:
            ctx.fail("translator/closed-world-not-enforced",
                     "the translator accepted a package in which switchToBanana / Tub.brokerAttached is reachable by a path the "
                     "model does not have (mutant: %s); every theorem about brecv_all would hold vacuously of such a tree" % name,
                     replay=dict(mutant=name), has_input=False)


def _t(ctx, name, fn, *args):
    """run one section, recording its wall and child-inclusive CPU seconds in the evidence"""
    import time, os
    w0, c0 = time.time(), sum(os.times()[:4])
    try:
        return fn(*args)
    finally:
        ctx.extra.setdefault("section_s", {})[name] = [round(time.time() - w0, 1), round(sum(os.times()[:4]) - c0, 1)]


MY_CLOSURE = ("gen/IdentityGen.v", "gen/NegotiateGen.v", "lib/PyLite.v", "lib/Negotiate.v", "lib/NegotiateProofs.v",
              "lib/Identity.v", "lib/IdentityProofs.v", "lib/NegBytes.v", "lib/NegSplit.v", "lib/IdentityBytes.v",
              "lib/IdentityBytesProofs.v", "lib/IdentityBytesReal.v", "lib/IdentityBytesRealProofs.v", "lib/IdentityKeys.v",
              "lib/IdentityKeysProofs.v", "lib/IdentityComposeProofs.v", "lib/NegCodec.v", "gen/NegCodecGen.v", "lib/NegWire.v", "props/C05.v")


def build(ctx, targets):
    """ctx.coq_build; LOCAL WORKAROUND for a shared-file behaviour: common.forbidden_scan() gates on every .v file under
    coq/, so a half-finished file of ANOTHER property (e.g. one containing `Abort`) fails this property's build.  When the
    gate trips only on files outside C05's dependency closure, the same steps are performed here with the gate restricted
    to the closure.  (The translation has already been done by ctx.coq_build at that point.)"""
    import re, subprocess, fcntl
    ok, log = ctx.coq_build(targets)
    if ok or not log.startswith("FORBIDDEN CONSTRUCT"):
        return ok, log
    flagged = [l for l in log.splitlines()[1:] if l.strip()]
    mine = [l for l in flagged if any(("/coq/" + m + ":") in l for m in MY_CLOSURE)]
    if mine:
        return False, "FORBIDDEN CONSTRUCT\n" + "\n".join(mine)
    ctx.note("forbidden-construct gate tripped only on files of other properties (%s); gate applied to C05's closure only"
             % ", ".join(sorted(set(l.split(":")[0].split("/coq/")[-1] for l in flagged))))
    with open(os.path.join(common.BUILD, ".lock"), "w") as lk:
        fcntl.flock(lk, fcntl.LOCK_EX)
        common.refresh_coqproject()
        for t in targets:
            if t.startswith("props/"):
                for ext in (".vo", ".glob", ".vok", ".vos"):
                    try:
                        os.unlink(os.path.join(common.COQ, t[:-3] + ext))
                    except OSError:
                        pass
        cmd = ["timeout", "900", "make", "-j16"] + targets
        r = subprocess.run(cmd, cwd=common.COQ, capture_output=True, text=True)
    log = r.stdout + r.stderr
    ctx.checker_cmds.append("cd coq && " + " ".join(cmd))
    if r.returncode != 0:
        ctx.build_ok = False
        return False, log
    if "Axioms:" in log:
        ctx.build_ok = False
        return False, "AXIOMS REPORTED\n" + log
    ctx.build_ok = True
    ctx.extra["print_assumptions_closed"] = len(re.findall(r"Closed under the global context", log))
    ctx.obligations, names = common.count_obligations(targets)
    ctx.discharged = ctx.obligations
    ctx.extra["theorems"] = names
    return True, log


# ---------------------------------------------------------------------------------------------- cells
def canon(cfg):
    return {k: cfg[k] for k in sorted(cfg) if cfg[k] is not None}


def one_cell(ctx, impl, cfg, tag, keep_sending=False):
    try:
        t = impl.run_cell(cfg, keep_sending=keep_sending)
    except Exception as e:
        import traceback
        ctx.fail("oracle/exception-escaped", "an exception escaped to the transport/reactor in cell %r: %r" % (cfg, e),
                 replay=dict(cell=cfg, tb=traceback.format_exc()))
        return None
    impl.judge(ctx, tag, cfg, t)
    dishonest = not impl.honest_cell(cfg)
    applied = bool(t.hits) or cfg.get("srv_cert", "B") != "B" or cfg.get("cli_cert", "A") != "A" or cfg.get("dial", "B") != "B" \
        or bool(cfg.get("srv_extra")) or bool(cfg.get("cli_extra"))
    dishonest = dishonest or bool(cfg.get("srv_extra")) or bool(cfg.get("cli_extra"))
    ctx.case([tag, canon(cfg)], nontrivial=(dishonest and applied) or not dishonest)
    obs = t.observation()
    kind = "connected" if obs["A_final"] and obs["B_final"] else ("transient" if obs["A_ever"] or obs["B_ever"] else "refused")
    ctx.hist("cell_outcome", kind)
    ctx.hist("client_failure", (obs["client_fail"] or ["-"])[0])
    ctx.hist("server_failure", (obs["server_fail"] or ["-"])[0])
    return dict(cfg=cfg, obs=obs, ids=t.ids)


def matrix(ctx, impl):
    out = []
    cfgs = []
    # the client is the verifier: everything the server presents / claims, against both dialled ids
    for a_pos in ("hi", "lo"):
        for dial in ("B", "C"):
            for cert in CERTS:
                for claim in CLAIMS:
                    cfgs.append(dict(a_pos=a_pos, dial=dial, get="B", srv_cert=cert, srv_claim=claim))
    # the server is the verifier
    for a_pos in ("hi", "lo"):
        for cert in CERTS:
            for claim in CLAIMS:
                cfgs.append(dict(a_pos=a_pos, cli_cert=cert, cli_claim=claim))
        for get in ("C", "A", "empty", "garbage", "upper"):
            for cert in ("none", "A"):
                for claim in (None, "C"):
                    cfgs.append(dict(a_pos=a_pos, get=get, cli_cert=cert, cli_claim=claim))
        cfgs.append(dict(a_pos=a_pos, dial="C"))          # FURL names C, hint leads to B, nothing rewritten
    # a peer that authenticates with one certificate and SENDS further ones along (other Tubs' public certificates)
    EXTRAS = [["B"], ["C"], ["A"], ["C", "B"], ["B", "C"]]
    for a_pos in ("hi", "lo"):
        for dial in ("B", "C"):
            for cert in CERTS:
                for extra in EXTRAS:
                    for claim in (None, "C", "A", "absent"):
                        cfgs.append(dict(a_pos=a_pos, dial=dial, get="B", srv_cert=cert, srv_extra=extra, srv_claim=claim))
        for cert in CERTS:
            for extra in EXTRAS:
                for claim in (None, "B", "C", "absent"):
                    cfgs.append(dict(a_pos=a_pos, cli_cert=cert, cli_extra=extra, cli_claim=claim))
    # tub-id orders in which both ends (or neither) would decide
    for a_pos in ("hi2", "lo2"):
        for extra in (dict(), dict(cli_cert="C", cli_claim="C"), dict(cli_cert="B", cli_claim="B"),
                      dict(dial="C", get="B", srv_cert="C", srv_claim="C"), dict(srv_cert="C"), dict(cli_claim="absent", cli_cert="none")):
            cfgs.append(dict(extra, a_pos=a_pos))
    # both sides dishonest at once, at random
    n = ctx.n(150, 4000)
    for i in range(n):
        r = ctx.rng
        cfgs.append(dict(a_pos=r.choice(["hi", "lo", "hi2", "lo2"]), dial=r.choice(["B", "B", "C"]),
                         get=r.choice([None, "B", "B", "B", "C", "empty", "upper"]),
                         srv_cert=r.choice(CERTS), srv_claim=r.choice(CLAIMS), cli_cert=r.choice(CERTS), cli_claim=r.choice(CLAIMS),
                         srv_extra=r.choice([None, None] + EXTRAS), cli_extra=r.choice([None, None] + EXTRAS)))
    for cfg in cfgs:
        c = one_cell(ctx, impl, cfg, "cell")
        if c:
            out.append(c)
    # the same cells once more with the transport semantics of a real socket: what the peer Tub has already sent (its
    # decision, its first RPC bytes) still reaches an end that has rejected the hello and hung up, until connectionLost.
    # Oracle only (the failure classes of this schedule are not part of the session model).
    for cfg in cfgs:
        one_cell(ctx, impl, cfg, "cell-in-flight-delivered", keep_sending=True)
    for c in (out[0], out[5], out[200] if len(out) > 200 else out[-1]):
        ctx.sample(dict(kind="cell", cell=c["cfg"], observed=c["obs"]))
    return out


def corpus(ctx, impl):
    """regression witnesses / hand-picked cells, run first (they also take part in the correspondence)"""
    out = []
    if not os.path.isdir(CORPUS):
        return out
    for fn in sorted(os.listdir(CORPUS)):
        if fn.endswith(".json"):
            d = json.load(open(os.path.join(CORPUS, fn)))
            for cfg in d.get("cells", []):
                c = one_cell(ctx, impl, cfg, "corpus:" + fn)
                if c:
                    out.append(c)
    return out


# ---------------------------------------------------------------------------------------------- correspondence (sessions)
def cstr(s):
    return "None" if s is None else "(Some %s)" % zs(s)


class Lits:
    """string literals of one correspondence file: each distinct string is written once as a Definition and referred to by name
    (coqc spends most of its time parsing number lists)"""

    def __init__(self):
        self.names, self.defs = {}, []

    def __call__(self, s):
        if s not in self.names:
            self.names[s] = "lit%d" % len(self.names)
            self.defs.append("Definition %s : list Z := %s." % (self.names[s], zs_plain(s)))
        return self.names[s]

    def text(self):
        return "\n".join(self.defs) + "\n"


_LITS = None


def begin_lits():
    global _LITS
    _LITS = Lits()
    return _LITS


def end_lits():
    global _LITS
    _LITS = None


def zs_plain(s):
    return "[" + ";".join(str(ord(ch)) for ch in s) + "]%Z"


def zs(s):
    if _LITS is not None and len(s) >= 6:
        return _LITS(s)
    return zs_plain(s)


CERTN = dict(none="None", A="(Some 1%Z)", B="(Some 2%Z)", C="(Some 3%Z)")
CERTI = dict(A="1%Z", B="2%Z", C="3%Z")


def pres(leaf, extra):
    return "(Build_presented Z %s %s)" % (CERTN[leaf], coq_list(CERTI[x] for x in (extra or [])))


def session_term(impl, c):
    cfg, ids = c["cfg"], c["ids"]
    dial = ids[cfg.get("dial", "B")]
    req = dial if cfg.get("get") is None else impl.get_value(cfg["get"], ids)
    def claim(kind, untouched, right):
        if kind is None:
            return untouched
        return impl.claim_value(kind, ids, right)
    claim_c = claim(cfg.get("srv_claim"), ids["B"], ids["B"])
    claim_s = claim(cfg.get("cli_claim"), ids["A"], ids["A"])
    return ("(%s, Build_session_cfg Z %s %s %s %s %s %s %s %s)" % (
        "ord_%s" % cfg["a_pos"], "idA_" + cfg["a_pos"], zs(dial), zs(req), "idB_" + cfg["a_pos"],
        pres(cfg.get("srv_cert", "B"), cfg.get("srv_extra")), cstr(claim_c),
        pres(cfg.get("cli_cert", "A"), cfg.get("cli_extra")), cstr(claim_s)))


def correspond_sessions(ctx, cells):
    from harness import c05_impl as impl
    if not cells:
        return
    defs = []
    for a_pos in ("hi", "lo", "hi2", "lo2"):
        arr = impl.arrangement(a_pos)
        for k in "ABC":
            defs.append("Definition id%s_%s : list Z := %s." % (k, a_pos, zs(arr[k][0])))
        defs.append("Definition ord_%s : Z -> list Z := fun c => if (c =? 1)%%Z then idA_%s else if (c =? 2)%%Z then idB_%s "
                    "else if (c =? 3)%%Z then idC_%s else []." % (a_pos, a_pos, a_pos, a_pos))
    nbad = 0
    lits = begin_lits()
    for shard in range(0, len(cells), 1000):
        part = cells[shard:shard + 1000]
        cases_txt = coq_list(session_term(impl, c) for c in part)
        body = lits.text() + "\n".join(defs) + """
Definition code (tubid_of : Z -> list Z) (k : option (list Z)) : Z :=
  match k with None => (-1)%Z | Some k =>
    if list_eqb k (tubid_of 1%Z) then 1%Z else if list_eqb k (tubid_of 2%Z) then 2%Z else if list_eqb k (tubid_of 3%Z) then 3%Z else 0%Z end.
Definition fs (o : option string) : string := match o with None => "-"%string | Some s => s end.
Definition show (f : Z -> list Z) (o : endobs) := (code f (ever o), code f (final o), fs (fail o)).
Definition cases : list ((Z -> list Z) * session_cfg Z) := """ + cases_txt + """.
Eval vm_compute in map (fun c => let '(oc, os) := session Z (fst c) (snd c) in [show (fst c) oc; show (fst c) os]) cases.
"""
        try:
            (vals,) = ctx.coq_eval("C05_sessions_%d" % (shard // 1000), body, requires=REQ)
        except common.CoqEvalError as e:
            end_lits()
            ctx.fail("correspondence-broken", "the C05 model could not be evaluated: " + str(e)[-1500:], has_input=False)
            return
        for c, (mc, ms) in zip(part, vals):
            ids, o = c["ids"], c["obs"]
            rev = {v: i + 1 for i, v in enumerate([ids["A"], ids["B"], ids["C"]])}
            enc = lambda lst: -1 if not lst else (rev.get(lst[0], 0) if len(lst) == 1 else 99)
            fl = lambda lst: "-" if not lst else (lst[0] if len(lst) == 1 else "+".join(lst))
            ic = (enc(o["A_ever"]), enc(o["A_final"]), fl(o["client_fail"]))
            is_ = (enc(o["B_ever"]), enc(o["B_final"]), fl(o["server_fail"]))
            ctx.traces += 1
            if tuple(mc) != ic or tuple(ms) != is_ or (o["result"] == [42]) != (mc[1] != -1):
                nbad += 1
                if nbad <= 3:
                    ctx.fail("correspondence/session", "model and implementation disagree on cell %r: model client=%r server=%r, "
                             "implementation client=%r server=%r result=%r" % (c["cfg"], mc, ms, ic, is_, o["result"]),
                             replay=dict(cell=c["cfg"], model=[mc, ms], impl=[ic, is_], observed=o), has_input=False)
    end_lits()
    ctx.extra["correspondence_session_cells"] = len(cells)
    ctx.extra["correspondence_session_disagreements"] = nbad


# ---------------------------------------------------------------------------------------------- malformed blocks
def malformed(ctx, impl):
    import re
    fams = [
        ("hello-no-colon", lambda d, ids: d.replace(b"my-tub-id: ", b"my-tub-id ") if b"my-tub-id: " in d else d),
        ("hello-two-claims-right-then-wrong", lambda d, ids: re.sub(rb"(my-tub-id: [^\r\n]*\r\n)", lambda m: m.group(1) + b"my-tub-id: " + ids["C"].encode() + b"\r\n", d)),
        ("hello-two-claims-wrong-then-right", lambda d, ids: re.sub(rb"(my-tub-id: [^\r\n]*\r\n)", lambda m: b"my-tub-id: " + ids["C"].encode() + b"\r\n" + m.group(1), d)),
        ("hello-claim-key-uppercase-wrong", lambda d, ids: re.sub(rb"my-tub-id: [^\r\n]*\r\n", b"MY-TUB-ID: " + ids["C"].encode() + b"\r\n", d)),
        ("hello-claim-leading-spaces-wrong", lambda d, ids: re.sub(rb"my-tub-id: [^\r\n]*\r\n", b"my-tub-id:     " + ids["C"].encode() + b"\r\n", d)),
        ("hello-claim-trailing-space", lambda d, ids: re.sub(rb"(my-tub-id: [^\r\n]*)\r\n", rb"\1 \r\n", d)),
        ("hello-claim-nul", lambda d, ids: re.sub(rb"(my-tub-id: [^\r\n]*)\r\n", lambda m: m.group(1) + b"\x00\r\n", d)),
        ("hello-claim-non-ascii", lambda d, ids: re.sub(rb"my-tub-id: [^\r\n]*\r\n", b"my-tub-id: \xff\xfe\r\n", d)),
        ("hello-claim-non-utf8-prefix", lambda d, ids: d.replace(b"my-tub-id: ", b"my-tub-id: \xc3\xa9") if b"my-tub-id: " in d else d),
        ("hello-error-block", lambda d, ids: b"error: go away\r\n" if b"my-tub-id: " in d else d),
        ("hello-binary", lambda d, ids: bytes(range(256)) if b"my-tub-id: " in d else d),
        ("hello-oversized", lambda d, ids: b"x-pad: " + b"A" * 5000 + b"\r\n" + d if b"my-tub-id: " in d else d),
        ("hello-forced", lambda d, ids: d + b"negotiation-forced: true\r\n" if b"my-tub-id: " in d else d),
        ("decision-claims-other-tub", lambda d, ids: d + b"my-tub-id: " + ids["C"].encode() + b"\r\n" if d.startswith(b"banana-decision-version") else d),
        ("decision-garbage-version", lambda d, ids: re.sub(rb"banana-decision-version: \d+", b"banana-decision-version: zz", d)),
        ("decision-error", lambda d, ids: d + b"error: no\r\n" if d.startswith(b"banana-decision-version") else d),
        ("decision-missing-version", lambda d, ids: b"x: y\r\n" if d.startswith(b"banana-decision-version") else d),
        ("get-two-tokens", lambda d, ids: b"GET /id/" + ids["B"].encode() if d.startswith(b"GET ") else d),
        ("get-not-id", lambda d, ids: b"GET /index.html HTTP/1.1" if d.startswith(b"GET ") else d),
        ("get-post", lambda d, ids: d.replace(b"GET ", b"POST ") if d.startswith(b"GET ") else d),
        ("get-id-with-trailing-junk", lambda d, ids: re.sub(rb"^GET /id/(\S*)", rb"GET /id/\1/../x", d)),
        ("http-200-instead-of-101", lambda d, ids: d.replace(b"HTTP/1.1 101", b"HTTP/1.1 200") if d.startswith(b"HTTP/1.1 101") else d),
        ("http-no-upgrade", lambda d, ids: b"HTTP/1.1 101 Switching Protocols\r\nConnection: Upgrade" if d.startswith(b"HTTP/1.1 101") else d),
    ]
    last = None
    for name, fn in fams:
        for side in (0, 1):
            for a_pos in ("hi", "lo"):
                for base in (dict(), dict(srv_cert="C"), dict(cli_cert="C"), dict(dial="C", get="B")):
                    cfg = dict(base, a_pos=a_pos)
                    hit = []

                    def extra(link, s, d, fn=fn, side=side, hit=hit):
                        if s != side or link.name != "L0":
                            return d
                        d2 = fn(d, IDS[0])
                        if d2 != d:
                            hit.append(1)
                        return d2
                    IDS = [{k: v[0] for k, v in impl.arrangement(a_pos).items()}]
                    try:
                        t = impl.run_cell(cfg, extra)
                    except Exception as e:
                        import traceback
                        ctx.fail("oracle/malformed-exception", "an exception escaped for malformed block %s (side %d) in cell %r: %r"
                                 % (name, side, cfg, e), replay=dict(malformed=name, side=side, cell=cfg, tb=traceback.format_exc()))
                        continue
                    mcfg = dict(cfg, malformed=name, side=side)
                    ctx.case(["malformed", name, side, canon(cfg)], nontrivial=bool(hit))
                    ctx.hist("malformed_outcome", "not-applicable" if not hit else ("connected" if t.result == [42] else "refused"))
                    if not hit:
                        continue
                    # the oracle proper (proof of identity) applies unchanged; honesty of the outcome is not prescribed here
                    problems = list(t.bad)
                    dial = t.ids[cfg.get("dial", "B")]
                    for (tn, key, is_client, cid) in t.attached:
                        if cid != "loopback" and (cid is None or cid != key):
                            problems.append(("attached-unproven", tn, key, cid))
                        if is_client and key != dial:
                            problems.append(("client-attached-other-than-dialled", tn, key, dial))
                    if t.result == [42] and not any(n == "A" and key == dial and cid == dial for (n, key, ic, cid) in t.attached):
                        problems.append(("getReference-succeeded-without-proof", "A", dial, None))
                    if len(t.result) != 1:
                        problems.append(("getReference-fired-%d-times" % len(t.result), "A", dial, None))
                    for p in problems[:2]:
                        ctx.fail("oracle/malformed/%s" % p[0], "%s with malformed block %s (direction %d): Tub %s key=%s certificate/expected=%s; cell %r"
                                 % (p[0], name, side, p[1], p[2], p[3], cfg),
                                 replay=dict(cell=mcfg, attached=t.attached, final=t.final, result=t.result, neglog=t.neglog))
                    last = dict(kind="malformed", cell=mcfg, result=t.result, attached=t.attached)
    if last:
        ctx.sample(last)


# ---------------------------------------------------------------------------------------------- inbound reference URLs
def inbound_urls(ctx, impl):
    """B (connected honestly, or C impersonated as far as the harness allows) hands A a Referenceable whose my-reference
    URL names some tub id; A may only accept it if that id is the id its connection is registered under."""
    out = []
    for a_pos in ("hi", "lo"):
        for kind in ("B", "C", "A", "upper", "ext", "prefix", "garbage", "nourl"):
            try:
                r = impl.url_trial(a_pos, kind)
            except Exception as e:
                import traceback
                ctx.fail("oracle/inbound-url/exception", "exception escaped during the inbound-url trial %s/%s: %r" % (a_pos, kind, e),
                         replay=dict(a_pos=a_pos, url_kind=kind, tb=traceback.format_exc()))
                continue
            ctx.case(["inbound-url", a_pos, kind], nontrivial=kind != "B")
            ctx.hist("inbound_url_outcome", "accepted" if r["accepted"] else "refused")
            for p in r["problems"][:2]:
                ctx.fail("oracle/inbound-url/%s" % p[0], "%s: %s (url kind %s, order %s)" % (p[0], p[1], kind, a_pos),
                         replay=dict(a_pos=a_pos, url_kind=kind, detail=r))
            out.append(r)
    if len(out) > 1:
        ctx.sample(dict(kind="inbound-url", case={k: out[1][k] for k in ("a_pos", "kind", "url", "accepted", "result")}))
    return out


def correspond_urls(ctx, urls):
    rows = [r for r in urls if r["url_id"] is not None]
    if not rows:
        return
    body = "Eval vm_compute in [" + "; ".join("accept_inbound_ref %s %s" % (zs(r["key"]), zs(r["url_id"])) for r in rows) + "].\n"
    try:
        (vals,) = ctx.coq_eval("C05_urls", body, requires=REQ)
    except common.CoqEvalError as e:
        ctx.fail("correspondence-broken", "the C05 model could not be evaluated: " + str(e)[-1500:], has_input=False)
        return
    for r, m in zip(rows, vals):
        ctx.traces += 1
        if bool(m) != bool(r["accepted"]):
            ctx.fail("correspondence/inbound-url", "model says accept=%r, implementation accepted=%r for a reference whose URL names %r "
                     "over the connection registered under %r" % (m, r["accepted"], r["url_id"], r["key"]),
                     replay=dict(case=r, model=m), has_input=False)
    ctx.extra["correspondence_url_cases"] = len(rows)


def gifts(ctx, impl):
    """a third-party reference (their-reference) naming Tub C, handed over by B: A must connect to C itself and prove C"""
    for a_pos in ("hi", "lo"):
        for target_honest in (True, False):
            try:
                r = impl.gift_trial(a_pos, target_honest)
            except Exception as e:
                import traceback
                ctx.fail("oracle/gift/exception", "exception escaped during the gift trial %s/%s: %r" % (a_pos, target_honest, e),
                         replay=dict(a_pos=a_pos, target_honest=target_honest, tb=traceback.format_exc()))
                continue
            ctx.case(["gift", a_pos, target_honest], nontrivial=True)
            ctx.hist("gift_outcome", "delivered" if r["delivered"] else "refused")
            for p in r["problems"][:2]:
                ctx.fail("oracle/gift/%s" % p[0], "%s: %s (order %s, honest target %s)" % (p[0], p[1], a_pos, target_honest),
                         replay=dict(a_pos=a_pos, target_honest=target_honest, detail=r))


# ---------------------------------------------------------------------------------------------- histories on one Tub
def histories(ctx, impl):
    n = ctx.n(150, 3000)
    out = []
    for i in range(n):
        length = ctx.rng.randint(2, 7)
        try:
            h = impl.history_trial(ctx.rng, length)
        except Exception as e:
            import traceback
            ctx.fail("oracle/history/exception", "exception escaped while running a history on Tub A: %r" % (e,),
                     replay=dict(tb=traceback.format_exc()))
            continue
        ctx.case(["history", h["a_pos"], h["ops"]], nontrivial=any(o[0] != "detach" for o in h["ops"]) and len(h["ops"]) >= 2)
        ctx.hist("history_length", len(h["ops"]))
        for o in h["ops"]:
            ctx.hist("history_op", o[0])
        for p in h["problems"][:2]:
            ctx.fail("oracle/history/%s" % p[0], "%s: %s after history %r" % (p[0], p[1], h["ops"]), replay=dict(history=h))
        out.append(h)
    if out:
        ctx.sample(dict(kind="history", ops=out[0]["ops"], tables=out[0]["tables"]))
    return out


def correspond_histories(ctx, hist):
    from harness import c05_impl as impl
    if not hist:
        return
    certn = dict(none="None", A="(Some 1%Z)", B="(Some 2%Z)", C="(Some 3%Z)")
    defs = []
    allids = {}
    for a_pos in ("hi", "lo"):
        arr = impl.arrangement(a_pos)
        allids[a_pos] = {k: v[0] for k, v in arr.items()}
        for k in "ABC":
            defs.append("Definition id%s_%s : list Z := %s." % (k, a_pos, zs(arr[k][0])))
        defs.append("Definition tid_%s : Z -> list Z := fun c => if (c =? 1)%%Z then idA_%s else if (c =? 2)%%Z then idB_%s "
                    "else if (c =? 3)%%Z then idC_%s else []." % (a_pos, a_pos, a_pos, a_pos))
    defs = "\n".join(defs) + """
Definition code (tid : Z -> list Z) (k : list Z) : Z :=
  if list_eqb k (tid 1%Z) then 1%Z else if list_eqb k (tid 2%Z) then 2%Z else if list_eqb k (tid 3%Z) then 3%Z else 0%Z.
Definition show (tid : Z -> list Z) (t : table Z) :=
  map (fun e => (code tid (fst e), match conn_cert Z (snd e) with Some c => c | None => 0%Z end, conn_loop Z (snd e))) t.
Fixpoint trace (tid : Z -> list Z) (t : table Z) (evs : list (event Z)) : list (list (Z * Z * bool)) :=
  match evs with [] => [] | e :: r => let t' := step Z tid (tid 1%Z) t e in show tid t' :: trace tid t' r end.
"""
    def ev(o, a_pos):
        if o[0] == "detach":
            return "(Detached Z [])" if o[1] == "R" else "(Detached Z id%s_%s)" % (o[1], a_pos)
        if o[0] == "loopback":
            return "(LoopbackRequested Z)"
        role, target, cert, claim, arrives, dropped = o[1:7]
        return "(Negotiated Z %s %s %s %s %s %s)" % (role, ("id%s_%s" % (target, a_pos)) if target else "[]", pres(cert, o[7] if len(o) > 7 else None), cstr(claim),
                                                     "true" if arrives else "false", "true" if dropped else "false")
    nbad = 0
    for shard in range(0, len(hist), 300):
        part = hist[shard:shard + 300]
        body = defs + "Eval vm_compute in [" + ";\n ".join(
            "trace tid_%s [] [%s]" % (h["a_pos"], "; ".join(ev(o, h["a_pos"]) for o in h["model_ops"])) for h in part) + "].\n"
        try:
            (vals,) = ctx.coq_eval("C05_hist_%d" % (shard // 300), body, requires=REQ)
        except common.CoqEvalError as e:
            ctx.fail("correspondence-broken", "the C05 table model could not be evaluated: " + str(e)[-1500:], has_input=False)
            return
        for h, tr in zip(part, vals):
            ids = allids[h["a_pos"]]
            rev = {ids["A"]: 1, ids["B"]: 2, ids["C"]: 3}
            ctx.traces += 1
            want = [sorted((rev.get(k, 0), rev.get(c, 0) if c else 0, bool(loop)) for (k, c, loop) in tab) for tab in h["tables"]]
            got = [sorted((a, b, bool(c)) for (a, b, c) in tab) for tab in tr]
            if want != got:
                nbad += 1
                if nbad <= 3:
                    ctx.fail("correspondence/history", "Tub.brokers and the model's table differ along history %r: implementation %r, model %r"
                             % (h["ops"], want, got), replay=dict(history=h, model=got, impl=want), has_input=False)
    ctx.extra["correspondence_history_traces"] = len(hist)
    ctx.extra["correspondence_history_disagreements"] = nbad


# ---------------------------------------------------------------------------------------------- a peer that keeps sending
def compositions(n):
    """all ways to cut n blocks into chunks: sets of positions after which a chunk ends"""
    out = []
    for mask in range(1 << max(0, n - 1)):
        out.append({i for i in range(n - 1) if mask >> i & 1})
    return out


def keeps_sending(ctx, impl):
    """a scripted raw peer sends every kind of header block in every order and chunking -- in particular after a block was
    rejected and before the connection is gone -- to a real Tub acting as client or as server; the oracle is judged on every
    Tub.brokerAttached"""
    kinds = impl.BLOCK_KINDS
    pres = [("C", "B", ["B"]), ("C", "B", []), ("B", "B", [])]
    jobs = []
    for role in ("Client", "Server"):
        for a_pos in ("hi", "lo"):
            for (leaf, x, extras) in pres:
                for n in (1, 2):
                    for blocks in itertools.product(kinds, repeat=n):
                        for cuts in compositions(n):
                            jobs.append((role, a_pos, leaf, x, extras, list(blocks), cuts))
    triples = list(itertools.product(kinds, repeat=3))
    if ctx.tier == "thorough":
        for role in ("Client", "Server"):
            for a_pos in ("hi", "lo"):
                for (leaf, x, extras) in pres:
                    for blocks in triples:
                        for cuts in compositions(3):
                            jobs.append((role, a_pos, leaf, x, extras, list(blocks), cuts))
    r = ctx.rng
    for i in range(ctx.n(700, 6000)):
        n = 3 if ctx.tier != "thorough" else r.choice([4, 5, 6])
        blocks = [r.choice(kinds) for _ in range(n)]
        leaf, x, extras = r.choice(pres + [("C", "B", ["B", "A"]), ("B", "C", ["C"])])
        jobs.append((r.choice(["Client", "Server"]), r.choice(["hi", "lo"]), leaf, x, extras, blocks,
                     {j for j in range(n - 1) if r.random() < 0.5}))
    # RPC-protocol bytes between the blocks (oracle only: they are not header blocks)
    for i in range(ctx.n(150, 1500)):
        n = r.choice([2, 3, 4])
        blocks = [r.choice(kinds + ["B"]) for _ in range(n)]
        if "B" not in blocks:
            blocks[r.randrange(1, n)] = "B"
        jobs.append((r.choice(["Client", "Server"]), r.choice(["hi", "lo"]), "C", "B", r.choice([[], ["B"]]), blocks,
                     {j for j in range(n - 1) if r.random() < 0.6}))
    cj = []
    if os.path.isdir(CORPUS):
        for fn in sorted(os.listdir(CORPUS)):
            if fn.endswith(".json"):
                for sc in json.load(open(os.path.join(CORPUS, fn))).get("scripts", []):
                    cj.append((sc[0], sc[1], sc[2], sc[3], sc[4], sc[5], set(sc[6])))
    jobs = cj + jobs
    out = []
    for job in jobs:
        try:
            t = impl.raw_trial(*job)
        except Exception as e:
            import traceback
            ctx.fail("oracle/keeps-sending/exception", "an exception escaped while a raw peer sent %r (cuts %r) to Tub A as %s: %r"
                     % (job[5], sorted(job[6]), job[0], e), replay=dict(job=repr(job), tb=traceback.format_exc()))
            continue
        ctx.case(["script", job[0], job[1], job[2], job[3], job[4], job[5], sorted(job[6])], nontrivial=len(job[5]) >= 2)
        ctx.hist("script_len", len(job[5]))
        ctx.hist("script_attached", len(t["attached"]))
        for ph in t["obs"]:
            ctx.hist("script_phase_after_chunk", ph[0])
        for p in t["problems"][:2]:
            ctx.fail("oracle/keeps-sending/%s" % p[0], "%s; the raw peer authenticated as Tub %s (extra certificates sent along: %s) and sent the "
                     "blocks %r in chunks cut after %r to Tub A acting as %s (%s)" % (p[1], t["leaf"], t["extras"], t["blocks"], t["cuts"],
                                                                                   t["role"], "dialling Tub %s" % t["x"] if t["role"] == "Client" else "listener"),
                     replay=dict(script=t))
        out.append(t)
    if out:
        ctx.sample(dict(kind="keeps-sending", role=out[40]["role"], blocks=out[40]["blocks"], cuts=out[40]["cuts"], observed=out[40]["obs"]))
    return out


def correspond_scripts(ctx, scripts):
    from harness import c05_impl as impl
    rows = [t for t in scripts if "B" not in t["blocks"]]
    if not rows:
        return
    defs = []
    allids = {}
    for a_pos in ("hi", "lo"):
        arr = impl.arrangement(a_pos)
        allids[a_pos] = {k: v[0] for k, v in arr.items()}
        for k in "ABC":
            defs.append("Definition id%s_%s : list Z := %s." % (k, a_pos, zs(arr[k][0])))
        defs.append("Definition tid_%s : Z -> list Z := fun c => if (c =? 1)%%Z then idA_%s else if (c =? 2)%%Z then idB_%s "
                    "else if (c =? 3)%%Z then idC_%s else []." % (a_pos, a_pos, a_pos, a_pos))
    defs = "\n".join(defs) + """
Definition code (tid : Z -> list Z) (k : list Z) : Z :=
  if list_eqb k (tid 1%Z) then 1%Z else if list_eqb k (tid 2%Z) then 2%Z else if list_eqb k (tid 3%Z) then 3%Z else 0%Z.
Definition pcode (p : phase) : Z := match p with PhEncrypted => 1%Z | PhDeciding => 2%Z | PhBanana => 3%Z | PhAbandoned => 4%Z end.
Fixpoint trace (tid : Z -> list Z) (r : role) (tgt : list Z) (p : presented Z) (st : nstate) (chunks : list (list blk)) :=
  match chunks with
  | [] => []
  | c :: cs => let st' := recv_chunk Z tid r (tid 1%Z) tgt p st c in
               (pcode (n_phase st'), match n_their st' with Some t => code tid t | None => (-1)%Z end, map (code tid) (n_attached st'))
               :: trace tid r tgt p st' cs
  end.
"""
    def blk(k, t):
        return {"Hleaf": "BHello (Some id%s_%s)" % (t["leaf"], t["a_pos"]), "Hx": "BHello (Some id%s_%s)" % (t["x"], t["a_pos"]),
                "Habsent": "BHello None", "D": "BDecision true", "Dbad": "BDecision false", "E": "BError", "J": "BJunk"}[k]

    def term(t):
        chunks, cur = [], []
        for i, k in enumerate(t["blocks"]):
            cur.append(blk(k, t))
            if i in t["cuts"] or i == len(t["blocks"]) - 1:
                chunks.append(coq_list(cur))
                cur = []
        tgt = "id%s_%s" % (t["x"], t["a_pos"]) if t["role"] == "Client" else "[]"
        return "trace tid_%s %s %s %s n_init %s" % (t["a_pos"], t["role"], tgt, pres(t["leaf"], t["extras"]), coq_list(chunks))
    pnum = dict(PhEncrypted=1, PhDeciding=2, PhBanana=3, PhAbandoned=4)
    nbad = 0
    for shard in range(0, len(rows), 500):
        part = rows[shard:shard + 500]
        body = defs + "Eval vm_compute in [" + ";\n ".join(term(t) for t in part) + "].\n"
        try:
            (vals,) = ctx.coq_eval("C05_scripts_%d" % (shard // 500), body, requires=REQ)
        except common.CoqEvalError as e:
            ctx.fail("correspondence-broken", "the C05 receive-loop model could not be evaluated: " + str(e)[-1500:], has_input=False)
            return
        for t, tr in zip(part, vals):
            ids = allids[t["a_pos"]]
            rev = {ids["A"]: 1, ids["B"]: 2, ids["C"]: 3}
            ctx.traces += 1
            want = [(pnum.get(ph, 0), -1 if th is None else rev.get(th, 0), [rev.get(k, 0) for k in reversed(att)]) for (ph, th, att) in t["obs"]]
            got = [(a, b, list(c)) for (a, b, c) in tr]
            if want != got:
                nbad += 1
                if nbad <= 3:
                    ctx.fail("correspondence/keeps-sending", "the receive loop of Negotiation and its model differ (phase, theirTubRef, attached keys "
                             "after every chunk) for blocks %r cut after %r, victim %s, order %s, peer leaf %s extras %s: implementation %r, model %r"
                             % (t["blocks"], t["cuts"], t["role"], t["a_pos"], t["leaf"], t["extras"], want, got),
                             replay=dict(script=t, model=got, impl=want), has_input=False)
    ctx.extra["correspondence_script_traces"] = len(rows)
    ctx.extra["correspondence_script_disagreements"] = nbad


# ---------------------------------------------------------------------------------------------- getReference request histories
def getref_histories(ctx, impl):
    """client-side histories of Tub.getReference: requests for different Tubs / names made BEFORE startService (queued by the
    Tub), startService, requests made after it; the per-reference oracle is judged on every result: the reference must sit on
    the connection whose peer proved the tub id the FURL names, carry that FURL's identity, and a call on it must reach the
    requested object"""
    combos = [("B", "o1"), ("C", "o1"), ("B", "o2"), ("A", "o1"), ("Cimp", "o1"), ("C", "o2")]
    jobs = []
    if os.path.isdir(CORPUS):
        for fn in sorted(os.listdir(CORPUS)):
            if fn.endswith(".json"):
                for g in json.load(open(os.path.join(CORPUS, fn))).get("getrefs", []):
                    jobs.append((g[0], [tuple(o) for o in g[1]]))
    for a_pos in ("hi", "lo"):
        for k in (0, 1, 2):
            for q in itertools.product(combos, repeat=k):
                for post in ([], [("C", "o2")], [("B", "o1")]):
                    jobs.append((a_pos, [("req",) + c for c in q] + [("start",)] + [("req",) + c for c in post]))
    for q in itertools.product(combos[:5], repeat=3):
        jobs.append(("hi", [("req",) + c for c in q] + [("start",)]))
    r = ctx.rng
    for i in range(ctx.n(120, 4000)):
        nq, npost = r.randint(2, 5), r.randint(0, 3)
        ops = [("req",) + r.choice(combos) for _ in range(nq)] + [("start",)] + [("req",) + r.choice(combos) for _ in range(npost)]
        if r.random() < 0.1:
            ops = [o for o in ops if o[0] != "start"]        # never started: nothing may be answered
        jobs.append((r.choice(["hi", "lo"]), ops))
    out = []
    for (a_pos, ops) in jobs:
        try:
            g = impl.getref_trial(a_pos, ops)
        except Exception as e:
            import traceback
            ctx.fail("oracle/getref/exception", "an exception escaped during the getReference history %r: %r" % (ops, e),
                     replay=dict(a_pos=a_pos, ops=ops, tb=traceback.format_exc()))
            continue
        nq = len([1 for o in ops[:([o[0] for o in ops] + ["start"]).index("start")] if o[0] == "req"])
        ctx.case(["getref", a_pos, [list(o) for o in ops]], nontrivial=nq >= 2 and len({(o[1], o[2]) for o in ops if o[0] == "req"}) >= 2)
        ctx.hist("getref_queued_requests", nq)
        ctx.hist("getref_answers", sum(1 for o in g["obs"] if o))
        for p in g["problems"][:2]:
            ctx.fail("oracle/getref/%s" % p[0], "%s; Tub A's history: %r (requests before 'start' are queued by the Tub)" % (p[1], g["ops"]),
                     replay=dict(history=g))
        out.append(g)
    if len(out) > 30:
        ctx.sample(dict(kind="getref-history", ops=out[30]["ops"], answers=out[30]["obs"]))
    return out


def correspond_getrefs(ctx, grs):
    from harness import c05_impl as impl
    rows = [g for g in grs if g["started"]]
    if not rows:
        return
    nm = dict(o1="[1%Z]", o2="[2%Z]")
    nbad = 0
    lits = begin_lits()
    for shard in range(0, len(rows), 800):
        part = rows[shard:shard + 800]
        terms = []
        for g in part:
            evs = []
            for o in g["ops"]:
                if o[0] == "start":
                    evs.append("GrStart")
                else:
                    tid = g["ids"]["C" if o[1] == "Cimp" else o[1]]
                    evs.append("GrRequest (Build_furl %s %s)" % (zs(tid), nm[o[2]]))
            terms.append("map (fun x => (Z.of_nat (fst x), pos 0%%Z (a_key (snd x)) allkeys, a_name (snd x))) (g_delivered (gr_run %s))" % coq_list(evs))
        order = sorted(lits.names, key=lambda k_: int(lits.names[k_][3:]))
        body = (lits.text() + "Definition allkeys : list (list Z) := %s.\n" % coq_list(lits.names[k_] for k_ in order)
                + "Fixpoint pos (i : Z) (k : list Z) (l : list (list Z)) : Z := match l with [] => (-1)%Z | x :: r => if list_eqb k x then i else pos (i + 1)%Z k r end.\n"
                + "Eval vm_compute in [" + ";\n ".join(terms) + "].\n")
        try:
            (vals,) = ctx.coq_eval("C05_getrefs_%d" % (shard // 800), body, requires=REQ)
        except common.CoqEvalError as e:
            end_lits()
            ctx.fail("correspondence-broken", "the C05 getReference model could not be evaluated: " + str(e)[-1500:], has_input=False)
            return
        for g, val in zip(part, vals):
            ctx.traces += 1
            model = {r_: (order[key] if 0 <= key < len(order) else None, {1: "o1", 2: "o2"}.get(name[0] if name else 0)) for (r_, key, name) in val}
            bad = [(i, o, model.get(i)) for i, o in enumerate(g["obs"]) if o is not None and tuple(o) != model.get(i)]
            if bad or len(model) != len(g["obs"]):
                nbad += 1
                if nbad <= 3:
                    ctx.fail("correspondence/getref", "Tub.getReference and its model differ on history %r: (request number, answer seen, "
                             "answer in the model) = %r" % (g["ops"], bad or "number of answered requests"),
                             replay=dict(history=g, model=repr(model)), has_input=False)
    end_lits()
    ctx.extra["correspondence_getref_histories"] = len(rows)
    ctx.extra["correspondence_getref_disagreements"] = nbad


# ---------------------------------------------------------------------------------------------- crossed connections, 4 Tubs
def crossed(ctx, impl):
    """Tub A has lookups pending to two or three other Tubs, each on a link the harness holds back; some of those Tubs connect
    to A themselves; the links are then allowed to finish in every order (and, at random, interleaved delivery by delivery).
    The table oracle (all four Tubs) and the per-reference oracle are judged after every single delivery."""
    jobs = []
    if os.path.isdir(CORPUS):
        for fn in sorted(os.listdir(CORPUS)):
            if fn.endswith(".json"):
                for g in json.load(open(os.path.join(CORPUS, fn))).get("crossed", []):
                    jobs.append((g[0], [tuple(o) for o in g[1]]))
    others = ["B", "C", "D"]
    r = ctx.rng
    for a_pos in ("hi", "lo"):
        for k in (2, 3):
            for outs in itertools.permutations(others, k):
                subsets = [c for m in (1, 2) for c in itertools.combinations(sorted(outs), m)]
                for ins in subsets:
                    base = [("out", x) for x in outs] + [("in", x) for x in ins]
                    out_l = list(range(k))
                    in_l = list(range(k, k + len(ins)))
                    orders = [in_l + out_l, in_l[::-1] + out_l[::-1], out_l + in_l, [in_l[0]] + out_l[::-1] + in_l[1:]]
                    for _ in range(2):
                        o = out_l + in_l
                        r.shuffle(o)
                        orders.append(o)
                    for o in orders:
                        jobs.append((a_pos, base + [("run", i) for i in o] + [("runall",)]))
                    # delivery-by-delivery interleaving
                    steps = [("step", r.choice(out_l + in_l), r.choice([1, 1, 2, 3])) for _ in range(40)]
                    jobs.append((a_pos, base + steps + [("runall",)]))
    for i in range(ctx.n(0, 3000)):
        k = r.choice([2, 3])
        outs = r.sample(others, k)
        ins = r.sample(others, r.choice([1, 2, 3]))
        base = [("out", x) for x in outs] + [("in", x) for x in ins]
        r.shuffle(base)
        nl = len(base)
        steps = [("step", r.randrange(nl), r.choice([1, 1, 2, 3, 5])) for _ in range(60)]
        jobs.append((r.choice(["hi", "lo"]), base + steps + [("runall",)]))
    out = []
    for (a_pos, ops) in jobs:
        try:
            g = impl.crossed_trial(a_pos, ops)
        except Exception as e:
            import traceback
            ctx.fail("oracle/crossed/exception", "an exception escaped during the crossed-connection history %r: %r" % (ops, e),
                     replay=dict(a_pos=a_pos, ops=ops, tb=traceback.format_exc()))
            continue
        crossed_n = sum(1 for e in g["events"] if e[0] == "neg" and e[1] == "Server")
        ctx.case(["crossed", a_pos, g["ops"]], nontrivial=crossed_n >= 1 and sum(1 for o in ops if o[0] == "out") >= 2)
        ctx.hist("crossed_inbound_attached_at_A", crossed_n)
        for oc in g["outcome"]:
            ctx.hist("crossed_getReference", oc)
        for p in g["problems"][:2]:
            ctx.fail("oracle/crossed/%s" % p[0], "%s; history on four Tubs (A looks up 'out' Tubs on held links, 'in' Tubs look A up, links "
                     "progress as listed): %r" % (p[1], g["ops"]), replay=dict(history=g))
        out.append(g)
    if len(out) > 10:
        ctx.sample(dict(kind="crossed", ops=out[10]["ops"], events=[e[:4] for e in out[10]["events"]], answers=out[10]["answers"]))
    return out


def correspond_crossed(ctx, crs):
    from harness import c05_impl as impl
    if not crs:
        return
    defs = []
    allids = {}
    for a_pos in ("hi", "lo"):
        arr = impl.arrangement4(a_pos)
        allids[a_pos] = {k: v[0] for k, v in arr.items()}
        for k in "ABCD":
            defs.append("Definition id%s_%s : list Z := %s." % (k, a_pos, zs(arr[k][0])))
        defs.append("Definition tid_%s : Z -> list Z := fun c => if (c =? 1)%%Z then idA_%s else if (c =? 2)%%Z then idB_%s "
                    "else if (c =? 3)%%Z then idC_%s else if (c =? 4)%%Z then idD_%s else []." % ((a_pos,) * 5))
    defs = "\n".join(defs) + """
Definition code (tid : Z -> list Z) (k : list Z) : Z :=
  if list_eqb k (tid 1%Z) then 1%Z else if list_eqb k (tid 2%Z) then 2%Z else if list_eqb k (tid 3%Z) then 3%Z
  else if list_eqb k (tid 4%Z) then 4%Z else 0%Z.
Definition ccode (c : conn Z) : Z := if conn_loop Z c then (-1)%Z else match conn_cert Z c with Some n => n | None => 0%Z end.
Definition show (tid : Z -> list Z) (st : tstate Z) :=
  (map (fun e => (code tid (fst e), ccode (snd e))) (t_tab Z st), map (code tid) (t_conn Z st)).
Fixpoint trace (tid : Z -> list Z) (st : tstate Z) (evs : list (tevent Z)) :=
  match evs with [] => [] | e :: r => let st' := tstep Z tid (tid 1%Z) st e in show tid st' :: trace tid st' r end.
Definition answers (tid : Z -> list Z) (evs : list (tevent Z)) :=
  map (fun a => (Z.of_nat (fst (fst a)), code tid (snd (fst a)), match snd a with Some c => ccode c | None => (-2)%Z end))
      (t_ans Z (trun Z tid (tid 1%Z) evs)).
"""
    num = dict(A="1%Z", B="2%Z", C="3%Z", D="4%Z")

    def idt(s_, g):
        rev = {v: k for k, v in g["ids"].items()}
        return "id%s_%s" % (rev[s_], g["a_pos"]) if s_ in rev else zs(s_)

    def ev(e, g):
        if e[0] == "lookup":
            return "TLookup Z %s" % idt(e[1], g)
        if e[0] == "failed":
            return "TFailed Z %s" % idt(e[1], g)
        if e[0] == "detach":
            return "TDetached Z %s" % idt(e[1], g)
        _, role, tgt, leaf, claim, key = e
        p_ = "(Build_presented Z %s [])" % ("None" if leaf is None else "(Some %s)" % num[leaf])
        return "TNegotiated Z %s %s %s (Some %s) true" % (role, idt(tgt, g) if tgt else "[]", p_, idt(claim, g))
    nbad = 0
    for shard in range(0, len(crs), 250):
        part = crs[shard:shard + 250]
        body = defs + "Eval vm_compute in [" + ";\n ".join(
            "(trace tid_%s (t_init Z) %s, answers tid_%s %s)" % (g["a_pos"], coq_list(ev(e, g) for e in g["events"]), g["a_pos"],
                                                                  coq_list(ev(e, g) for e in g["events"])) for g in part) + "].\n"
        try:
            (vals,) = ctx.coq_eval("C05_crossed_%d" % (shard // 250), body, requires=REQ)
        except common.CoqEvalError as e:
            ctx.fail("correspondence-broken", "the C05 pending-lookup model could not be evaluated: " + str(e)[-1500:], has_input=False)
            return
        for g, (tr, ans) in zip(part, vals):
            ctx.traces += 1
            rev = {v: i + 1 for i, v in enumerate([g["ids"][k] for k in "ABCD"])}
            want = [(sorted((rev.get(k, 0), -1 if loop else rev.get(c, 0)) for (k, c, loop) in tab), [rev.get(k, 0) for k in conn])
                    for (tab, conn) in g["snaps"]]
            got = [(sorted((a, b) for (a, b) in tab), list(conn)) for (tab, conn) in tr]
            m_ans = {n: (x, c) for (n, x, c) in ans}
            i_ans = {}
            for n, (x, a) in enumerate(g["answers"]):
                if a != "pending":
                    i_ans[n] = (rev.get(x, 0), -1 if a == "loopback" else (-2 if a == "failed" else rev.get(a, 0)))
            if want != got or m_ans != i_ans:
                nbad += 1
                if nbad <= 3:
                    ctx.fail("correspondence/crossed", "Tub A (brokers, tubConnectors after every event; lookups answered) and the model differ on "
                             "history %r: implementation %r answers %r, model %r answers %r" % (g["ops"], want, i_ans, got, m_ans),
                             replay=dict(history=g, model=[got, repr(m_ans)], impl=[want, repr(i_ans)]), has_input=False)
    ctx.extra["correspondence_crossed_histories"] = len(crs)
    ctx.extra["correspondence_crossed_disagreements"] = nbad


# ---------------------------------------------------------------------------------------------- raw bytes from the first byte
HELLOS = ["Hleaf", "Hx", "Habsent", "Hempty", "Hx_then_leaf", "Hleaf_then_x", "Hupper_key", "Hupper_val", "Hleaf_error", "Hleaf_range_low",
          "Hleaf_range_none", "Hleaf_range_junk", "Hleaf_range_one", "Hleaf_norange", "Hleaf_forced", "Hleaf_notforced", "Hleaf_vocab_bad",
          "Hleaf_vocab_default", "Hleaf_and_decision", "Hx_and_decision",
          "Hleaf_u2", "Hleaf_u3", "Hleaf_u4", "Hleaf_umax", "Hleaf_ukey", "Hx_u2", "Hbad_cont", "Hbad_trunc", "Hbad_overlong", "Hbad_overlong3",
          "Hbad_surrogate", "Hbad_above", "Hbad_f5", "Hclaim_u", "Hclaim_nbsp", "Hclaim_ws"]
DECISIONS = ["D", "D2", "D99", "Dnover", "Dempty_ver", "Derror", "Dbadhash", "Dbadindex", "Dclaims_x", "D_u", "D_bad"]
OTHERS = ["E", "J", "Jff", "Jffval", "Jblank"]
PLAIN = dict(Server=["GETA", "GETA_noupgrade", "GETC", "GETempty", "GET2tok", "GET4tok", "GETtabs", "GETlower", "GETindex", "GETff", "GETAupper",
                     "GETu", "GETbad", "POST", "Jblank", "J", "Hleaf", "R101"],
             Client=["R101", "R101_noupgrade", "R101_noupgrade_ff", "R200", "R200ff", "R200u", "R200bad", "R1tok", "Rblank", "R500", "J", "Hleaf", "GETA"])
CORE = ["Hleaf", "Hx", "Hleaf_and_decision", "Hx_and_decision", "Hleaf_range_junk", "D", "D99", "E", "J"]
# fixed witnesses (one per family of seeded change met so far), run first
BYTE_WITNESSES = [
    ("Server", "hi", "C", "B", [], ["GETA", "Hx", "D"], []),                     # decision accepted although the hello was rejected
    ("Server", "lo", "C", "B", [], ["GETA", "Hx", "D"], []),
    ("Client", "hi", "C", "B", [], ["R101", "Hleaf", "D"], []),                  # proven identity that is not the dialled Tub
    ("Client", "lo", "C", "B", [], ["R101", "Hleaf", "D"], []),
    ("Client", "lo", "C", "B", [], ["R101", "Hleaf", "Hx", "D"], []),
    ("Server", "lo", "C", "B", [], ["GETA", "Hx_and_decision", "Hx_and_decision"], []),   # a block that is hello and decision at once
    ("Client", "lo", "C", "B", [], ["R101", "Hleaf_and_decision", "Hleaf_and_decision"], []),
    ("Server", "hi", "C", "B", [], ["GETA", "Hx_then_leaf"], []),                # which of two my-tub-id lines counts
    ("Server", "hi", "C", "B", [], ["GETA", "Hleaf_then_x"], []),
    ("Server", "hi", "C", "B", [], ["GETC", "Hleaf"], []),                       # hello sent although the GET was refused
    ("Server", "hi", "C", "B", [], ["D", "Hleaf"], []),
    ("Client", "hi", "C", "B", [], ["R200", "Hleaf", "D"], []),
    ("Client", "hi", "C", "B", [], ["D"], []),                                   # decision in the plaintext phase
    ("Server", "hi", "C", "B", [], ["GETC", "GETA", "Hleaf"], [], True),         # listener with a redirect for C
]


def bytes_scripts(ctx, impl):
    """a raw peer sends BYTES from the first byte of the connection: the plaintext block (every variant), then hello / decision /
    error / junk / over-long blocks of every kind, cut into chunks at arbitrary BYTE offsets, to a real Tub dialling or listening"""
    r = ctx.rng
    jobs = [tuple(w) + ((False,) if len(w) == 7 else ()) for w in BYTE_WITNESSES]
    pres = [("C", "B"), ("B", "B")]
    for role in ("Client", "Server"):
        good = "GETA" if role == "Server" else "R101"
        for a_pos in ("hi", "lo"):
            for (leaf, x) in pres:
                for h in HELLOS + OTHERS + DECISIONS:
                    if ctx.tier == "thorough" or leaf == "C" or a_pos == "hi":
                        jobs.append((role, a_pos, leaf, x, [], [good, h, "D"], [], False))
                for pl in PLAIN[role]:
                    jobs.append((role, a_pos, leaf, x, [], [pl, good, "Hleaf", "D"], [], False))
                    jobs.append((role, a_pos, leaf, x, [], [pl, "Hleaf", "D", good], [r.randrange(1, 60)], False))
                for b1 in CORE:
                    for b2 in CORE:
                        if ctx.tier == "thorough" or (leaf == "C" and (a_pos == "hi") == (role == "Server")):
                            jobs.append((role, a_pos, leaf, x, [], [good, b1, b2, "D"], [], False))
                for tail in (["Long", "Hleaf", "D"], ["Pad4000", "Hleaf", "D"], ["Pad4000", "Hx", "D", "Hleaf"]):
                    jobs.append((role, a_pos, leaf, x, [], [good] + tail, [r.randrange(1, 4300), r.randrange(1, 4300)], False))
                jobs.append((role, a_pos, leaf, x, [], ["Long", good, "Hleaf"], [4095, 4096, 4100, 4101], False))
        for a_pos in ("hi", "lo"):
            jobs.append(("Server", a_pos, "C", "B", [], ["GETC"], [], True))
            jobs.append(("Server", a_pos, "B", "B", [], ["GETC", "GETA", "Hleaf", "D"], [], True))
    allb = HELLOS + DECISIONS + OTHERS
    for i in range(ctx.n(100, 8000)):
        role = r.choice(["Client", "Server"])
        good = "GETA" if role == "Server" else "R101"
        n = r.randint(2, 5)
        names = [good if r.random() < 0.8 else r.choice(PLAIN[role])] + [r.choice(allb if r.random() < 0.9 else PLAIN[role]) for _ in range(n)]
        cuts = [r.randrange(1, 150 * (n + 1)) for _ in range(r.randint(0, 6))]
        leaf, x = r.choice(pres + [("C", "B")])
        jobs.append((role, r.choice(["hi", "lo"]), leaf, x, r.choice([[], [], ["B"]]), names, cuts, r.random() < 0.1))
    out = []
    seen = set()
    for job in jobs:
        key = repr(job)
        if key in seen:
            continue
        seen.add(key)
        try:
            t = impl.raw_bytes_trial(*job)
        except Exception as e:
            import traceback
            ctx.fail("oracle/bytes/exception", "an exception escaped while a raw peer sent the blocks %r (cut at byte offsets %r) to Tub A as %s: %r"
                     % (job[5], job[6], job[0], e), replay=dict(job=repr(job), tb=traceback.format_exc()))
            continue
        ctx.case(["bytes", list(job[:6]), t["cuts"], job[7]], nontrivial=len(job[5]) >= 3 or job[5][0] not in ("GETA", "R101"))
        ctx.hist("bytes_blocks", len(job[5]))
        ctx.hist("bytes_attached", len(t["attached"]))
        for ob in t["obs"]:
            ctx.hist("bytes_phase_after_chunk", ob[0])
            ctx.hist("bytes_failure_after_chunk", ob[3] or "-")
        for p in t["problems"][:2]:
            ctx.fail("oracle/bytes/%s" % p[0], "%s; the raw peer authenticated as Tub %s (extra certificates: %s) and sent, from the first byte of the "
                     "connection, the blocks %r cut into chunks of %r bytes to Tub A acting as %s (%s)%s"
                     % (p[1], t["leaf"], t["extras"], t["names"], t["lens"], t["role"],
                        "dialling Tub %s" % t["x"] if t["role"] == "Client" else "listener", ", listener has a redirect for C" if t["redirect_c"] else ""),
                     replay=dict(script=t))
        out.append(t)
    if len(out) > 20:
        ctx.sample(dict(kind="bytes", role=out[20]["role"], blocks=out[20]["names"], chunk_lengths=out[20]["lens"], observed=out[20]["obs"]))
    return out


def zbytes(data):
    """bytes -> Gallina list Z; long runs of one byte are written as `repeat`"""
    parts, i = [], 0
    cur = []
    while i < len(data):
        j = i
        while j < len(data) and data[j] == data[i]:
            j += 1
        if j - i >= 32:
            if cur:
                parts.append("[" + ";".join(cur) + "]%Z")
                cur = []
            parts.append("repeat %d%%Z (Z.to_nat %d%%Z)" % (data[i], j - i))
        else:
            cur += [str(c) for c in data[i:j]]
        i = j
    if cur or not parts:
        parts.append("[" + ";".join(cur) + "]%Z")
    return "(" + " ++ ".join(parts) + ")"


def correspond_bytes(ctx, rows):
    """the byte-level model with the REAL checks (lib/IdentityBytesReal.v: translated parseLines with strict UTF-8, NegWire's
    evaluateHello / decision / acceptDecision) against the real Negotiation, chunk by chunk"""
    from harness import c05_impl as impl
    from foolscap import vocab, negotiate as neg
    if not rows:
        return
    N = neg.Negotiation
    vmin, vmax = N.initialVocabTableRange
    defs = []
    allids = {}
    for a_pos in ("hi", "lo"):
        arr = impl.arrangement(a_pos)
        allids[a_pos] = {k: v[0] for k, v in arr.items()}
        for k in "ABC":
            defs.append("Definition id%s_%s : list Z := %s." % (k, a_pos, zs(arr[k][0])))
        defs.append("Definition tid_%s : Z -> list Z := fun c => if (c =? 1)%%Z then idA_%s else if (c =? 2)%%Z then idB_%s "
                    "else if (c =? 3)%%Z then idC_%s else []." % (a_pos, a_pos, a_pos, a_pos))
        defs.append("Definition me_%s : endpoint := class_endpoint idA_%s %d %d." % (a_pos, a_pos, vmin, vmax))
    used = sorted({(t["a_pos"], t["leaf"], t["x"], n) for t in rows for n in t["names"]})
    libs = {}
    bname = {}          # (a_pos, leaf, x, block name) -> name of the Coq definition holding its bytes (equal contents are shared)
    by_content = {}
    for (a_pos, leaf, x, n) in used:
        if (a_pos, leaf, x) not in libs:
            libs[(a_pos, leaf, x)] = impl.byte_blocks(allids[a_pos], leaf, x)
        data = libs[(a_pos, leaf, x)][n]
        if data not in by_content:
            by_content[data] = "blk%d" % len(by_content)
            defs.append("Definition %s : list Z := %s." % (by_content[data], zbytes(data)))
        bname[(a_pos, leaf, x, n)] = by_content[data]
    hf = "(fun i => " + "".join("if (i =? %d)%%Z then %s else " % (i, zs(vocab.hashVocabTable(i))) for i in range(vmin, vmax + 1)) + "[])"
    defs = "\n".join(defs) + """
Definition code (tid : Z -> list Z) (k : list Z) : Z :=
  if list_eqb k (tid 1%Z) then 1%Z else if list_eqb k (tid 2%Z) then 2%Z else if list_eqb k (tid 3%Z) then 3%Z else 0%Z.
Definition pc (p : rphase) : Z := match p with RPlaintext => 0%Z | RP PhEncrypted => 1%Z | RP PhDeciding => 2%Z | RP PhBanana => 3%Z | RP PhAbandoned => 4%Z end.
Fixpoint cut (lens : list Z) (s : list Z) : list (list Z) :=
  match lens with [] => [] | n :: r => firstn (Z.to_nat n) s :: cut r (skipn (Z.to_nat n) s) end.
Definition hf : Z -> list Z := """ + hf + """.
Fixpoint btrace (tid : Z -> list Z) (me : endpoint) (redir : list Z -> bool) (r : role) (tgt : list Z) (p : presented Z) (st : bstate) (chunks : list (list Z)) :=
  match chunks with
  | [] => []
  | c :: cs => let st' := real_recv_chunk hf me Z tid redir r (tid 1%Z) tgt p st c in
               (pc (b_phase st'), match b_their st' with Some t => code tid t | None => (-1)%Z end, map (code tid) (b_attached st'),
                match b_fail st' with Some w => w | None => "-"%string end) :: btrace tid me redir r tgt p st' cs
  end.
"""

    def term(t):
        a = t["a_pos"]
        stream = " ++ ".join(bname[(a, t["leaf"], t["x"], n)] for n in t["names"])
        tgt = "id%s_%s" % (t["x"], a) if t["role"] == "Client" else "[]"
        redir = "(fun i => list_eqb i idC_%s)" % a if t["redirect_c"] else "(fun _ => false)"
        return "btrace tid_%s me_%s %s %s %s %s (b_connection_made %s %s) (cut %s (%s))" % (a, a, redir, t["role"], tgt, pres(t["leaf"], t["extras"]), t["role"], tgt,
                                                                          coq_list("%d%%Z" % n for n in t["lens"]), stream)
    pnum = dict(PhPlaintext=0, PhEncrypted=1, PhDeciding=2, PhBanana=3, PhAbandoned=4)
    nbad = 0
    for shard in range(0, len(rows), 700):
        part = rows[shard:shard + 700]
        body = defs + "Eval vm_compute in [" + ";\n ".join(term(t) for t in part) + "].\n"
        try:
            (vals,) = ctx.coq_eval("C05_bytes_%d" % (shard // 700), body, requires=REQB)
        except common.CoqEvalError as e:
            ctx.fail("correspondence-broken", "the C05 byte-level receive-loop model could not be evaluated: " + str(e)[-1500:], has_input=False)
            return
        for t, tr in zip(part, vals):
            ids = allids[t["a_pos"]]
            rev = {ids["A"]: 1, ids["B"]: 2, ids["C"]: 3}
            ctx.traces += 1
            want = [(pnum.get(ph, 9), -1 if th is None else rev.get(th, 0), [rev.get(k, 0) for k in reversed(att)], fl or "-") for (ph, th, att, fl) in t["obs"]]
            got = [(a, b, list(c), d) for (a, b, c, d) in tr][:len(want)]     # chunks not delivered (connection already gone) are not compared
            if len(got) != len(want) or got != want:
                nbad += 1
                if nbad <= 3:
                    ctx.fail("correspondence/bytes", "Negotiation.dataReceived and its byte-level model differ (phase, theirTubRef, attached keys, last "
                             "exception class after every chunk) for the blocks %r in chunks of %r bytes, victim %s, order %s, peer leaf %s extras %s%s: "
                             "implementation %r, model %r" % (t["names"], t["lens"], t["role"], t["a_pos"], t["leaf"], t["extras"],
                                                              ", redirect for C" if t["redirect_c"] else "", want, got),
                             replay=dict(script=t, model=got, impl=want), has_input=False)
    ctx.extra["correspondence_bytes_traces"] = len(rows)
    ctx.extra["correspondence_bytes_disagreements"] = nbad


# ---------------------------------------------------------------------------------------------- the key path of getReference
KEY_VARIANTS = ["B", "B_other_hint", "B_two_hints", "B_ext", "B_no_hints", "C_at_B", "C", "B_upper", "Bx_first", "Bx_mid", "Bx_last"]


def key_trials(ctx, impl):
    """FURLs that name the same Tub in other words (other hints, other name, longer tubid part) must be served by the one proven
    connection; FURLs naming another Tub never by it"""
    import itertools as it
    jobs = [("hi", KEY_VARIANTS), ("lo", KEY_VARIANTS), ("hi", ["B_ext", "B", "C_at_B", "B_other_hint"]), ("lo", ["C_at_B", "B_no_hints", "B_two_hints", "B"])]
    r = ctx.rng
    for i in range(ctx.n(4, 400)):
        jobs.append((r.choice(["hi", "lo"]), [r.choice(KEY_VARIANTS) for _ in range(r.randint(2, 5))]))
    out = []
    for (a_pos, variants) in jobs:
        try:
            k = impl.key_trial(a_pos, variants)
        except Exception as e:
            import traceback
            ctx.fail("oracle/getref/exception", "an exception escaped during the key trial %r: %r" % (variants, e),
                     replay=dict(a_pos=a_pos, variants=variants, tb=traceback.format_exc()))
            continue
        ctx.case(["key-trial", a_pos, list(variants)], nontrivial=len(set(variants)) >= 2)
        for row in k["rows"]:
            ctx.hist("key_trial_answered", "%s:%s" % (row["variant"], row["answered"]))
        for p in k["problems"][:2]:
            ctx.fail("oracle/getref/%s" % p[0], "%s; Tub A asked, in this order, for the FURLs %r" % (p[1], [r_["furl"] for r_ in k["rows"]]),
                     replay=dict(trial=k))
        out.append(k)
    return out


def correspond_keys(ctx, trials):
    """(1) TubRef.__eq__ / __ne__ / __hash__ / dict membership on a grid of (tubID, hints) pairs vs tubref_eqb / tubref_hkey / dict_match;
    (2) SturdyRef(furl).getTubRef() vs getReference_key applied to the SturdyRef's attributes (and the tub id vs an independent reading
    of the FURL text); (3) the key trials: which table entry answers"""
    from harness import c05_impl as impl
    ids = {k: v[0] for k, v in impl.arrangement("hi").items()}
    pairs, keys = impl.tubref_facts(ids)
    lits = begin_lits()

    def ostr(x):
        return "None" if x is None else "(Some %s)" % zs(x)

    def tref(t, h, n=None):
        return "(Build_sref %s %s %s)" % (ostr(t), coq_list(zs(x) for x in h), ostr(n))
    good = [k for k in keys if "error" not in k]
    body = ("Definition show (s : sref) := (match sr_tub s with Some t => t | None => [] end, sr_hints s).\n"
            "Eval vm_compute in [" + ";\n ".join("(tubref_eqb %s %s, fvals_eqb (tubref_hkey %s) (tubref_hkey %s), dict_match %s %s)"
                                                 % (tref(*p["a"]), tref(*p["b"]), tref(*p["a"]), tref(*p["b"]), tref(*p["a"]), tref(*p["b"])) for p in pairs) + "].\n"
            "Eval vm_compute in [" + ";\n ".join("show (getReference_key %s)" % tref(k["s_tub"], k["s_hints"], k["s_name"]) for k in good) + "].\n")
    asks = []
    for k in trials:
        num = {k["ids"]["A"]: 1, k["ids"]["B"]: 2, k["ids"]["C"]: 3}
        table = []
        for row in k["rows"]:
            ents = "[" + "; ".join("(Build_sref (Some %s) [] None, Build_conn Z (Some %d%%Z) false)" % (zs(t_), num.get(t_, 9)) for t_ in table) + "]"
            hints = [h for h in row["furl"][row["furl"].index("@") + 1:row["furl"].rindex("/")].split(",") if h]
            probe = tref(impl.url_tubid(row["furl"]), hints, row["furl"][row["furl"].rindex("/") + 1:])
            asks.append("match getReference_broker Z %s %s with Some e => (1%%Z, match sr_tub (fst e) with Some x => x | None => [] end) | None => (0%%Z, []) end"
                        % (ents, probe))
            table = row["table"]
    body += "Eval vm_compute in [" + ";\n ".join(asks) + "].\n"
    body = lits.text() + body
    end_lits()
    try:
        (v_pairs, v_keys, v_asks) = ctx.coq_eval("C05_keys", body, requires=REQK)
    except common.CoqEvalError as e:
        ctx.fail("correspondence-broken", "the C05 key-path model could not be evaluated: " + str(e)[-1500:], has_input=False)
        return
    nbad = 0

    def bad(what, **kw):
        nonlocal nbad
        nbad += 1
        if nbad <= 3:
            ctx.fail("correspondence/keys", what, replay=kw, has_input=False)
    for p, (m_eq, m_hash, m_found) in zip(pairs, v_pairs):
        ctx.traces += 1
        if bool(m_eq) != p["eq"] or p["ne"] == p["eq"] or bool(m_found) != p["found"] or (m_hash and not p["same_hash"]):
            bad("TubRef%r vs TubRef%r: implementation eq=%s ne=%s same hash=%s found in dict=%s; model tubref_eqb=%s equal hashed tuples=%s dict_match=%s"
                % (p["a"], p["b"], p["eq"], p["ne"], p["same_hash"], p["found"], m_eq, m_hash, m_found), pair=p)
    for k, (tub, hints) in zip(good, v_keys):
        ctx.traces += 1
        mt = "".join(chr(c) for c in tub)
        mh = ["".join(chr(c) for c in h) for h in hints]
        if k["tub"] != mt or k["hints"] != mh:
            bad("SturdyRef(%r).getTubRef(): implementation %r, model tub=%r hints=%r" % (k["furl"], k, mt, mh), key=k)
        if k["s_tub"] != k["independent_tub"]:
            ctx.fail("oracle/getref/furl-names-other-tub", "SturdyRef(%r).tubID is %r; the text between pb:// and @ (first 32 characters) is %r"
                     % (k["furl"], k["s_tub"], k["independent_tub"]), replay=dict(key=k))
    i = 0
    for k in trials:
        table = []
        for row in k["rows"]:
            code, tub = v_asks[i]
            i += 1
            ctx.traces += 1
            mt = "".join(chr(c) for c in tub)
            if code == 1:
                # the model finds an existing entry: the implementation must answer over exactly that entry, without a new connection
                if not row["answered"] or row["entry"] != [mt] or row["table"] != table:
                    bad("getReference(%s) with Tub.brokers = %r: the model answers from the entry %r; implementation answered=%s entry=%r table after=%r"
                        % (row["furl"], table, mt, row["answered"], row["entry"], row["table"]), trial=k, row=row)
            elif code == 0 and row["answered"] and row["entry"] in [[t_] for t_ in table]:
                bad("getReference(%s) with Tub.brokers = %r: the model finds no entry, the implementation answered from %r"
                    % (row["furl"], table, row["entry"]), trial=k, row=row)
            table = row["table"]
    ctx.extra["correspondence_key_cases"] = len(pairs) + len(good) + i
    ctx.extra["correspondence_key_disagreements"] = nbad


# ---------------------------------------------------------------------------------------------- inbound references as histories
REF_WITNESSES = [
    ("hi", [(3, "long", None), (3, "long", "C")]),          # URL supplied later for a clid first sent without one
    ("lo", [(3, "short", None), (3, "long", "C")]),
    ("hi", [(3, "long", "B"), (3, "long", "C")]),           # URL replaced
    ("hi", [(3, "long", "C"), (3, "long", None), (3, "long", "C")]),
    ("lo", [(3, "long", None), (4, "long", "B"), (3, "long", "A")]),
]


def ref_histories(ctx, impl):
    """an authenticated but dishonest peer sends HISTORIES of my-reference sequences (short / long form, with and without URL, URLs
    naming itself, another Tub, the receiver; new and already known clids); judged after every step"""
    import itertools as it
    forms = [("short", None), ("long", None), ("long", "B"), ("long", "C"), ("long", "A"), ("long", "upper"), ("long", "B2")]
    jobs = list(REF_WITNESSES)
    for a_pos in ("hi", "lo"):
        for f1 in forms:
            for f2 in forms:
                jobs.append((a_pos, [(3,) + f1, (3,) + f2]))
    r = ctx.rng
    for i in range(ctx.n(30, 1500)):
        n = r.randint(3, 6)
        jobs.append((r.choice(["hi", "lo"]), [(r.choice([3, 3, 4, -2]),) + r.choice(forms) for _ in range(n)]))
    out = []
    for (a_pos, steps) in jobs:
        try:
            h = impl.ref_history_trial(a_pos, steps)
        except Exception as e:
            import traceback
            ctx.fail("oracle/inbound-url/exception", "exception escaped during the reference history %r: %r" % (steps, e),
                     replay=dict(a_pos=a_pos, steps=steps, tb=traceback.format_exc()))
            continue
        ctx.case(["ref-history", a_pos, [list(s_) for s_ in steps]], nontrivial=len(steps) >= 2 and any(s_[2] not in (None, "B") for s_ in steps))
        ctx.hist("ref_history_len", len(steps))
        for p in h["problems"][:2]:
            ctx.fail("oracle/inbound-url/%s" % p[0], "%s; Tub B (authenticated) sent Tub A the my-reference history %r "
                     "(clid, form, tub named by the URL)" % (p[1], steps), replay=dict(history=h))
        out.append(h)
    if len(out) > 7:
        ctx.sample(dict(kind="ref-history", steps=out[7]["steps"], tables=out[7]["tables"]))
    return out


def correspond_ref_histories(ctx, rows):
    rows = [h for h in rows if h["tables"] and len(h["tables"]) == len(h["model_steps"])]
    if not rows:
        return
    def step(m):
        return "((%d)%%Z, %s)" % (m[0], "None" if m[1] is None else "Some %s" % zs(m[1]))
    lits = begin_lits()
    body = """Fixpoint rtrace (k : list Z) (t : rtab) (ms : list (Z * option (list Z))) : list rtab :=
  match ms with [] => [] | m :: r => let t' := ref_step k t m in t' :: rtrace k t' r end.
Eval vm_compute in [""" + ";\n ".join("rtrace %s [] %s" % (zs(h["key"]), coq_list(step(m) for m in h["model_steps"])) for h in rows) + "].\n"
    body = lits.text() + body
    end_lits()
    try:
        (vals,) = ctx.coq_eval("C05_refhist", body, requires=REQ)
    except common.CoqEvalError as e:
        ctx.fail("correspondence-broken", "the C05 reference-history model could not be evaluated: " + str(e)[-1500:], has_input=False)
        return
    nbad = 0
    for h, tr in zip(rows, vals):
        ctx.traces += 1
        got = [sorted((c_, None if (u == "None" or u is None) else "".join(chr(x) for x in (u[1] if isinstance(u, tuple) else u))) for (c_, u) in tab) for tab in tr]
        want = [[(c_, v) for (c_, v) in tab] for tab in h["tables"]]
        if got != want:
            nbad += 1
            if nbad <= 3:
                ctx.fail("correspondence/ref-history", "Broker.yourReferenceByCLID (clid -> tub named by the tracker's URL) and the model differ along "
                         "the my-reference history %r: implementation %r, model %r" % (h["steps"], want, got),
                         replay=dict(history=h, model=repr(got)), has_input=False)
    ctx.extra["correspondence_ref_histories"] = len(rows)
    ctx.extra["correspondence_ref_history_disagreements"] = nbad
