"""C19 -- file-accepting services stay inside their directory and publish atomically.

Registry (save_service_data): crash before every os-level operation, every operation FAILING with an errno (persistent /
transient), and a second complete writer at the single-writer interleaving points.  Observation recorded for the reader
(outside the property, see REGISTRY_NOTE below): the temporary name is fixed, overlapping writers can tear services.json."""
import glob, json, os, posixpath, stat

from harness import common
from harness.common import coq_list, coq_bytes

REQ = ["Verif.lib.UploadShape", "Verif.gen.UploadGen", "Verif.lib.Paths", "Verif.lib.Upload", "Verif.lib.UploadHist", "Verif.lib.UploadConc"]


def tail(s, n=2500):
    return s[-n:]


def run(ctx):
    ctx.rule = ("names = every string over {a . /} up to length 4 + hostile families (dot segments, absolute, "
                "separators, NUL, over-long, unicode, names of existing symlinks, '.partial' names) + seeded random "
                "strings; uploads = accepted name x block list x {complete, source error / disconnect after j blocks} "
                "x initial directory state (empty, old file, stale .partial, symlinks) x crash before every os-level "
                "operation; registry rewrites x crash point.  Non-trivial = hostile name, or interruption / crash "
                "point inside the operation list, or a non-empty initial state")
    ctx.assumptions = ["posixpath / Twisted FilePath are modelled (Paths.v) and compared with the real functions on every "
                       "generated name", "rename(2) is atomic; no power-loss model (the code never fsyncs)",
                       "a crash is modelled as 'no further os-level operation is performed' (exception injected "
                       "from wrapped open/write/close/rename/chmod/unlink)",
                       "symlinks planted by a local actor BETWEEN two service calls are modelled (histories: C19_upload_history, "
                       "C19_registry_history); a link planted WHILE a call runs is followed (C19_concurrent_symlink_refuted, replayed "
                       "on the code as a note): outside the property, which quantifies over what the remote peer supplies; "
                       "hard links to a temporary are excluded by the invariant (a local actor's doing as well)",
                       "two uploads at the same time are modelled with one file system and two file objects (UploadConc.v): for DISTINCT "
                       "names (the four names final/.partial pairwise distinct) every schedule is covered by C19_concurrent_distinct_names; "
                       "for ONE name the published file is torn (C19_concurrent_same_name_refuted = known finding "
                       "oracle/overlapping-uploads-same-name-tear-file, replayed and compared with the model); buffered text is modelled as "
                       "flushed at close() (blocks smaller than the io buffer)",
                       "failing system calls of an upload: final name old-or-complete is proved (C19_upload_fault_atomic); a failing "
                       "f.close() in _done/_err leaves <name>.partial (C19_upload_fault_leftover_refuted, replayed as an observation): "
                       "outside the property's quantifier (source error / disconnect / crash)",
                       "a restart = the process is gone (handle and unflushed data lost), the next call starts on the directory as it "
                       "is; the CONTENT of a temporary left by a kill is not compared (only that it is a file), it depends on what the "
                       "dying process had flushed",
                       "one registry writer at a time (overlapping save_service_data calls share services.json.tmp and are "
                       "outside the property); an injected OS fault is persistent for its kind of operation or transient"]
    ok, log = ctx.coq_build(["props/C19.vo"])
    from harness import c19_impl as impl
    before = len(ctx.failures)
    with impl.quiet_logs():
        corpus(ctx, impl)
        names = gen_names(ctx)
        model_ok = ok
        if not ok:
            model_ok, _ = ctx.coq_build(["lib/UploadConc.vo"])
        jobs = []
        paths_check(ctx, impl, names, jobs)
        upload_check(ctx, impl, names, jobs)
        registry_check(ctx, impl, jobs)
        gatherer_check(ctx, impl, names, jobs)
        publisher_check(ctx, impl, names, jobs)
        listing_check(ctx, impl, jobs)
        symlink_check(ctx, impl, jobs)
        read_symlink_check(ctx, impl, jobs)
        derived_symlink_check(ctx, impl)
        overlap_check(ctx, impl, jobs)
        upload_fault_check(ctx, impl, jobs)
        history_check(ctx, impl, jobs)
        toctou_note(ctx, impl)
        if model_ok:
            run_jobs(ctx, jobs)
    impl.wipe()
    if not ok and len(ctx.failures) == before:
        ctx.fail("proof-broken", "theorem closure props/C19.vo no longer builds against the regenerated gen/UploadGen.v: "
                 + tail(log), replay=dict(log=tail(log, 6000)), has_input=False)
    elif not ok:
        ctx.note("proof broken AND a failing input was found (reported above)")


# ---------------------------------------------------------------------------
# correspondence jobs: the model's observations are compared with the implementation's INSIDE Coq
# (printing large values is what makes coqc slow); only the indices of disagreeing cases come back.

def lstr(xs):
    """list of bytes / int lists -> Coq `list (list N)`"""
    return coq_list([coq_bytes(bytes(x) if not isinstance(x, (bytes, str)) else (enc(x) if isinstance(x, str) else x))
                     for x in xs])


def make_job(name, sig, prelude, case_type, case_terms, obs_def, expected, describe):
    """obs_def defines `obs : case_type -> list (list N)`; expected[i] is the implementation's observation of case i
    (a list of byte strings); describe(i) -> text for a failure message"""
    body = prelude
    body += "Definition cases : list (%s) := %s.\n" % (case_type, coq_list(case_terms))
    body += obs_def
    body += "Definition expected : list (list (list N)) := %s.\n" % coq_list([lstr(e) for e in expected])
    body += "Eval vm_compute in mismatches (map obs cases) expected.\n"
    return dict(name=name, sig=sig, body=body, n=len(case_terms), expected=expected, describe=describe)


def run_jobs(ctx, jobs):
    from concurrent.futures import ThreadPoolExecutor

    def ev(j):
        try:
            return ctx.coq_eval(j["name"], j["body"], requires=REQ)
        except common.CoqEvalError as e:
            return e
    with ThreadPoolExecutor(max_workers=8) as ex:
        results = list(ex.map(ev, jobs))
    for j, r in zip(jobs, results):
        fam = j["name"].split("_")[1]
        ctx.extra[fam + "_cases"] = ctx.extra.get(fam + "_cases", 0) + j["n"]
        if isinstance(r, Exception):
            ctx.fail("correspondence-broken", "the model could not be evaluated (%s): %s" % (j["name"], str(r)[-1500:]), has_input=False)
            continue
        (bad,) = r
        ctx.traces += j["n"] - len(bad)
        ctx.extra[fam + "_disagreements"] = ctx.extra.get(fam + "_disagreements", 0) + len(bad)
        if bad:
            detail = ""
            try:
                body = j["body"].rsplit("Eval vm_compute", 1)[0] + "Eval vm_compute in map (fun i => nth i (map obs cases) []) %s.\n" % coq_list(
                    ["%d%%nat" % i for i in bad[:3]])
                (vals,) = ctx.coq_eval(j["name"] + "_detail", body, requires=REQ)
                detail = "; ".join("case %d %s: model %r, implementation %r" % (i, j["describe"](i), [bytes(x) for x in v],
                                                                                   [bytes(x) if not isinstance(x, str) else x for x in j["expected"][i]])
                                   for i, v in zip(bad, vals))
            except Exception as e:      # the detail is a convenience only
                detail = "cases %r (%s)" % (bad[:10], j["describe"](bad[0]))
            ctx.fail(j["sig"], "model and implementation disagree on %d of %d cases: %s" % (len(bad), j["n"], detail[:3000]),
                     replay=dict(cases=[j["describe"](i) for i in bad[:10]]), has_input=False)


# ---------------------------------------------------------------------------
# generators

HOSTILE = ["", ".", "..", "...", "....", "a/b", "/etc/passwd", "../sentinel/victim", "../target", "../target/x",
           "../targetx", "a/..", "a/../..", "a/../b", "a/../../sentinel/victim", "./a", "a/", "a//", "//a", "///a",
           "a/./b", "./", "/", "//", "/.", "/..", "x\x00y", "\x00", "x\x00", "\x00/..", "a" * 255, "a" * 256, "a" * 300,
           "a" * 247, "a" * 248, "\u00e9", "\u00e9/\u00e9", " ", "..a", "a..", ".a", ".partial", "x.partial",
           "x.partial.partial", "lnk", "dlnk", "dlnk/x", "dlnk/..", "lnk/", "~", "~root", "$HOME", "a\\b", "..\\x",
           "C:x", "a\nb", "-rf", "*", "latest", "incident", "incident/..", "incident/../", "incident/../.",
           "incident/../incident-1", "incident-1", "incident-1/", "incidentx/../../sentinel/victim", "incident/../..",
           "incident\x00", "incident" + "a" * 250, "services.json", "services.json.tmp",
           # names that are not literally "", "." or ".." but that normpath collapses to the directory itself (C19-r5s1)
           "x/..", "./.", ".//", "nosuchdir/..", "x/../.", "./x/..", "x/./..", "x//.."]


def gen_names(ctx):
    names = list(HOSTILE)
    alpha = ["a", ".", "/"]
    level = [""]
    for _ in range(4):
        level = [x + c for x in level for c in alpha]
        names += level
    from harness import c19_impl as impl
    names += impl.furniture_names()
    rnd_alpha = ["a", "b", ".", ".", "/", "/", "..", "\x00", " ", "\u00e9", "incident", ".partial"] + list(impl.FURNITURE.values())
    for _ in range(ctx.n(120, 3000)):
        k = ctx.rng.randint(1, 7)
        names.append("".join(ctx.rng.choice(rnd_alpha) for _ in range(k)))
    seen = set()
    out = []
    for n in names:
        if n not in seen:
            seen.add(n)
            out.append(n)
    return out


def enc(s):
    return s.encode("utf-8")


def cb(s):
    return coq_bytes(enc(s) if isinstance(s, str) else s)


def dec(lst):
    return bytes(lst).decode("utf-8", "surrogateescape")


def plain(name):
    """a name that is itself one good path component"""
    return name not in ("", ".", "..") and "/" not in name


def os_refuses(name):
    """the operating system cannot create this entry (NUL byte, component longer than NAME_MAX)"""
    comp = posixpath.normpath(name)
    return "\x00" in name or len(enc(comp)) + len(".flog.bz2") > 255


# ---------------------------------------------------------------------------
# corpus (regression witnesses of repaired defects run first)

def corpus(ctx, impl):
    for p in sorted(glob.glob(os.path.join(common.VERIF, "corpus", "C19", "*.json"))):
        w = json.load(open(p))
        ctx.hist("corpus", w["kind"])
        if w["kind"] == "upload":
            one_upload(ctx, impl, w["name"], [b.encode() for b in w["blocks"]],
                       tuple(w["ending"]) if isinstance(w.get("ending"), list) else "done", w.get("variant", "empty"),
                       sig=w["signature"], src=os.path.basename(p))
        elif w["kind"] == "registry-fault":
            ops = [o[0] for o in reg_ops(impl, REG_OLD, REG_NEW)]
            reg_fault(ctx, impl, REG_OLD, REG_NEW, ops.index(w["op"]), w["errno"], w["persistent"], sig=w["signature"])
        elif w["kind"] == "registry-two-writers":
            ops = [o[0] for o in reg_ops(impl, REG_OLD, REG_NEW)]
            reg_two_writers(ctx, impl, REG_OLD, REG_NEW, REG_B, ops.index(w["at"]), sig=w["signature"])
        elif w["kind"] == "gatherer":
            one_gather(ctx, impl, w["name"], sig=w["signature"])
        elif w["kind"] == "publisher":
            one_publish(ctx, impl, w["name"], sig=w["signature"])
        elif w["kind"] == "gatherer-symlink":
            gather_symlink_case(ctx, impl, w["name"], w["where"], w["text"], sig=w["signature"])
        elif w["kind"] == "publisher-symlink":
            publish_symlink_case(ctx, impl, w["name"], w["ext"], w["text"], sig=w["signature"])
        elif w["kind"] == "names-history":
            run_names_history(ctx, impl, [(e[0], [b.encode() for b in e[1]], tuple(e[2]) if isinstance(e[2], list) else e[2], e[3])
                                          for e in w["events"]], None, sig=w["signature"])
        elif w["kind"] == "publisher-listing-symlink":
            listing_symlink_case(ctx, impl, w["entry"], w["text"], w.get("sinces", [""]), sig=w["signature"])
        elif w["kind"] == "gatherer-state-symlink":
            state_symlink_case(ctx, impl, ("L", w["text"]), sig=w["signature"])


# ---------------------------------------------------------------------------
# 1. path functions: model vs posixpath / FilePath.child on every name

def paths_check(ctx, impl, names, jobs):
    from twisted.python.filepath import FilePath, InsecurePath
    arena, target, sent = impl.fresh("paths")
    base = FilePath(target)
    real = []
    for n in names:
        try:
            c = base.child(n)
            r = (c.path, c.parent() == base)
        except InsecurePath:
            r = None
        real.append(r)
        ctx.case(["child", n], nontrivial=not plain(n))
        ctx.hist("child_outcome", "refused" if r is None else ("dir-itself" if not r[1] else "child"))
        # direct oracle on FilePath.child + parent guard: an accepted result is a direct child entry of base
        if r is not None and r[1]:
            comp = r[0][len(target) + 1:]
            if not (r[0].startswith(target + "/") and plain(comp)):
                ctx.fail("oracle/child-not-direct", "FilePath(%r).child(%r) = %r passes the parent() test but is not a "
                         "direct child" % (target, n, r[0]), replay=dict(name=n, result=r[0]))
    extra = [target + "/" + n for n in names[:150]] + names[:150]
    pre = "Definition base : str := %s.\nDefinition cwd : str := %s.\n" % (cb(target), cb(os.getcwd()))
    exp = []
    for n, r in zip(names, real):
        ec = [0] if r is None else [1] + list(enc(r[0]))
        eg = [0] if (r is None or not r[1]) else [1] + list(enc(r[0]))
        exp.append([ec, eg])
    jobs.append(make_job("C19_paths_child", "correspondence/child", pre, "str", [cb(n) for n in names],
                         "Definition obs (n : str) := [code_opt (child cwd base n); code_opt (guarded GuardParentEq cwd base n)].\n",
                         exp, lambda i: "FilePath(%r).child(%r)" % (target, names[i])))
    exp2 = []
    for x in extra:
        ctx.case(["pathfn", x], nontrivial="/" in x or "." in x)
        exp2.append([posixpath.normpath(x), posixpath.dirname(x), posixpath.basename(x), posixpath.join(target, x),
                     posixpath.abspath(x)])
    jobs.append(make_job("C19_paths_posixpath", "correspondence/posixpath", pre, "str", [cb(x) for x in extra],
                         "Definition obs (s : str) := [normpath s; dirname s; basename s; join base s; abspath cwd s].\n",
                         exp2, lambda i: "(normpath, dirname, basename, join(base,.), abspath) of %r" % extra[i]))


# ---------------------------------------------------------------------------
# 2. uploads

VARIANTS = ["empty", "old", "stale", "tmplink", "finallink", "old+tmplink",
            # symlinks whose destination does not exist (os.path.exists follows links: False; islink: True), chains, loops,
            # and a directory squatting on the temporary name
            "tmpdangling-out", "tmpdangling-in", "finaldangling", "tmpchain", "tmpchain-dangling", "tmploop", "tmpdir",
            # the final name is an existing directory: rename(2) onto it fails after the upload was received completely
            "finaldir", "finaldir+stale"]
TMP_LINK_VARIANTS = ("tmplink", "tmpdangling", "tmpchain", "tmploop")
OLD, STALE = b"OLD-CONTENT", b"STALE"
LINK = "../sentinel/victim"
DANGLING_OUT, DANGLING_IN, CHAIN = "../sentinel/newfile", "ghost", "zz-chain"


def prepopulate(target, comp, variant):
    """creates the initial state and -> model entries [(abspath, ('F', content) | ('L', linktext) | ('D',))]"""
    from harness import c19_impl as impl
    arena = os.path.dirname(target)
    ents = [(os.path.join(arena, "sentinel", "victim"), ("F", b"SENTINEL"))] + impl.furnish(target)
    if comp is None:
        return ents
    final, tmp = os.path.join(target, comp), os.path.join(target, comp + ".partial")

    def link(text, at):
        os.symlink(text, at)
        ents.append((at, ("L", text)))
    if "old" in variant:
        open(final, "wb").write(OLD)
        ents.append((final, ("F", OLD)))
    if variant == "finallink":
        link(LINK, final)
    if variant == "finaldangling":
        link(DANGLING_OUT, final)
    if "finaldir" in variant:
        os.mkdir(final)
        open(os.path.join(final, "inner"), "wb").write(b"INNER")
        ents.append((final, ("D",)))
    if "stale" in variant:
        open(tmp, "wb").write(STALE)
        ents.append((tmp, ("F", STALE)))
    if "tmplink" in variant:
        link(LINK, tmp)
    if variant == "tmpdangling-out":
        link(DANGLING_OUT, tmp)
    if variant == "tmpdangling-in":
        link(DANGLING_IN, tmp)
    if variant == "tmpchain":
        link(LINK, os.path.join(target, CHAIN))
        link(CHAIN, tmp)
    if variant == "tmpchain-dangling":
        link(DANGLING_OUT, os.path.join(target, CHAIN))
        link(CHAIN, tmp)
    if variant == "tmploop":
        link(comp + ".partial", tmp)
    if variant == "tmpdir":
        os.mkdir(tmp)
        open(os.path.join(tmp, "inner"), "wb").write(b"INNER")
        ents.append((tmp, ("D",)))
    return ents


def view(p):
    try:
        st = os.lstat(p)
    except (OSError, ValueError):
        return [0]
    if stat.S_ISLNK(st.st_mode):
        return [1] + list(enc(os.readlink(p)))
    if stat.S_ISDIR(st.st_mode):
        return [9]
    return [2] + list(open(p, "rb").read())


KIND = {"open": 1, "write": 2, "close": 3, "rename": 4, "chmod": 5, "unlink": 6}


def canon_ops(ops, arena):
    out = []
    for o in ops:
        k = KIND.get(o[0])
        if o[0] == "open-failed":       # open() itself raised (EISDIR ...): the model's Open that sets `failed`
            out.append((1, os.path.join(arena, o[1]), "", 0))
            continue
        if k is None:
            out.append((o[0],))
            continue
        p1 = os.path.join(arena, o[1])
        p2 = os.path.join(arena, o[2]) if o[0] == "rename" else ""
        n = o[2] if o[0] == "write" else 0
        out.append((k, p1, p2, n))
    return out


def one_upload(ctx, impl, name, blocks, ending, variant, sig=None, src=None, collect=None):
    """run one upload on the real FileUploader and apply the direct oracle.
    ending: 'done' | ('error', j, 'source'|'disconnect') | ('badblock', j, kind): after j good blocks"""
    all_blocks = blocks
    arena, target, sent = impl.fresh("up")
    comp = posixpath.normpath(name)
    ents = prepopulate(target, comp if (plain(comp) and not os_refuses(name)) else None, variant)
    fu = impl.make_uploader(target, 0o640)
    outside0 = impl.outside_snapshot(arena)
    inside0 = impl.snap(target)
    script = list(blocks)
    if ending != "done":
        blocks = blocks[:ending[1]]
        script = script[:ending[1]] + [impl.source_error(ending[2])]
    rec = impl.Recorder(arena)
    out = impl.putfile(fu, name, script, rec)
    rec.cleanup()
    outside1 = impl.outside_snapshot(arena)
    inside1 = impl.snap(target)
    what = dict(name=name, blocks=[b.decode("latin1") for b in all_blocks], ending=ending, variant=variant, outcome=out,
                ops=rec.ops)
    ctx.hist("upload_outcome", out.split(":")[0] if out.startswith("raise") or out.startswith("fail") else out)
    if outside1 != outside0:
        ctx.fail(sig or ("oracle/upload-follows-preexisting-partial-symlink" if any(x in variant for x in TMP_LINK_VARIANTS) else
                         "oracle/upload-escapes-directory"),
                 "upload of name %r (initial state %s) changed something outside the target directory: %s; "
                 "operations %r" % (name, variant, tree_diff(outside0, outside1), rec.ops), replay=what)
    stray = sorted(set(p for o in rec.ops for p in op_paths(o) if not direct_child(p)))
    if stray:
        ctx.fail(sig or "oracle/upload-operates-outside-directory",
                 "upload of name %r (initial state %s, -> %s) performed file operations on %r, which is not an entry of the target "
                 "directory itself; operations %r" % (name, variant, out, stray, rec.ops), replay=what)
    final = os.path.join(target, comp)
    complete = b"".join(blocks)
    if out == "ok":
        want = dict(inside0)
        want.pop(comp + ".partial", None)
        want[comp] = ("f", complete.hex(), 0o640)
        if not plain(comp) or inside1 != want:
            ctx.fail(sig or "oracle/upload-not-published", "completed upload of %r: target directory is %r, expected %r"
                     % (name, inside1, want), replay=what)
    else:
        if out == "pending":
            ctx.fail(sig or "oracle/upload-never-completes", "upload of %r (%s, initial state %s): the Deferred returned by "
                     "remote_putfile never fired; target directory now %r; operations %r" % (name, ending, variant, inside1, rec.ops),
                     replay=what)
        want = dict(inside0)
        if plain(comp) and variant != "tmpdir":
            want.pop(comp + ".partial", None)     # a stale temporary of the same name may be consumed; never left
        if inside1 != want:
            s = "oracle/upload-leftover" if any(k.endswith(".partial") for k in inside1) and inside1.get(comp) == inside0.get(comp) \
                else "oracle/upload-partial-under-final-name"
            if s == "oracle/upload-leftover" and inside0.get(comp) == ("d",) and ending == "done":
                s = "oracle/upload-onto-directory-leaves-partial"
            ctx.fail(sig or s, "upload of %r ended with %s but the target directory changed: before %r after %r; operations %r"
                     % (name, out, inside0, inside1, rec.ops), replay=what)
    if collect is not None:
        collect.append(dict(name=name, blocks=all_blocks, ending=ending, variant=variant, out=out, ents=ents, arena=arena,
                            target=target, ops=canon_ops(rec.ops, arena), final_view=view(final),
                            tmp_view=view(final + ".partial"), comp=comp))
    return out


def op_paths(o):
    """arena-relative paths an recorded operation names"""
    if o[0] == "rename":
        return [o[1], o[2]]
    if o[0] == "FAIL":
        return op_paths(o[2:])
    return [o[1]]


def direct_child(rel, inside="target"):
    parts = rel.split("/")
    return len(parts) == 2 and parts[0] == inside and parts[1] not in ("", ".", "..")


def crash_sweep(ctx, impl, c):
    """real code: the process dies before the k-th os-level operation, for every k.  -> list of views of the final name"""
    views = []
    nops = len(c["ops"])
    complete = [2] + list(b"".join(c["blocks"]))
    for k in range(nops + 1):
        arena, target, sent = impl.fresh("up")
        prepopulate(target, c["comp"], c["variant"])
        fu = impl.make_uploader(target, 0o640)
        outside0 = impl.outside_snapshot(arena)
        final = os.path.join(target, c["comp"])
        old = view(final)
        rec = impl.Recorder(arena, crash_at=k)
        impl.putfile(fu, c["name"], list(c["blocks"]), rec)
        v = view(final)
        outside1 = impl.outside_snapshot(arena)
        rec.cleanup()
        views.append(v)
        ctx.case(["crash", c["name"], c["variant"], len(c["blocks"]), k], nontrivial=0 < k < nops)
        ctx.hist("crash_point", k)
        what = dict(name=c["name"], variant=c["variant"], blocks=[b.decode("latin1") for b in c["blocks"]], crash_before_op=k,
                    ops=rec.ops)
        if v != old and v != complete:
            ctx.fail("oracle/partial-visible-under-final-name", "crash before operation %d of the upload of %r (initial state %s): "
                     "the final name shows %r, neither the old entry %r nor the complete file" % (k, c["name"], c["variant"], bytes(v[1:]), bytes(old[1:])),
                     replay=what)
        if outside1 != outside0:
            ctx.fail("oracle/upload-escapes-directory", "crash before operation %d of the upload of %r (initial state %s) left a "
                     "change outside the target directory" % (k, c["name"], c["variant"]), replay=what)
    return views


def coq_ents(ents):
    """[(path, ('F', content) | ('L', target))] -> (entries term, contents term)"""
    es, cs = [], []
    for p, e in ents:
        if e[0] == "F":
            es.append("(%s, F %d)" % (cb(p), len(cs)))
            cs.append(cb(e[1]))
        elif e[0] == "D":
            es.append("(%s, D)" % cb(p))
        else:
            es.append("(%s, L %s)" % (cb(p), cb(e[1])))
    return coq_list(es), coq_list(cs)


def upload_check(ctx, impl, names, jobs):
    cases = []
    # (a) every name once, on an empty directory, two blocks
    for n in names:
        one_upload(ctx, impl, n, [b"da", b"ta"], "done", "empty", collect=cases)
        ctx.case(["upload", n, "done"], nontrivial=not plain(n))
        ending = ("badblock", 1, impl.BAD_BLOCK_KINDS[len(cases) % len(impl.BAD_BLOCK_KINDS)])
        one_upload(ctx, impl, n, [b"da", b"ta"], ending, "empty", collect=cases)
        ctx.case(["upload", n, ending], nontrivial=True)
    # (b) accepted names: block lists x endings x initial states
    good = ["ok", "a/../b", "x.partial", "lnk", "\u00e9", "./c", "d/", "..a", "incident/../e", " "]
    blocklists = [[], [b"x"], [b"da", b"ta"], [b"one", b"two", b"three!"]]
    for _ in range(ctx.n(2, 10)):
        blocklists.append([bytes(ctx.rng.randrange(256) for _ in range(ctx.rng.randint(1, 9)))
                           for _ in range(ctx.rng.randint(1, 5))])
    sweep = []
    for n in good[:ctx.n(6, 10)]:
        for variant in VARIANTS:
            for bl in blocklists:
                endings = ["done"] + [("error", j, kind) for j in range(len(bl) + 1) for kind in ("source", "disconnect")] \
                    + [("badblock", j, kind) for j in range(len(bl) + 1) for kind in impl.BAD_BLOCK_KINDS]
                for e in endings:
                    if e != "done" and ctx.tier == "quick" and ctx.rng.random() < (0.5 if e[0] == "error" else 0.8):
                        continue
                    one_upload(ctx, impl, n, bl, e, variant, collect=cases)
                    ctx.case(["upload", n, variant, [b.hex() for b in bl], e], nontrivial=True)
                    ctx.hist("ending", e if e == "done" else "%s-after-%d" % (e[2], e[1]))
                    ctx.hist("variant", variant)
                    if e == "done" and variant != "tmpdir":
                        sweep.append(cases[-1])
    ctx.sample(dict(name="a/../b", blocks=["da", "ta"], variant="old+tmplink", ending=["error", 1, "disconnect"]))
    # (c) crash before every operation
    if ctx.tier == "quick":
        small = [c for c in sweep if len(c["blocks"]) <= 3]
        per = {}
        for c in small:
            per.setdefault(c["variant"], []).append(c)
        sweep = [c for v in per for c in per[v][:6]]
    for c in sweep:
        c["crash_views"] = crash_sweep(ctx, impl, c)
    upload_correspond(ctx, cases, jobs)


def enc_ops(ops):
    out = []
    for o in ops:
        if len(o) != 4:
            out += [[99], list(enc(o[0])), []]
        else:
            out += [[o[0], o[3]], list(enc(o[1])), list(enc(o[2]))]
    return out


UPLOAD_OBS = """Definition obs (c : str * str * list (list N) * outcome * (list (str * ent) * list (list N)) * bool) : list (list N) :=
  let '(base, name, blocks, oc, (ents, cont), with_crash) := c in
  let s0 := mk_st ents cont in
  match putfile_final cwd base name with
  | None => [[0%N]]
  | Some final =>
    let ops := upload_ops final blocks oc in
    let s := run s0 ops in
    [[1%N]] ++ flat_map enc_op (effective s0 ops) ++
    [[100%N]; code_view (look s final); code_view (look s (final ++ putfile_tmp_ext)); [b2n (failed s); b2n (followed s)]] ++
    (if with_crash then [101%N] :: crash_views s0 ops final else [])
  end.
"""


def upload_correspond(ctx, cases, jobs):
    cwd = os.getcwd()
    # names on which open() itself fails (NUL / ENAMETOOLONG) are outside the model; the direct oracle covered them
    cases = [c for c in cases if not (os_refuses(c["name"]) and c["out"] not in ("raise:InsecurePath", "raise:BadFilenameError"))]
    SH = 150
    for shard in range(0, len(cases), SH):
        part = cases[shard:shard + SH]
        terms, exp = [], []
        for c in part:
            es, cs = coq_ents(c["ents"])
            blocks = c["blocks"] if c["ending"] == "done" else c["blocks"][:c["ending"][1]]
            terms.append("(%s, %s, %s, %s, (%s, %s), %s)" % (cb(c["target"]), cb(c["name"]), coq_list([cb(b) for b in blocks]),
                                                           "Done" if c["ending"] == "done" else ("SrcError" if c["ending"][0] == "error" else "BadBlock"), es, cs,
                                                           "true" if "crash_views" in c else "false"))
            if c["out"] in ("raise:InsecurePath", "raise:BadFilenameError") and not c["ops"]:
                exp.append([[0]])
            else:
                # an os-level operation raised (open on a directory, rename onto a directory): the model's `failed`
                raised = c["out"] == "raise:IsADirectoryError" or (c["ending"] == "done" and c["out"].startswith("fail:"))
                e = [[1]] + enc_ops(c["ops"]) + [[100], c["final_view"], c["tmp_view"], [1 if raised else 0, 0]]
                if "crash_views" in c:
                    e += [[101]] + c["crash_views"]
                exp.append(e)
        jobs.append(make_job("C19_upload_%d" % (shard // SH), "correspondence/upload-trace",
                             "Definition cwd : str := %s.\n" % cb(cwd),
                             "str * str * list (list N) * outcome * (list (str * ent) * list (list N)) * bool", terms, UPLOAD_OBS, exp,
                             (lambda part: lambda i: "upload %r" % dict(name=part[i]["name"], variant=part[i]["variant"], ending=part[i]["ending"],
                                                                         blocks=[b.hex() for b in part[i]["blocks"]], outcome=part[i]["out"]))(part)))


# ---------------------------------------------------------------------------
# 3. registry

REG_ERRNOS = ["EACCES", "EROFS", "ENOSPC", "EIO", "ENOENT"]
# Second writer.  C19 quantifies over crashes/faults of ONE writer at a time (flappserver create/add are one-shot CLI
# invocations by the administrator), so the sweep runs the second save_service_data only at the interleaving points that are
# well defined for a single-writer protocol: before the first writer's open(), between its close() and its rename() (the
# temporary it is about to publish has been consumed: ENOENT), and after it.  OBSERVATION (decided by the lead to be outside
# the property, not a finding): save_service_data always uses the fixed temporary name services.json.tmp, so a second writer
# that completes while the first one is between open() and close() truncates and publishes the inode the first still has
# open; the first writer's buffered text is then flushed INTO the published services.json (JSONDecodeError when it is the
# shorter one).  ALL_INTERLEAVINGS = True sweeps every point and shows it; it stays off.
ALL_INTERLEAVINGS = False
REGISTRY_NOTE = ("observation, outside C19 (single writer): save_service_data uses the fixed temporary name services.json.tmp; "
                 "two OVERLAPPING writers (second completes between the first's open and close) can tear services.json; the "
                 "second-writer sweep therefore covers only the points before open / between close and rename / after")


def reg_setup(impl, old):
    arena, target, sent = impl.fresh("reg")
    if old is not None:
        impl.save_registry(target, old)
    return arena, target, os.path.join(target, "services.json")


def reg_judge(ctx, impl, sig, what, target, reg, oldv, old_loaded, versions, arena, outside0, replay):
    """the registry on disk must be, and must LOAD as, the complete old version or one of the complete new versions"""
    v = view(reg)
    okv = (v == oldv)
    if not okv and v[0] == 2:
        try:
            okv = json.loads(bytes(v[1:]).decode()) in versions
        except ValueError:
            okv = False
    try:
        loaded = impl.load_registry(target)
        okl = loaded == old_loaded or loaded in versions
        lw = "loads as something else" if not okl else ""
    except Exception as e:
        okl, lw = False, "cannot be loaded (%s)" % type(e).__name__
    left = sorted(set(os.listdir(target)) - {"services.json", "services.json.tmp"})
    if not okv or not okl or left or impl.outside_snapshot(arena) != outside0:
        ctx.fail(sig, "%s: services.json is %r (before: %r) %s, other entries %r"
                 % (what, bytes(v[1:]) if v[0] == 2 else v, bytes(oldv[1:]) if oldv[0] == 2 else oldv, lw, left), replay=replay)
    return v


def reg_fault(ctx, impl, old, new, k, ename, persistent, sig=None):
    """the k-th os-level operation of save_service_data(new) fails with errno `ename`"""
    import errno
    arena, target, reg = reg_setup(impl, old)
    oldv, old_loaded, outside0 = view(reg), impl.load_registry(target), impl.outside_snapshot(arena)
    r = impl.Recorder(arena, fail_at=k, fail_errno=getattr(errno, ename), persistent=persistent)
    out = impl.save_registry(target, new, r)
    r.cleanup()
    return reg_judge(ctx, impl, sig or "oracle/registry-lost-after-failed-operation",
                     "operation %d of save_service_data fails with %s (%s; call -> %s; operations %r)"
                     % (k, ename, "persistently" if persistent else "once", out, r.ops[-4:]),
                     target, reg, oldv, old_loaded, [new], arena, outside0,
                     dict(old=old, new=new, failing_op=k, errno=ename, persistent=persistent, ops=r.ops))


def reg_two_writers(ctx, impl, old, new, new_b, i, sig=None):
    """a second save_service_data(new_b) runs to completion just before the i-th operation of save_service_data(new)"""
    arena, target, reg = reg_setup(impl, old)
    oldv, old_loaded, outside0 = view(reg), impl.load_registry(target), impl.outside_snapshot(arena)
    res = []
    r = impl.Recorder(arena, nest_at=i, nest_fn=lambda: res.append(impl.save_registry(target, new_b)))
    out = impl.save_registry(target, new, r)
    r.cleanup()
    return reg_judge(ctx, impl, sig or "oracle/registry-lost-with-two-writers",
                     "a second writer completes just before operation %d of the first (first -> %s, second -> %s; first's operations %r)"
                     % (i, out, res, [o[0] for o in r.ops][-4:]),
                     target, reg, oldv, old_loaded, [new, new_b], arena, outside0,
                     dict(old=old, new=new, second=new_b, second_runs_before_op=i, ops=r.ops))


def reg_unserialisable(ctx, impl, old, sig=None):
    """save_service_data is handed a registry that json cannot encode: the dump stops part-way with TypeError"""
    arena, target, reg = reg_setup(impl, old)
    oldv, old_loaded, outside0 = view(reg), impl.load_registry(target), impl.outside_snapshot(arena)
    bad = {"version": 1, "services": {"swiss9": {"relative_basedir": "services/9", "type": "upload-file", "args": ["/srv/in"],
                                                 "comment": b"bytes are not JSON"}}}
    out = impl.save_registry(target, bad)
    return reg_judge(ctx, impl, sig or "oracle/registry-lost-after-failed-dump",
                     "save_service_data with a comment json cannot encode (call -> %s)" % out,
                     target, reg, oldv, old_loaded, [], arena, outside0, dict(old=old, new="<comment is a bytes object>", outcome=out))


def reg_ops(impl, old, new):
    arena, target, reg = reg_setup(impl, old)
    r = impl.Recorder(arena)
    impl.save_registry(target, new, r)
    r.cleanup()
    return r.ops


REG_OLD = {"version": 1, "services": {"swiss0": {"relative_basedir": "services/0", "type": "upload-file", "args": ["/srv/in"],
                                                 "comment": "the old registry"}}}
REG_NEW = {"version": 1, "services": {"swiss1": {"relative_basedir": "services/1", "type": "run-command", "args": ["d", "ls"],
                                                 "comment": None}}}
REG_B = {"version": 1, "services": {}}


def registry_check(ctx, impl, jobs):
    ctx.notes.append(REGISTRY_NOTE)
    datas = [{"version": 1, "services": {}},
             {"version": 1, "services": {"swiss1": {"relative_basedir": "services/1", "type": "upload-file",
                                                    "args": ["/tmp/x"], "comment": None}}}]
    for _ in range(ctx.n(2, 20)):
        datas.append({"version": 1, "services": {"s%d" % ctx.rng.randrange(10 ** 6): {"relative_basedir": "services/%d" % i,
                                                                                      "type": "run-command", "args": ["d", "ls"],
                                                                                      "comment": "c" * ctx.rng.randint(0, 30)}
                                                 for i in range(ctx.rng.randint(1, 3))}})
    cases = []
    for old in [None] + datas[:2]:
        for new in datas:
            if old is new:
                continue
            # learn the operation list (and what json.dump writes) from an uninterrupted run
            arena, target, sent = impl.fresh("reg")
            if old is not None:
                impl.save_registry(target, old)
            rec = impl.Recorder(arena)
            out = impl.save_registry(target, new, rec)
            rec.cleanup()
            reg = os.path.join(target, "services.json")
            if out != "ok" or impl.load_registry(target) != new or sorted(os.listdir(target)) != ["services.json"]:
                ctx.fail("oracle/registry-not-saved", "save_service_data(%r) -> %s, directory %r" % (new, out, os.listdir(target)),
                         replay=dict(old=old, new=new))
            nops = len(rec.ops)
            views = []
            for k in range(nops + 1):
                arena, target, sent = impl.fresh("reg")
                if old is not None:
                    impl.save_registry(target, old)
                oldv = view(reg)
                outside0 = impl.outside_snapshot(arena)
                r2 = impl.Recorder(arena, crash_at=k)
                impl.save_registry(target, new, r2)
                v = view(reg)
                r2.cleanup()
                views.append(v)
                ctx.case(["registry", old, new, k], nontrivial=0 < k < nops)
                ctx.hist("registry_crash_point", min(k, 3) if k < nops - 2 else "last-%d" % (nops - k))
                okv = (v == oldv)
                if not okv and v[0] == 2:
                    try:
                        okv = json.loads(bytes(v[1:]).decode()) == new
                    except ValueError:
                        okv = False
                left = sorted(set(os.listdir(target)) - {"services.json", "services.json.tmp"})
                if not okv or left or impl.outside_snapshot(arena) != outside0:
                    ctx.fail("oracle/registry-torn", "crash before operation %d of save_service_data: services.json is %r (old %r), "
                             "other entries %r" % (k, bytes(v[1:]), bytes(oldv[1:]), left),
                             replay=dict(old=old, new=new, crash_before_op=k, ops=r2.ops))
            # (b) every operation FAILS with an errno instead (persistently / once); the program's own handlers run
            fviews = []
            for k in range(nops):
                kind = rec.ops[k][0]
                enames = REG_ERRNOS if kind in ("open", "close", "rename") else [REG_ERRNOS[k % len(REG_ERRNOS)], "EIO"]
                for ename in dict.fromkeys(enames):
                    for persistent in (True, False):
                        v = reg_fault(ctx, impl, old, new, k, ename, persistent)
                        ctx.case(["registry-fault", old, new, k, ename, persistent], nontrivial=True)
                        ctx.hist("registry_fault", "%s-%s" % (kind, ename))
                        if persistent and ename == "EIO":
                            fviews.append(v)
            # (b2) the new text cannot be produced completely (json.dump raises TypeError in the middle of the document)
            reg_unserialisable(ctx, impl, old)
            ctx.case(["registry-unserialisable", old], nontrivial=True)
            # (c) a second writer
            idx_rename = [o[0] for o in rec.ops].index("rename")
            points = range(nops + 1) if ALL_INTERLEAVINGS else [0, idx_rename, nops]
            for new_b in [d for d in datas[:3] if d is not new][:2]:
                for i in points:
                    reg_two_writers(ctx, impl, old, new, new_b, i)
                    ctx.case(["registry-two-writers", old, new, new_b, i], nontrivial=0 < i < nops)
                    ctx.hist("registry_second_writer_at", "rename" if i == idx_rename else i)
            cases.append(dict(target=target, old=None if old is None else bytes(view_after_save(impl, old)),
                              chunks=list(rec.written), ops=canon_ops(rec.ops, arena), views=views, fviews=fviews))
    terms, exp = [], []
    for c in cases:
        ents = [] if c["old"] is None else [(os.path.join(c["target"], "services.json"), ("F", c["old"]))]
        es, cs = coq_ents(ents)
        terms.append("(%s, %s, (%s, %s))" % (cb(c["target"]), coq_list([cb(x) for x in c["chunks"]]), es, cs))
        exp.append(enc_ops(c["ops"]) + [[100], [0]] + c["views"] + [[102]] + c["fviews"])
    jobs.append(make_job("C19_registry_0", "correspondence/registry", "", "str * list (list N) * (list (str * ent) * list (list N))", terms,
                         """Definition obs (c : str * list (list N) * (list (str * ent) * list (list N))) : list (list N) :=
  let '(base, chunks, (ents, cont)) := c in
  let s0 := mk_st ents cont in
  let ops := registry_ops base chunks in
  flat_map enc_op (effective s0 ops) ++ [[100%N]; [b2n (failed (run s0 ops))]] ++ crash_views s0 ops (registry_final base)
  ++ [[102%N]] ++ fault_views s0 ops (registry_final base).
""", exp, lambda i: "registry rewrite #%d (%d chunks)" % (i, len(cases[i]["chunks"]))))


def view_after_save(impl, data):
    arena, target, sent = impl.fresh("reg0")
    impl.save_registry(target, data)
    return open(os.path.join(target, "services.json"), "rb").read()


# ---------------------------------------------------------------------------
# 4. gatherer

def tree_diff(a, b, prefix=""):
    """what differs between two outside_snapshot()s, as text"""
    out = []
    for k in sorted(set(a) | set(b)):
        x, y = a.get(k), b.get(k)
        if x == y:
            continue
        if x is None:
            out.append("new %s%s" % (prefix, k))
        elif y is None:
            out.append("gone %s%s" % (prefix, k))
        elif x[0] == y[0] == "d" and len(x) > 1 and len(y) > 1:
            out.append(tree_diff(x[1], y[1], prefix + k + "/"))
        else:
            out.append("changed %s%s: %r -> %r" % (prefix, k, x, y))
    return ", ".join(out)


def one_gather(ctx, impl, name, sig=None, collect=None):
    arena, target, sent = impl.fresh("gat")
    os.symlink(LINK, os.path.join(target, "lnk"))
    os.symlink("../sentinel", os.path.join(target, "dlnk"))
    impl.furnish(target)
    obs = impl.make_observer(target)
    outside0 = impl.outside_snapshot(arena)
    inside0 = impl.snap(target)
    out = impl.got_incident(obs, name)
    outside1 = impl.outside_snapshot(arena)
    inside1 = impl.snap(target)
    created = sorted(k for k in inside1 if k not in inside0 or inside1[k] != inside0[k])
    ctx.hist("gatherer_outcome", out)
    what = dict(name=name, outcome=out, created=created)
    if outside1 != outside0:
        ctx.fail(sig or "oracle/gatherer-escapes-directory", "IncidentObserver._got_incident with incident name %r changed something "
                 "outside its directory: %s" % (name, tree_diff(outside0, outside1)), replay=what)
    for k in created:
        if "/" in k or inside1[k][0] != "f":
            ctx.fail(sig or "oracle/gatherer-not-direct-child", "incident name %r created %r" % (name, k), replay=what)
    if collect is not None:
        collect.append(dict(name=name, out=out, created=[os.path.join(target, k) for k in created if k != "latest"], target=target,
                            latest="latest" in created))
    return out


def gatherer_check(ctx, impl, names, jobs):
    cases = []
    for n in names:
        one_gather(ctx, impl, n, collect=cases)
        ctx.case(["gatherer", n], nontrivial=not plain(n))
    # names on which the operating system refuses the file are outside the model (direct oracle covered them)
    cs_ = [c for c in cases if not os_refuses(c["name"])]
    exp = []
    for c in cs_:
        if c["out"] == "ok" and len(c["created"]) == 1 and c["latest"]:
            exp.append([[1] + list(enc(c["created"][0])), [1] + list(enc(os.path.join(c["target"], "latest")))])
        elif c["out"].startswith("raise:") and not c["created"]:
            exp.append([[0]])
        else:
            exp.append([[98], list(enc(repr((c["out"], c["created"]))))])
    pre = "Definition cwd : str := %s.\nDefinition base : str := %s.\n" % (cb(os.getcwd()), cb(cases[0]["target"]))
    jobs.append(make_job("C19_gatherer_0", "correspondence/gatherer", pre, "str", [cb(c["name"]) for c in cs_],
                         "Definition obs (n : str) := match gatherer_writes cwd base n with None => [[0%N]] "
                         "| Some l => map (fun p => 1%N :: p) l end.\n", exp,
                         lambda i: "incident name %r -> %s, created %r" % (cs_[i]["name"], cs_[i]["out"], cs_[i]["created"])))


# ---------------------------------------------------------------------------
# 5. publisher

def one_publish(ctx, impl, name, sig=None, collect=None):
    arena, target, sent = impl.fresh("pub")
    impl.write_incident(os.path.join(arena, "target.flog"), "OUTSIDE-sibling")
    impl.write_incident(os.path.join(arena, "target.flog.bz2"), "OUTSIDE-sibling-bz2", compress=True)
    impl.write_incident(os.path.join(sent, "victim.flog"), "OUTSIDE-sentinel")
    impl.write_incident(os.path.join(target, "incident-1.flog"), "inside-1")
    impl.write_incident(os.path.join(target, "incident-2.flog.bz2"), "inside-2", compress=True)
    impl.furnish(target)
    for n in (".flog", "victim.flog", "incident-1.flog", "x.flog", "incident-x.flog", "inner.flog"):
        impl.write_incident(os.path.join(sent, n), "OUTSIDE-sentinel-" + n)
    pub = impl.make_publisher(target)
    out, opened = impl.get_incident(pub, name, arena)
    for rawp in impl.get_incident.raw:
        # physically: the directory that holds the opened file must be the incident directory itself
        if os.path.realpath(os.path.dirname(rawp)) != os.path.realpath(target) or os.path.basename(rawp) in ("", ".", ".."):
            ctx.fail(sig or "oracle/publisher-reads-outside-directory", "LogPublisher.remote_get_incident(%r) handed %r to the kernel, "
                     "which is not an entry of the incident directory itself (answer: %s)" % (name, rawp, out),
                     replay=dict(name=name, outcome=out, opened=opened, raw=rawp))
    ctx.hist("publisher_outcome", out.split(":")[0] + (":" + out.split(":")[1] if out.startswith("raise") else ""))
    what = dict(name=name, outcome=out, opened=opened)
    for p in opened:
        parts = p.split("/")
        if not (len(parts) == 2 and parts[0] == "target" and parts[1] not in ("", ".", "..")):
            ctx.fail(sig or "oracle/publisher-reads-outside-directory", "LogPublisher.remote_get_incident(%r) opened %r, which is not "
                     "directly inside the incident directory (answer: %s)" % (name, p, out), replay=what)
    if "OUTSIDE" in out:
        ctx.fail(sig or "oracle/publisher-reads-outside-directory", "LogPublisher.remote_get_incident(%r) returned the content of a file "
                 "outside the incident directory: %s" % (name, out), replay=what)
    if collect is not None:
        collect.append(dict(name=name, out=out, opened=[os.path.join(arena, p) for p in opened], target=target))
    return out


def publisher_check(ctx, impl, names, jobs):
    cases = []
    for n in names:
        one_publish(ctx, impl, n, collect=cases)
        ctx.case(["publisher", n], nontrivial=n.startswith("incident") and not plain(n))
    # the implementation may only open files the model lists, and must refuse when the model refuses:
    # observation = [refused?] ++ opened paths; the model side answers with the same list when each opened path is allowed
    exp = []
    for c in cases:
        refused = c["out"].startswith("raise:") and not c["opened"]
        exp.append([[0 if refused else 1]] + [list(enc(p)) for p in c["opened"]])
    pre = "Definition cwd : str := %s.\nDefinition base : str := %s.\n" % (cb(os.getcwd()), cb(cases[0]["target"]))
    pre += "Definition opened : list (list str) := %s.\n" % coq_list([coq_list([cb(p) for p in c["opened"]]) for c in cases])
    obs = """Definition obs (c : nat * str) : list (list N) :=
  let '(i, n) := c in
  let was := nth i opened [] in
  match publisher_paths cwd base n with
  | None => [[0%N]]                                   (* KeyError / InsecurePath before any file is touched *)
  | Some allowed => match was with
                    | [] => [[0%N]]                   (* nothing opened: file absent (KeyError), also fine *)
                    | _ => [[1%N]] ++ filter (fun p => existsb (str_eqb p) allowed) was
                    end
  end.
"""
    # when the model allows paths but the implementation found none (ENOENT) both sides say [[0]]
    exp = [e if e != [[1]] else [[0]] for e in exp]
    jobs.append(make_job("C19_publisher_0", "correspondence/publisher", pre, "nat * str",
                         ["(%d%%nat, %s)" % (i, cb(c["name"])) for i, c in enumerate(cases)], obs, exp,
                         lambda i: "get_incident(%r) -> %s, opened %r" % (cases[i]["name"], cases[i]["out"], cases[i]["opened"])))


# ---------------------------------------------------------------------------
# 6. list_incident_names: the read path that comes from a directory listing

LISTING = ["incident-1.flog", "incident-2.flog.bz2", "incident-3.tmp", "incident-4.flog.tmp", "incidentx", "x", "incident",
           "incident.bz2.flog", "incident-5.flog.bz2.bz2", "incident-6.bz2", ".flog", "latest", "incident-\u00e9.flog",
           "incident-7.flog.flog", "incident.tmp.flog", "incident-8", "xincident-9.flog", "incident-10.flog.bz2.tmp"]


def listing_check(ctx, impl, jobs):
    arena, target, sent = impl.fresh("lst")
    for e in LISTING:
        with open(os.path.join(target, e), "wb") as f:
            f.write(b"x")
    impl.furnish(target)
    pub = impl.make_publisher(target)
    sinces = ["", "incident", "incident-", "incident-1", "incident-2", "incident-3", "incident-9", "incident-\u00e9", "j", "a", "incident-10",
              "incident-sub", "incident.", "incident-7.flog", "\U0001f600", "incident-5.flog.bz2"]
    for _ in range(ctx.n(10, 200)):
        sinces.append("".join(ctx.rng.choice(["incident", "-", ".", "1", "5", "9", "a", "z", "\u00e9", "flog", "sub"]) for _ in range(ctx.rng.randint(1, 4))))
    sinces = list(dict.fromkeys(sinces))
    listing = os.listdir(target)
    exp = []
    for since in sinces:
        out, res = impl.list_incident_names(pub, since)
        ctx.case(["listing", since], nontrivial=bool(since))
        ctx.hist("listing_reported", len(res))
        for n, full in res:
            if os.path.dirname(full) != target or os.path.basename(full) not in listing or os.path.basename(full) in ("", ".", ".."):
                ctx.fail("oracle/listing-outside-directory", "list_incident_names(since=%r) reports %r for %r, which is not an entry of "
                         "the log directory %r" % (since, full, n, target), replay=dict(since=since, reported=res))
            if not n > since:
                ctx.fail("oracle/listing-ignores-since", "list_incident_names(since=%r) reports %r" % (since, n), replay=dict(since=since, reported=res))
        exp.append([[1 if out == "ok" else 0]] + [x for n, full in res for x in (list(enc(n)), list(enc(full)))])
    es, cs = coq_ents(dir_ents(target))
    pre = "Definition base : str := %s.\nDefinition listing : list str := %s.\nDefinition s0 : st := mk_st %s %s.\n" % (
        cb(target), coq_list([cb(e) for e in listing]), es, cs)
    jobs.append(make_job("C19_listing_0", "correspondence/listing", pre, "str", [cb(x) for x in sinces],
                         "Definition obs (since : str) := [1%N] :: flat_map (fun np => [fst np; snd np]) (list_incidents_at s0 base listing since).\n",
                         exp, lambda i: "list_incident_names(since=%r) over %r" % (sinces[i], listing)))


def dir_ents(target):
    """model entries of every direct entry of `target` (the content of regular files does not matter to the read model)"""
    ents = []
    for e in os.listdir(target):
        p = os.path.join(target, e)
        st = os.lstat(p)
        if stat.S_ISLNK(st.st_mode):
            ents.append((p, ("L", os.readlink(p))))
        elif stat.S_ISDIR(st.st_mode):
            ents.append((p, ("D",)))
        else:
            ents.append((p, ("F", b"")))
    return ents


# ---------------------------------------------------------------------------
# 7. histories: kill / interruption, restart on the leftover directory, links planted between the calls

def kind(v):
    return v[:1]


def run_uhistory(ctx, impl, name, variant, events, collect, sig=None):
    """events: ('upload', blocks, ending, crash_before_op | None) | ('plant', 'tmp' | 'final' | 'other', linktext)"""
    arena, target, sent = impl.fresh("hist")
    comp = posixpath.normpath(name)
    ents = prepopulate(target, comp, variant)
    final = os.path.join(target, comp)
    tmp = final + ".partial"
    planted = os.path.join(target, "planted-here")
    where = dict(tmp=tmp, final=final, other=planted)
    outside0 = impl.outside_snapshot(arena)
    skip = {comp, comp + ".partial", "planted-here"}
    rest0 = {k: v for k, v in impl.snap(target).items() if k not in skip}
    allowed = [view(final)]
    mevents, exp, trail = [], [], []
    out = None
    for ev in events:
        if ev[0] == "plant":
            p = where[ev[1]]
            if os.path.lexists(p):
                os.unlink(p)
            os.symlink(ev[2], p)
            mevents.append("UPlant %s %s" % (cb(p), cb(ev[2])))
            if ev[1] == "final":
                allowed.append([1] + list(enc(ev[2])))
            trail.append(["plant", ev[1], ev[2]])
        else:
            _, bl, ending, crash = ev
            good = bl if ending == "done" else bl[:ending[1]]
            script = list(bl) if ending == "done" else list(good) + [impl.source_error(ending[2])]
            was_link = os.path.islink(tmp)
            fu = impl.make_uploader(target, 0o640)          # a new process: a new service object
            rec = impl.Recorder(arena, crash_at=crash)
            out = impl.putfile(fu, name, script, rec)
            rec.cleanup()
            k_model = 10 ** 4 if out != "crash" else crash + (0 if was_link else 1)
            oc = "Done" if ending == "done" else ("SrcError" if ending[0] == "error" else "BadBlock")
            mevents.append("UUpload %s %s %s %d%%nat" % (cb(final), coq_list([cb(b) for b in good]), oc, k_model))
            if ending == "done":
                allowed.append([2] + list(b"".join(bl)))
            trail.append(["upload", [b.decode("latin1") for b in bl], ending, crash, out])
            ctx.hist("history_event", "%s/%s" % (oc, "killed" if out == "crash" else "ran"))
        what = dict(name=name, variant=variant, events=trail)
        v = view(final)
        outside_changed = impl.outside_snapshot(arena) != outside0
        if v not in allowed:
            ctx.fail(sig or "oracle/history-partial-under-final-name", "after the events %r on initial state %s the final name %r shows %r, "
                     "which is neither its initial entry nor a planted link nor the complete content of one of the uploads"
                     % (trail, variant, comp, bytes(v[1:]) if v[0] == 2 else v), replay=what)
        if outside_changed:
            ctx.fail(sig or "oracle/history-escapes-directory", "after the events %r on initial state %s something outside the target "
                     "directory changed: %s" % (trail, variant, tree_diff(outside0, impl.outside_snapshot(arena))), replay=what)
        rest = {k: v2 for k, v2 in impl.snap(target).items() if k not in skip}
        if rest != rest0:
            ctx.fail(sig or "oracle/history-changes-other-entries", "after the events %r on initial state %s other entries of the target "
                     "directory changed: before %r after %r" % (trail, variant, rest0, rest), replay=what)
        exp += [[1 if outside_changed else 0], v, view(planted), kind(view(tmp))]
    last = events[-1]
    if last[0] == "upload" and last[2] == "done" and last[3] is None:
        if out != "ok" or view(final) != [2] + list(b"".join(last[1])) or os.path.lexists(tmp):
            ctx.fail(sig or "oracle/history-no-recovery", "after the events %r on initial state %s the last, uninterrupted upload ended "
                     "with %s; final name shows %r, temporary present: %s" % (trail, variant, out, view(final), os.path.lexists(tmp)),
                     replay=dict(name=name, variant=variant, events=trail))
    if collect is not None:
        es, cs = coq_ents(ents)
        collect.append(dict(term="(%s, %s, %s, (%s, %s))" % (coq_list(mevents), coq_list([cb(final), cb(planted)]), coq_list([cb(tmp)]), es, cs),
                            exp=exp, desc=dict(name=name, variant=variant, events=trail)))


COMPLETE = b"COMPLETE"
# histories over SEVERAL names, some of which are another upload's temporary: (name, blocks, ending, crash_before_op | None)
NHIST_FIXED = [
    # the reviewer's pair: x.partial is published, then an interrupted upload of x removes it (directory left empty)
    [("x.partial", [COMPLETE], "done", None), ("x", [b"aa"], ("error", 1, "source"), None)],
    # ... a killed upload of x leaves a prefix of x's data under the published name x.partial
    [("x.partial", [COMPLETE], "done", None), ("x", [b"aa", b"bb"], "done", 3)],
    # ... and a COMPLETE upload of x consumes it as well
    [("x.partial", [COMPLETE], "done", None), ("x", [b"aa"], "done", None)],
    [("x.partial.partial", [COMPLETE], "done", None), ("x.partial", [b"q"], ("error", 0, "disconnect"), None), ("x", [b"r"], "done", None)],
    # inside the guard (no final name is another upload's temporary): nothing may be lost
    [("x", [b"aa"], "done", None), ("x.partial", [COMPLETE], "done", None), ("x.partial", [b"zz"], ("error", 1, "source"), None)],
    [("y", [COMPLETE], "done", None), ("x", [b"aa", b"bb"], "done", 3), ("x", [b"aa"], ("badblock", 1, "str"), None), ("y.part", [b"k"], "done", None)],
]


def run_names_history(ctx, impl, events, collect, sig=None):
    """sequential uploads under several names on one directory.  Oracle: a file that was PUBLISHED (its upload ended ok) stays
    as it is until something is uploaded under its own name; an upload that does not end ok leaves its own final name as it was"""
    arena, target, sent = impl.fresh("nhist")
    comps = list(dict.fromkeys(e[0] for e in events))
    tmps = [c + ".partial" for c in comps]
    watch = [c for c in comps if c not in tmps]                          # full view compared with the model
    kinds = list(dict.fromkeys(tmps))                                    # only the kind of entry (content depends on what a dying process flushed)
    outside0 = impl.outside_snapshot(arena)
    published, mevents, exp, trail = {}, [], [], []
    for name, bl, ending, crash in events:
        final = os.path.join(target, name)
        good = bl if ending == "done" else bl[:ending[1]]
        script = list(bl) if ending == "done" else list(good) + [impl.source_error(ending[2])]
        before = view(final)
        rec = impl.Recorder(arena, crash_at=crash)
        out = impl.putfile(impl.make_uploader(target, 0o640), name, script, rec)
        rec.cleanup()
        oc = "Done" if ending == "done" else ("SrcError" if ending[0] == "error" else "BadBlock")
        mevents.append("UUpload %s %s %s %d%%nat" % (cb(final), coq_list([cb(b) for b in good]), oc, 10 ** 4 if out != "crash" else crash + 1))
        trail.append([name, [b.decode("latin1") for b in bl], ending, crash, out])
        ctx.hist("names_history_event", "%s/%s%s" % (oc, "killed" if out == "crash" else "ran", "/collides" if name + ".partial" in published else ""))
        what = dict(events=trail)
        for p_, content in list(published.items()):
            if p_ != name and view(os.path.join(target, p_)) != [2] + list(content):
                v = view(os.path.join(target, p_))
                collides = p_ == name + ".partial"
                ctx.fail(sig or ("oracle/upload-name-is-another-uploads-temporary" if collides else "oracle/history-changes-other-entries"),
                         "after the uploads %r: %r had been uploaded completely (its call answered ok) and showed %r; the upload of %r (-> %s) "
                         "left it as %r%s" % (trail, p_, content, name, out, bytes(v[1:]) if v[0] == 2 else ("absent" if v == [0] else v),
                                              " -- the service used the published file as the temporary of %r" % name if collides else ""),
                         replay=what)
                del published[p_]
        v = view(final)
        if out == "ok":
            published[name] = b"".join(bl)
            if v != [2] + list(b"".join(bl)):
                ctx.fail(sig or "oracle/upload-not-published", "after the uploads %r the last call answered ok but %r shows %r" % (trail, name, v), replay=what)
        elif v != before and not (ending == "done" and v == [2] + list(b"".join(bl))):
            if name in published or before[0] != 2 or name not in tmps:
                ctx.fail(sig or "oracle/history-partial-under-final-name", "after the uploads %r the final name %r shows %r (before the last call: %r)"
                         % (trail, name, v, before), replay=what)
            published.pop(name, None)
        outside_changed = impl.outside_snapshot(arena) != outside0
        if outside_changed:
            ctx.fail(sig or "oracle/history-escapes-directory", "after the uploads %r something outside the target directory changed" % (trail,), replay=what)
        exp += [[1 if outside_changed else 0]] + [view(os.path.join(target, c)) for c in watch] + [kind(view(os.path.join(target, c))) for c in kinds]
    if collect is not None:
        es, cs = coq_ents([(os.path.join(sent, "victim"), ("F", b"SENTINEL"))])
        collect.append(dict(term="(%s, %s, %s, (%s, %s))" % (coq_list(mevents), coq_list([cb(os.path.join(target, c)) for c in watch]),
                                                          coq_list([cb(os.path.join(target, c)) for c in kinds]), es, cs),
                            exp=exp, desc=dict(events=trail)))


def reg_chunks(impl, cache, data):
    key = json.dumps(data, sort_keys=True)
    if key not in cache:
        arena, target, sent = impl.fresh("reg0")
        r = impl.Recorder(arena)
        impl.save_registry(target, data, r)
        r.cleanup()
        cache[key] = list(r.written)
    return cache[key]


def run_rhistory(ctx, impl, old, events, cache, collect, sig=None):
    """events: ('save', data, 'complete' | 'kill' | 'fault', k) | ('plant', 'final' | 'other', linktext)"""
    import errno
    arena, target, reg = reg_setup(impl, old)
    tmp = reg + ".tmp"
    planted = os.path.join(target, "planted-here")
    outside0 = impl.outside_snapshot(arena)
    oldv = view(reg)
    versions, links = [], []
    mevents, exp, trail = [], [], []
    for ev in events:
        if ev[0] == "plant":
            p = reg if ev[1] == "final" else planted
            if os.path.lexists(p):
                os.unlink(p)
            os.symlink(ev[2], p)
            mevents.append("RPlant %s %s" % (cb(p), cb(ev[2])))
            if ev[1] == "final":
                links.append([1] + list(enc(ev[2])))
            trail.append(list(ev))
        else:
            _, data, mode, k = ev
            chunks = reg_chunks(impl, cache, data)
            r = impl.Recorder(arena, crash_at=k) if mode == "kill" else \
                (impl.Recorder(arena, fail_at=k, fail_errno=errno.EIO, persistent=True) if mode == "fault" else impl.Recorder(arena))
            out = impl.save_registry(target, data, r)
            r.cleanup()
            versions.append(data)
            mevents.append("RSave %s %d%%nat %s" % (coq_list([cb(x) for x in chunks]), 10 ** 4 if mode == "complete" else k,
                                                    "true" if mode == "fault" else "false"))
            trail.append(["save", data, mode, k, out])
            ctx.hist("registry_history_event", mode)
        what = dict(old=old, events=trail)
        v = view(reg)
        okv = v == oldv or v in links
        if not okv and v[0] == 2:
            try:
                okv = json.loads(bytes(v[1:]).decode()) in versions
            except ValueError:
                okv = False
        left = sorted(set(os.listdir(target)) - {"services.json", "services.json.tmp", "planted-here"})
        if not okv or left or impl.outside_snapshot(arena) != outside0:
            ctx.fail(sig or "oracle/registry-history-torn", "after the events %r services.json is %r (initially %r), other entries %r: neither "
                     "the initial version nor the complete text of one of the rewrites" % (trail, bytes(v[1:]) if v[0] == 2 else v,
                                                                                           bytes(oldv[1:]) if oldv[0] == 2 else oldv, left), replay=what)
        if v[0] == 2 or v[0] == 0:
            try:
                loaded = impl.load_registry(target)
                if v[0] == 2 and not (loaded in versions or loaded == old):
                    raise ValueError("loads as something else: %r" % (loaded,))
            except Exception as e:
                ctx.fail(sig or "oracle/registry-history-unloadable", "after the events %r load_service_data fails / answers something that was "
                         "never saved: %s" % (trail, e), replay=what)
        exp += [v, view(planted), kind(view(tmp))]
    last = events[-1]
    if last[0] == "save" and last[2] == "complete":
        try:
            recovered = impl.load_registry(target) == last[1]
        except Exception:               # unloadable after an uninterrupted rewrite: not recovered either
            recovered = False
        if not recovered or os.path.lexists(tmp):
            ctx.fail(sig or "oracle/registry-history-no-recovery", "after the events %r the last, uninterrupted rewrite is not what "
                     "load_service_data reads, or services.json.tmp is left behind (%s)" % (trail, os.path.lexists(tmp)), replay=dict(old=old, events=trail))
    if collect is not None:
        ents = [] if old is None else [(reg, ("F", bytes(oldv[1:])))]
        es, cs = coq_ents(ents)
        collect.append(dict(term="(%s, %s, %s, (%s, %s))" % (cb(target), coq_list(mevents), coq_list([cb(reg), cb(planted)]), es, cs),
                            tmp=tmp, exp=exp, desc=dict(old=old, events=trail)))


# fixed histories (their detection power does not depend on the random stream)
UHIST_FIXED = [
    ("ok", "old", [("upload", [b"da", b"ta"], "done", 2), ("plant", "tmp", LINK), ("upload", [b"c"], ("error", 1, "source"), None),
                   ("upload", [b"fin", b"al"], "done", None)]),
    ("ok", "empty", [("upload", [b"da", b"ta"], "done", 3), ("upload", [b"x", b"y", b"z"], "done", 4), ("upload", [b"fin", b"al"], "done", None)]),
    ("ok", "stale", [("upload", [b"da"], ("error", 1, "disconnect"), 2), ("plant", "tmp", DANGLING_OUT), ("plant", "other", LINK),
                     ("upload", [b"q"], ("badblock", 1, "str"), None), ("upload", [b"fin", b"al"], "done", None)]),
    ("a/../b", "old+tmplink", [("upload", [b"da", b"ta"], "done", 0), ("upload", [b"da", b"ta"], "done", 1), ("plant", "final", LINK),
                               ("upload", [b"new"], "done", 3), ("upload", [b"fin", b"al"], "done", None)]),
    ("x.partial", "tmpdangling-out", [("upload", [b"one", b"two"], "done", 4), ("upload", [b"fin", b"al"], "done", None)]),
    ("ok", "finallink", [("upload", [b"da", b"ta"], ("error", 2, "source"), 3), ("plant", "tmp", "ok"), ("upload", [b"fin", b"al"], "done", None)]),
]


def history_check(ctx, impl, jobs):
    rng = ctx.rng
    hist = []
    for name, variant, events in UHIST_FIXED:
        run_uhistory(ctx, impl, name, variant, events, hist)
        ctx.case(["uhistory", name, variant, repr(events)], nontrivial=True)
    names = ["ok", "a/../b", "x.partial", "\u00e9"]
    variants = ["empty", "old", "stale", "tmplink", "old+tmplink", "tmpdangling-out", "tmpdangling-in", "finallink", "finaldangling", "tmpchain", "tmploop"]
    for _ in range(ctx.n(30, 400)):
        events = []
        for _j in range(rng.randint(1, 4)):
            if rng.random() < 0.25:
                events.append(("plant", rng.choice(["tmp", "tmp", "final", "other"]), rng.choice([LINK, DANGLING_OUT, DANGLING_IN, "ok", "../sentinel"])))
                continue
            bl = [bytes(rng.randrange(97, 123) for _ in range(rng.randint(1, 4))) for _ in range(rng.randint(0, 3))]
            j = rng.randint(0, len(bl))
            ending = rng.choice(["done", "done", ("error", j, "source"), ("error", j, "disconnect"), ("badblock", j, rng.choice(impl.BAD_BLOCK_KINDS))])
            crash = rng.choice([None, rng.randint(0, len(bl) + 4), rng.randint(0, len(bl) + 4)])
            events.append(("upload", bl, ending, crash))
        events.append(("upload", [b"fin", b"al"], "done", None))
        name, variant = rng.choice(names), rng.choice(variants)
        run_uhistory(ctx, impl, name, variant, events, hist)
        ctx.case(["uhistory", name, variant, repr(events)], nontrivial=True)
        ctx.hist("history_length", len(events))
    ctx.sample(dict(history=[list(e) if e[0] == "plant" else ["upload", [b.decode() for b in e[1]], e[2], e[3]] for e in UHIST_FIXED[0][2]],
                    name="ok", variant="old"))
    # several names, among them names that are another upload's temporary (C19_upload_history_final_names / _refuted)
    for events in NHIST_FIXED:
        run_names_history(ctx, impl, events, hist)
        ctx.case(["nhistory", repr(events)], nontrivial=True)
    for _ in range(ctx.n(12, 200)):
        events = []
        for _j in range(rng.randint(2, 4)):
            bl = [bytes(rng.randrange(97, 123) for _ in range(rng.randint(1, 4))) for _ in range(rng.randint(0, 3))]
            j = rng.randint(0, len(bl))
            ending = rng.choice(["done", "done", "done", ("error", j, "source"), ("error", j, "disconnect"), ("badblock", j, rng.choice(impl.BAD_BLOCK_KINDS))])
            events.append((rng.choice(["x", "x", "x.partial", "x.partial", "x.partial.partial", "y"]), bl, ending,
                           rng.choice([None, None, rng.randint(0, len(bl) + 4)])))
        run_names_history(ctx, impl, events, hist)
        ctx.case(["nhistory", repr(events)], nontrivial=True)
    ctx.sample(dict(names_history=[[n, [b.decode() for b in bl], e, c] for n, bl, e, c in NHIST_FIXED[0]]))
    jobs.append(make_job("C19_history_0", "correspondence/upload-history", "",
                         "list uevent * list str * list str * (list (str * ent) * list (list N))", [h["term"] for h in hist],
                         """Definition obs (c : list uevent * list str * list str * (list (str * ent) * list (list N))) : list (list N) :=
  let '(es, watch, kinds, (ents, cont)) := c in code_uevent_views (mk_st ents cont) es watch kinds.
""", [h["exp"] for h in hist], lambda i: "upload history %r" % (hist[i]["desc"],)))
    # registry
    cache, rh = {}, []
    A, B, C = REG_OLD, REG_NEW, REG_B
    n_ops = len(reg_chunks(impl, cache, B)) + 3
    fixed = [
        (A, [("save", B, "kill", 2), ("save", C, "complete", 0)]),
        (A, [("save", B, "kill", n_ops - 1), ("plant", "other", LINK), ("save", C, "fault", 1), ("save", B, "complete", 0)]),
        (None, [("save", B, "fault", n_ops - 1), ("save", B, "kill", n_ops - 2), ("save", A, "complete", 0)]),
        (A, [("plant", "final", "elsewhere.json"), ("save", B, "kill", 3), ("save", B, "complete", 0)]),
    ]
    for old, events in fixed:
        run_rhistory(ctx, impl, old, events, cache, rh)
        ctx.case(["rhistory", repr(old), repr(events)], nontrivial=True)
    for _ in range(ctx.n(12, 150)):
        events = []
        for _j in range(rng.randint(1, 3)):
            data = rng.choice([A, B, C])
            n = len(reg_chunks(impl, cache, data)) + 3
            r = rng.random()
            if r < 0.15:
                events.append(("plant", rng.choice(["final", "other"]), rng.choice([LINK, "elsewhere.json"])))
            else:
                events.append(("save", data, rng.choice(["kill", "kill", "fault", "complete"]), rng.choice([0, 1, 2, n - 3, n - 2, n - 1, rng.randrange(n)])))
        events.append(("save", rng.choice([A, B, C]), "complete", 0))
        old = rng.choice([None, A, C])
        run_rhistory(ctx, impl, old, events, cache, rh)
        ctx.case(["rhistory", repr(old), repr(events)], nontrivial=True)
    jobs.append(make_job("C19_reghistory_0", "correspondence/registry-history", "",
                         "str * list revent * list str * (list (str * ent) * list (list N))", [h["term"] for h in rh],
                         """Definition obs (c : str * list revent * list str * (list (str * ent) * list (list N))) : list (list N) :=
  let '(base, es, watch, (ents, cont)) := c in
  code_revent_views base (mk_st ents cont) es watch [registry_final base ++ registry_tmp_ext].
""", [h["exp"] for h in rh], lambda i: "registry history %r" % (rh[i]["desc"],)))


def toctou_note(ctx, impl):
    """outside the property (concurrent LOCAL actor), recorded for the reader: C19_concurrent_symlink_refuted on the real code"""
    try:
        arena, target, sent = impl.fresh("toctou")
        tmp = os.path.join(target, "x.partial")
        fu = impl.make_uploader(target, 0o640)
        rec = impl.Recorder(arena, nest_at=0, nest_fn=lambda: os.symlink("../sentinel/newfile", tmp))
        out = impl.putfile(fu, "x", [b"da", b"ta"], rec)
        rec.cleanup()
        escaped = os.path.lexists(os.path.join(sent, "newfile"))
        ctx.notes.append("observation, outside C19 (concurrent LOCAL actor, C19_concurrent_symlink_refuted): a symlink planted at x.partial "
                         "between the islink() test and open() of remote_putfile is %s (upload -> %s); links planted before a call are removed"
                         % ("followed: a file appeared in the sibling directory" if escaped else "not followed", out))
    except Exception as e:      # a note only
        ctx.notes.append("toctou note could not be produced: %r" % (e,))


# ---------------------------------------------------------------------------
# 8. symbolic links AT the names the gatherer writes / the publisher reads

SYM_GATHER = [("savefile", LINK), ("savefile", DANGLING_OUT), ("savefile", DANGLING_IN), ("latest", "../sentinel/latest-victim"),
              ("latest", LINK), ("latest", DANGLING_IN)]


def gather_symlink_case(ctx, impl, name, where, text, collect=None, sig=None):
    arena, target, sent = impl.fresh("gatl")
    comp = posixpath.normpath(name)
    q, latest = os.path.join(target, comp + ".flog.bz2"), os.path.join(target, "latest")
    p = q if where == "savefile" else latest
    os.symlink(text, p)
    obs = impl.make_observer(target)
    outside0 = impl.outside_snapshot(arena)
    out = impl.got_incident(obs, name)
    outside1 = impl.outside_snapshot(arena)
    through = os.path.islink(p) and out == "ok"          # still a link: the file was opened THROUGH it
    ctx.hist("gatherer_symlink", "%s:%s" % (where, "through" if through else "not-through"))
    if outside1 != outside0:
        ctx.fail(sig or "oracle/gatherer-follows-preexisting-symlink",
                 "IncidentObserver._got_incident with incident name %r, %s already a symbolic link to %r: the gatherer wrote through "
                 "the link, outside its directory: %s" % (name, os.path.relpath(p, arena), text, tree_diff(outside0, outside1)),
                 replay=dict(name=name, link_at=os.path.relpath(p, arena), link_text=text, outcome=out))
    if collect is not None:
        collect.append(dict(term="(%s, %s, %s, %s)" % (cb(target), cb(name), cb(p), cb(text)), exp=[[1 if through else 0], kind(view(p))],
                            desc=dict(name=name, link_at=where, text=text, outcome=out)))


def publish_symlink_case(ctx, impl, name, ext, text, collect=None, sig=None):
    arena, target, sent = impl.fresh("publ")
    impl.write_incident(os.path.join(sent, "victim.flog"), "OUTSIDE-sentinel")
    impl.write_incident(os.path.join(sent, "victim.flog.bz2"), "OUTSIDE-sentinel-bz2", compress=True)
    impl.write_incident(os.path.join(target, "incident-in.flog"), "inside")
    p = os.path.join(target, posixpath.normpath(name) + ext)
    os.symlink(text, p)
    pub = impl.make_publisher(target)
    out, opened = impl.get_incident(pub, name, arena)
    raw = list(impl.get_incident.raw)
    through = any(os.path.islink(r) for r in raw)
    ctx.hist("publisher_symlink", "through" if through else "not-through")
    for r in raw:
        if os.path.islink(r) and not os.path.realpath(r).startswith(os.path.realpath(target) + os.sep):
            ctx.fail(sig or "oracle/publisher-follows-preexisting-symlink",
                     "LogPublisher.remote_get_incident(%r) with %s a symbolic link to %r opened the link and read %r, outside the "
                     "incident directory (answer: %s)" % (name, os.path.relpath(p, arena), text, os.path.relpath(os.path.realpath(r), arena), out),
                     replay=dict(name=name, link_at=os.path.relpath(p, arena), link_text=text, outcome=out))
    if collect is not None:
        ents = [(p, ("L", text)), (os.path.join(sent, "victim.flog"), ("F", b"v")), (os.path.join(sent, "victim.flog.bz2"), ("F", b"w")),
                (os.path.join(target, "incident-in.flog"), ("F", b"i"))]
        es, cs = coq_ents(ents)
        collect.append(dict(term="(%s, %s, (%s, %s))" % (cb(target), cb(name), es, cs), exp=[[1 if through else 0]],
                            desc=dict(name=name, link_at=name + ext, text=text, outcome=out)))


def symlink_check(ctx, impl, jobs):
    g, pb = [], []
    for name in ["x", "a/../b", "incident-1"]:
        for where, text in SYM_GATHER:
            gather_symlink_case(ctx, impl, name, where, text, collect=g)
            ctx.case(["gatherer-symlink", name, where, text], nontrivial=True)
    for name, ext, text in [("incident-l", ".flog", "../sentinel/victim.flog"), ("incident-l", ".flog.bz2", "../sentinel/victim.flog.bz2"),
                            ("incident-l", ".flog", "incident-in.flog"), ("incident-l", ".flog", "../sentinel/nothing.flog"),
                            ("incident-l", ".flog.bz2", "../sentinel/nothing.flog.bz2"), ("incident/../incident-m", ".flog", "../sentinel/victim.flog")]:
        publish_symlink_case(ctx, impl, name, ext, text, collect=pb)
        ctx.case(["publisher-symlink", name, ext, text], nontrivial=True)
    pre = "Definition cwd : str := %s.\n" % cb(os.getcwd())
    jobs.append(make_job("C19_symlinkg_0", "correspondence/gatherer-symlink", pre, "str * str * str * str", [c["term"] for c in g],
                         """Definition obs (c : str * str * str * str) : list (list N) :=
  let '(base, name, p, t) := c in
  let s0 := mk_st [(p, L t)] [] in
  match gatherer_call cwd base name [[1%N]] [1%N] with
  | None => [[9%N]]
  | Some ops => [[b2n (followed (run s0 ops))]; kind_of (look (run s0 ops) p)]
  end.
""", [c["exp"] for c in g], lambda i: "gatherer with a pre-existing link %r" % (g[i]["desc"],)))
    jobs.append(make_job("C19_symlinkp_0", "correspondence/publisher-symlink", pre, "str * str * (list (str * ent) * list (list N))",
                         [c["term"] for c in pb],
                         """Definition obs (c : str * str * (list (str * ent) * list (list N))) : list (list N) :=
  let '(base, name, (ents, cont)) := c in [[b2n (publisher_reads_through_link (mk_st ents cont) cwd base name)]].
""", [c["exp"] for c in pb], lambda i: "publisher with a pre-existing link %r" % (pb[i]["desc"],)))


# ---------------------------------------------------------------------------
# 8b. symbolic links AT the names that are READ without a remote-supplied name: the entries list_incident_names reports
#     (remote_list_incidents, IncidentSubscription.catch_up) and the gatherer's state file `latest` (IncidentObserver.connect)

SYM_LISTING = [("incident-evil.flog", "../sentinel/secret.flog"), ("incident-evil.flog.bz2", "../sentinel/secret.flog.bz2"),
               ("incident-0.flog", "../sentinel/secret.flog"), ("incident-in.flog", "incident-1.flog"),
               ("incident-dangling.flog", "../sentinel/nothing.flog"), ("incident-dir", "../sentinel"),
               ("incident-abs.flog", None),            # absolute link text (filled in with the sentinel's path)
               ("x-not-selected.flog", "../sentinel/secret.flog"), ("incident-skipped.flog.tmp", "../sentinel/secret.flog")]


def outside(path, target):
    """the file the kernel reaches for `path` is not inside the directory `target`"""
    return not os.path.realpath(path).startswith(os.path.realpath(target) + os.sep)


def listing_symlink_case(ctx, impl, entry, text, sinces, collect=None, sig=None):
    arena, target, sent = impl.fresh("lstl")
    impl.write_incident(os.path.join(sent, "secret.flog"), "OUTSIDE-secret")
    impl.write_incident(os.path.join(sent, "secret.flog.bz2"), "OUTSIDE-secret-bz2", compress=True)
    impl.write_incident(os.path.join(target, "incident-1.flog"), "inside-1")
    impl.write_incident(os.path.join(target, "incident-2.flog.bz2"), "inside-2", compress=True)
    if text is None:
        text = os.path.join(sent, "secret.flog")
    os.symlink(text, os.path.join(target, entry))
    pub = impl.make_publisher(target)
    listing = os.listdir(target)
    ents = dir_ents(target)
    for since in sinces:
        _, names = impl.list_incident_names(pub, since)
        for how, (out, res, raw) in (("remote_list_incidents", impl.list_incidents(pub, since)), ("catch_up", impl.catch_up(pub, since))):
            through = [r for r in raw if os.path.islink(r)]
            esc = [r for r in through if outside(r, target)]
            ctx.hist("listing_symlink", "%s:%s" % (how, "through" if through else "not-through"))
            if esc or "OUTSIDE" in repr(res):
                ctx.fail(sig or "oracle/publisher-listing-follows-symlink",
                         "LogPublisher %s(since=%r) with the log directory entry %r a symbolic link to %r opened %r and answered %r: "
                         "a file outside the log directory was read (and its trigger sent to the peer)"
                         % (how, since, entry, text, [os.path.relpath(r, arena) for r in esc], res),
                         replay=dict(entry=entry, link_text=text, since=since, call=how, outcome=out, answer=repr(res)))
            if collect is not None and how == "remote_list_incidents":
                es, cs = coq_ents(ents)
                collect.append(dict(term="(%s, %s, %s, (%s, %s))" % (cb(target), coq_list([cb(e) for e in listing]), cb(since), es, cs),
                                    exp=[[1 if through else 0]] + [x for n, full in names for x in (list(enc(n)), list(enc(full)))],
                                    desc=dict(entry=entry, text=text, since=since, outcome=out, reported=[n for n, _ in names])))


STATE_FILES = [("L", "../sentinel/secret"), ("L", "../sentinel/nothing"), ("L", "incident-x.flog.bz2"), ("L", None), ("L", "../sentinel"),
               ("F", b"incident-2008-07-29-204211-aspkxoi\n"), ("F", b""), ("D",), None]


def state_symlink_case(ctx, impl, what, collect=None, sig=None):
    """what: ('L', text) | ('F', content) | ('D',) | None = no state file"""
    arena, target, sent = impl.fresh("gats")
    with open(os.path.join(sent, "secret"), "wb") as f:
        f.write(b"incident-SECRET-OUTSIDE\n")
    with open(os.path.join(target, "incident-x.flog.bz2"), "wb") as f:
        f.write(b"incident-inside\n")
    latest = os.path.join(target, "latest")
    if what is not None and what[0] == "L":
        what = ("L", what[1] if what[1] is not None else os.path.join(sent, "secret"))
        os.symlink(what[1], latest)
    elif what is not None and what[0] == "F":
        with open(latest, "wb") as f:
            f.write(what[1])
    elif what is not None:
        os.mkdir(latest)
    ents = dir_ents(target)
    outside0 = impl.outside_snapshot(arena)
    out, since, raw = impl.connect(target)
    through = [r for r in raw if os.path.islink(r)]
    esc = [r for r in through if outside(r, target)]
    ctx.hist("state_read", "%s:%s" % ("none" if what is None else what[0], "through" if through else "not-through"))
    if esc or b"SECRET" in (since or b"") or impl.outside_snapshot(arena) != outside0:
        ctx.fail(sig or "oracle/gatherer-state-read-follows-symlink",
                 "IncidentObserver.connect() with latest %r opened %r and sent since=%r to the publisher: the state file was read "
                 "through a symbolic link, outside the gatherer's directory" % (what, [os.path.relpath(r, arena) for r in esc], since),
                 replay=dict(latest=repr(what), outcome=out, since=repr(since)))
    if what is not None and what[0] == "F" and (out != "ok" or since != what[1].strip()):
        ctx.fail("oracle/gatherer-state-not-read", "IncidentObserver.connect() with a regular state file %r -> %s, since=%r"
                 % (what[1], out, since), replay=dict(latest=repr(what), outcome=out, since=repr(since)), has_input=False)
    if collect is not None:
        es, cs = coq_ents(ents)
        collect.append(dict(term="(%s, (%s, %s))" % (cb(target), es, cs), exp=[[1 if through else 0]],
                            desc=dict(latest=repr(what), outcome=out, since=repr(since))))


def read_symlink_check(ctx, impl, jobs):
    ls, gs = [], []
    for entry, text in SYM_LISTING:
        listing_symlink_case(ctx, impl, entry, text, ["", "incident-1", "incident-e"], collect=ls)
        ctx.case(["listing-symlink", entry, text], nontrivial=True)
    for what in STATE_FILES:
        state_symlink_case(ctx, impl, what, collect=gs)
        ctx.case(["state-symlink", repr(what)], nontrivial=what is not None)
    jobs.append(make_job("C19_symlinkl_0", "correspondence/listing-symlink", "", "str * list str * str * (list (str * ent) * list (list N))",
                         [c["term"] for c in ls],
                         """Definition obs (c : str * list str * str * (list (str * ent) * list (list N))) : list (list N) :=
  let '(base, listing, since, (ents, cont)) := c in
  let s0 := mk_st ents cont in
  [b2n (followed (rrun s0 (listing_read_ops s0 base listing since)))] ::
  flat_map (fun np => [fst np; snd np]) (list_incidents_at s0 base listing since).
""", [c["exp"] for c in ls], lambda i: "listing with a symlinked entry %r" % (ls[i]["desc"],)))
    jobs.append(make_job("C19_symlinks_0", "correspondence/gatherer-state-symlink", "", "str * (list (str * ent) * list (list N))",
                         [c["term"] for c in gs],
                         """Definition obs (c : str * (list (str * ent) * list (list N))) : list (list N) :=
  let '(base, (ents, cont)) := c in [[b2n (followed (rrun (mk_st ents cont) (connect_read_ops base)))]].
""", [c["exp"] for c in gs], lambda i: "connect with the state file %r" % (gs[i]["desc"],)))


# ---------------------------------------------------------------------------
# 8c. symbolic links AT names DERIVED from the names an operation uses (final name / `latest` / state file plus plausible
#     temporary suffixes and prefixes): a service that starts to go through a temporary of its own must not open it through a
#     link that is already there.  Code that never touches such a name is unaffected (the link is still there, nothing else moved).
#     Direct oracle only (the containment rule of sections 5-8 on the real code).

DERIVED_SUFFIXES = [".tmp", ".partial", ".new", "~", ".bak", ".part"]
INSIDE_FILE = "zz-inside-file"


def derived_names(base):
    """names in the same directory derived from the direct child `base` (the final name itself is section 8's)"""
    return [base + s for s in DERIVED_SUFFIXES] + ["." + base, "tmp" + base, "." + base + ".tmp", "tmp" + base + ".tmp"]


def derived_texts():
    return [("outside-file", LINK), ("outside-dangling", DANGLING_OUT), ("inside-file", INSIDE_FILE)]


def contained(ctx, sig, what, arena, target, outside0, inside0, planted, replay, must_be_file=()):
    """the containment rule: nothing outside the configured directory changed; every entry of the directory that was created or
    replaced is a regular file (not the planted link moved under another name); the inside file a planted link names is untouched;
    the stored files are regular files inside"""
    from harness import c19_impl as impl
    outside1, inside1 = impl.outside_snapshot(arena), impl.snap(target)
    bad = []
    if outside1 != outside0:
        bad.append("changed outside the directory: %s" % tree_diff(outside0, outside1))
    for k in sorted(inside1):
        if (k not in inside0 or inside1[k] != inside0[k]) and inside1[k][0] == "l":
            bad.append("%r is now a symbolic link to %r" % (k, inside1[k][1]))
    if inside0.get(INSIDE_FILE) != inside1.get(INSIDE_FILE):
        bad.append("the unrelated file %r that the planted link names was replaced" % INSIDE_FILE)
    for q in must_be_file:
        if os.path.islink(q) or not os.path.isfile(q) or outside(q, target):
            bad.append("%r is not a regular file inside the directory (%s)" % (os.path.relpath(q, arena), kind(view(q))))
    ctx.hist("derived_symlink", "%s:%s" % (sig.split("/")[-1], "bad" if bad else "contained"))
    if bad:
        ctx.fail(sig, "%s with %s already a symbolic link to %r: %s" % (what, os.path.relpath(planted[0], arena), planted[1], "; ".join(bad)),
                 replay=replay)
    return not bad


def inside_file(target):
    with open(os.path.join(target, INSIDE_FILE), "wb") as f:
        f.write(b"INSIDE-UNRELATED")


def gather_derived_case(ctx, impl, name, where, dname, text, sig=None):
    """where: 'savefile' | 'latest': the name `dname` is derived from"""
    arena, target, sent = impl.fresh("gatd")
    inside_file(target)
    comp = posixpath.normpath(name)
    q, latest = os.path.join(target, comp + ".flog.bz2"), os.path.join(target, "latest")
    p = os.path.join(target, dname)
    os.symlink(text, p)
    obs = impl.make_observer(target)
    outside0, inside0 = impl.outside_snapshot(arena), impl.snap(target)
    out = impl.got_incident(obs, name)
    contained(ctx, sig or "oracle/gatherer-follows-preexisting-symlink-at-derived-name",
              "IncidentObserver._got_incident with incident name %r (-> %s)" % (name, out), arena, target, outside0, inside0, (p, text),
              dict(name=name, derived_from=where, link_at=os.path.relpath(p, arena), link_text=text, outcome=out),
              must_be_file=[q, latest] if out == "ok" else [])


def state_derived_case(ctx, impl, dname, text, sig=None):
    """IncidentObserver.connect() reads `latest`; a link under a derived name must not be read"""
    arena, target, sent = impl.fresh("gatsd")
    inside_file(target)
    with open(os.path.join(sent, "victim"), "wb") as f:
        f.write(b"incident-SECRET-OUTSIDE\n")
    latest = os.path.join(target, "latest")
    with open(latest, "wb") as f:
        f.write(b"incident-2008-07-29-204211-aspkxoi\n")
    p = os.path.join(target, dname)
    os.symlink(text, p)
    outside0, inside0 = impl.outside_snapshot(arena), impl.snap(target)
    out, since, raw = impl.connect(target)
    esc = [r for r in raw if os.path.islink(r) and outside(r, target)]
    sig = sig or "oracle/gatherer-state-read-follows-symlink-at-derived-name"
    rep = dict(link_at=os.path.relpath(p, arena), link_text=text, outcome=out, since=repr(since))
    if esc or b"SECRET" in (since or b""):
        ctx.fail(sig, "IncidentObserver.connect() with %s a symbolic link to %r opened %r and sent since=%r"
                 % (os.path.relpath(p, arena), text, [os.path.relpath(r, arena) for r in esc], since), replay=rep)
    contained(ctx, sig, "IncidentObserver.connect() (-> %s)" % out, arena, target, outside0, inside0, (p, text), rep, must_be_file=[latest])


def publish_derived_case(ctx, impl, name, ext, dname, text, sig=None):
    """a real incident is stored under name+ext; a link sits under a name derived from it"""
    arena, target, sent = impl.fresh("pubd")
    impl.write_incident(os.path.join(sent, "victim"), "OUTSIDE-sentinel", compress=ext.endswith(".bz2"))
    impl.write_incident(os.path.join(target, INSIDE_FILE), "inside-unrelated", compress=ext.endswith(".bz2"))
    impl.write_incident(os.path.join(target, name + ext), "inside", compress=ext.endswith(".bz2"))
    p = os.path.join(target, dname)
    os.symlink(text, p)
    pub = impl.make_publisher(target)
    outside0, inside0 = impl.outside_snapshot(arena), impl.snap(target)
    out, opened = impl.get_incident(pub, name, arena)
    raw = list(impl.get_incident.raw)
    sig = sig or "oracle/publisher-follows-preexisting-symlink-at-derived-name"
    rep = dict(name=name, link_at=os.path.relpath(p, arena), link_text=text, outcome=out)
    esc = [r for r in raw if os.path.islink(r) and outside(r, target)]
    if esc or "OUTSIDE" in out:
        ctx.fail(sig, "LogPublisher.remote_get_incident(%r) with %s a symbolic link to %r opened %r (answer: %s)"
                 % (name, os.path.relpath(p, arena), text, [os.path.relpath(os.path.realpath(r), arena) for r in esc], out), replay=rep)
    contained(ctx, sig, "LogPublisher.remote_get_incident(%r) (-> %s)" % (name, out), arena, target, outside0, inside0, (p, text), rep)


def upload_derived_case(ctx, impl, name, dname, text, sig=None):
    arena, target, sent = impl.fresh("upd")
    inside_file(target)
    comp = posixpath.normpath(name)
    p = os.path.join(target, dname)
    os.symlink(text, p)
    fu = impl.make_uploader(target, 0o640)
    outside0, inside0 = impl.outside_snapshot(arena), impl.snap(target)
    out = impl.putfile(fu, name, [b"block-1", b"block-2"])
    final = os.path.join(target, comp)
    sig = sig or "oracle/upload-follows-preexisting-symlink-at-derived-name"
    rep = dict(name=name, link_at=os.path.relpath(p, arena), link_text=text, outcome=out)
    if contained(ctx, sig, "FileUploader.remote_putfile(%r) (-> %s)" % (name, out), arena, target, outside0, inside0, (p, text), rep,
                 must_be_file=[final] if out == "ok" else []) and out == "ok":
        if open(final, "rb").read() != b"block-1block-2":
            ctx.fail(sig, "FileUploader.remote_putfile(%r) with %s a symbolic link to %r: the final name does not hold the upload"
                     % (name, os.path.relpath(p, arena), text), replay=rep)


# fixed witnesses (detection must not depend on the random stream): the temporary names a change is most likely to introduce
DERIVED_FIXED = [("gatherer", "incident-2008-07-29-204211-aspkxoi", "savefile", ".tmp", LINK),
                 ("gatherer", "incident-2008-07-29-204211-aspkxoi", "savefile", ".tmp", DANGLING_OUT),
                 ("gatherer", "incident-2008-07-29-204211-aspkxoi", "latest", ".tmp", LINK),
                 ("gatherer", "incident-2008-07-29-204211-aspkxoi", "latest", ".tmp", DANGLING_OUT)]


def derived_symlink_check(ctx, impl):
    for _, name, where, sfx, text in DERIVED_FIXED:
        base = (posixpath.normpath(name) + ".flog.bz2") if where == "savefile" else "latest"
        gather_derived_case(ctx, impl, name, where, base + sfx, text)
        ctx.case(["gatherer-derived-symlink", name, where, base + sfx, text], nontrivial=True)
    gnames = ["incident-1"] if ctx.tier == "quick" else ["incident-1", "a/../b", "x"]
    for name in gnames:
        comp = posixpath.normpath(name)
        for where, base in (("savefile", comp + ".flog.bz2"), ("savefile", comp + ".flog"), ("savefile", comp), ("latest", "latest")):
            for dname in derived_names(base):
                for tk, text in derived_texts():
                    gather_derived_case(ctx, impl, name, where, dname, text)
                    ctx.case(["gatherer-derived-symlink", name, where, dname, text], nontrivial=True)
    for dname in derived_names("latest"):
        for tk, text in derived_texts():
            state_derived_case(ctx, impl, dname, text)
            ctx.case(["state-derived-symlink", dname, text], nontrivial=True)
    for name, ext in [("incident-l", ".flog"), ("incident-l", ".flog.bz2")]:
        for base in (name + ext, name):
            for dname in derived_names(base):
                for tk, text in derived_texts():
                    publish_derived_case(ctx, impl, name, ext, dname, text)
                    ctx.case(["publisher-derived-symlink", name, ext, dname, text], nontrivial=True)
    for name in (["x"] if ctx.tier == "quick" else ["x", "a/../b", "report.txt"]):
        comp = posixpath.normpath(name)
        for base in (comp, comp + ".partial"):
            for dname in derived_names(base):
                if dname == comp + ".partial":
                    continue                   # the uploader's own temporary: section 2 (variants tmplink ...)
                for tk, text in derived_texts():
                    upload_derived_case(ctx, impl, name, dname, text)
                    ctx.case(["upload-derived-symlink", name, dname, text], nontrivial=True)


# ---------------------------------------------------------------------------
# 9. two OVERLAPPING uploads of the same name (remote_putfile is asynchronous: ordinary use by two clients)

class HeldSrc:
    """remote `source` whose read() answers only when the test says so"""

    def __init__(self):
        self.pending = []

    def callRemote(self, name, *a):
        from twisted.internet import defer
        d = defer.Deferred()
        self.pending.append(d)
        return d

    def give(self, data):
        self.pending.pop(0).callback(data)


def overlap_case(ctx, impl, name, a_blocks, b_blocks, variant, sig=None, collect=None):
    """A starts and delivers a_blocks; B starts, delivers b_blocks and finishes; then A finishes"""
    from twisted.python import failure
    arena, target, sent = impl.fresh("ovl")
    comp = posixpath.normpath(name)
    ents = prepopulate(target, comp, variant)
    final, tmp = os.path.join(target, comp), os.path.join(target, comp + ".partial")
    fu = impl.make_uploader(target, 0o640)
    outside0 = impl.outside_snapshot(arena)
    allowed = [view(final), [2] + list(b"".join(a_blocks)), [2] + list(b"".join(b_blocks))]
    kinds = []
    A, B, ra, rb, seen = HeldSrc(), HeldSrc(), [], [], []
    try:
        fu.remote_putfile(name, A).addBoth(ra.append)
        for blk in a_blocks:
            A.give(blk)
        seen.append(("A has sent its blocks", view(final)))
        kinds.append(kind(view(tmp)))
        fu.remote_putfile(name, B).addBoth(rb.append)
        for blk in b_blocks:
            B.give(blk)
        B.give(b"")
        seen.append(("B finished", view(final)))
        kinds.append(kind(view(tmp)))
        A.give(b"")
        seen.append(("A finished", view(final)))
        kinds.append(kind(view(tmp)))
    except BaseException as e:
        seen.append(("raised %s" % type(e).__name__, view(final)))
    res = ["fail:" + r.type.__name__ if isinstance(r, failure.Failure) else "ok" for r in (ra[:1] + rb[:1])]
    bad = [(w, bytes(v[1:]) if v[0] == 2 else v) for w, v in seen if v not in allowed]
    left = os.path.lexists(tmp)
    ctx.hist("overlap_outcome", "/".join(res))
    if collect is not None and len(seen) == 3 and len(kinds) == 3:
        es, cs = coq_ents(ents)
        collect.append(dict(term="(%s, %s, %s, (%s, %s))" % (cb(final), coq_list([cb(x) for x in a_blocks]), coq_list([cb(x) for x in b_blocks]), es, cs),
                            exp=[x for (w_, v), kd in zip(seen, kinds) for x in (v, kd)] + [[1 if r.startswith("fail") else 0 for r in res]],
                            desc=dict(name=name, a=[x.hex() for x in a_blocks], b=[x.hex() for x in b_blocks], variant=variant, results=res)))
    if bad or left or impl.outside_snapshot(arena) != outside0:
        ctx.fail(sig or "oracle/overlapping-uploads-same-name-tear-file",
                 "two overlapping uploads of %r (A sends %r, then B sends %r and finishes, then A finishes; initial state %s; results %r): "
                 "the final name showed %r -- neither the old entry nor the complete content of either upload; temporary left: %s"
                 % (name, a_blocks, b_blocks, variant, res, bad, left),
                 replay=dict(name=name, a_blocks=[b.decode("latin1") for b in a_blocks], b_blocks=[b.decode("latin1") for b in b_blocks],
                             variant=variant, results=res))


def overlap_check(ctx, impl, jobs):
    cases = []
    for name, a, b, variant in [("x", [b"AAAA"], [b"BBBBBBBB"], "empty"), ("x", [b"AAAA"], [b"BBBBBBBB"], "old"),
                                ("x", [b"AAAAAAAA"], [b"BB"], "empty"), ("a/../x", [b"A1", b"A2"], [b"B1"], "old"),
                                ("x", [b"AA", b"A"], [b"BBBBB", b"BB"], "stale"), ("x", [], [b"BBBB"], "old"), ("x", [b"AAAA"], [], "old")]:
        overlap_case(ctx, impl, name, a, b, variant, collect=cases)
        ctx.case(["overlap", name, [x.hex() for x in a], [x.hex() for x in b], variant], nontrivial=True)
    jobs.append(make_job("C19_overlap_0", "correspondence/overlapping-uploads", "",
                         "str * list (list N) * list (list N) * (list (str * ent) * list (list N))", [c["term"] for c in cases],
                         """Definition obs (c : str * list (list N) * list (list N) * (list (str * ent) * list (list N))) : list (list N) :=
  let '(final, a, b, (ents, cont)) := c in tear_views (mk_st ents cont) final a b.
""", [c["exp"] for c in cases], lambda i: "overlapping uploads %r" % (cases[i]["desc"],)))


# ---------------------------------------------------------------------------
# 10. a system call of an UPLOAD fails with an errno (persistently for its kind)

def upload_fault_check(ctx, impl, jobs):
    import errno
    cases, left_at = [], {}
    for variant in ["empty", "old", "stale"]:
        for blocks, ending in [([b"da", b"ta"], "done"), ([b"da", b"ta"], ("error", 1, "source")), ([], "done"), ([b"x"], ("error", 0, "disconnect"))]:
            name = "ok"
            good = blocks if ending == "done" else blocks[:ending[1]]
            script = lambda: list(blocks) if ending == "done" else list(good) + [impl.source_error(ending[2])]
            arena, target, sent = impl.fresh("upf")
            ents = prepopulate(target, name, variant)
            final, tmp = os.path.join(target, name), os.path.join(target, name + ".partial")
            v0, k0 = view(final), kind(view(tmp))
            rec = impl.Recorder(arena)
            impl.putfile(impl.make_uploader(target, 0o640), name, script(), rec)
            rec.cleanup()
            n = len(rec.ops)
            complete = [2] + list(b"".join(blocks))
            exp = [v0, k0]                       # model operation 0 (the conditional unlink of a link) has no counterpart here
            for k in range(n):
                arena, target, sent = impl.fresh("upf")
                prepopulate(target, name, variant)
                outside0 = impl.outside_snapshot(arena)
                rest0 = {a: b for a, b in impl.snap(target).items() if a not in (name, name + ".partial")}
                r = impl.Recorder(arena, fail_at=k, fail_errno=errno.ENOSPC, persistent=True)
                out = impl.putfile(impl.make_uploader(target, 0o640), name, script(), r)
                r.cleanup()
                v = view(final)
                rest = {a: b for a, b in impl.snap(target).items() if a not in (name, name + ".partial")}
                ctx.case(["upload-fault", variant, [b.hex() for b in blocks], ending, k], nontrivial=True)
                ctx.hist("upload_fault_op", rec.ops[k][0])
                if not (v == v0 or (ending == "done" and v == complete)) or rest != rest0 or impl.outside_snapshot(arena) != outside0:
                    ctx.fail("oracle/upload-fault-tears-final-name", "operation %d (%s) of the upload of %r fails with ENOSPC (initial state %s, "
                             "ending %s, call -> %s): the final name shows %r (before %r), other entries %s, operations %r"
                             % (k, rec.ops[k][0], name, variant, ending, out, bytes(v[1:]) if v[0] == 2 else v, v0,
                                "changed" if rest != rest0 else "unchanged", r.ops),
                             replay=dict(name=name, variant=variant, blocks=[b.decode("latin1") for b in blocks], ending=ending, failing_op=k, ops=r.ops))
                if os.path.lexists(tmp) and rec.ops[k][0] in ("close", "unlink"):
                    left_at[rec.ops[k][0]] = left_at.get(rec.ops[k][0], 0) + 1
                exp += [v, kind(view(tmp))]
            es, cs = coq_ents(ents)
            cases.append(dict(term="(%s, %s, %s, (%s, %s))" % (cb(final), coq_list([cb(b) for b in good]), "Done" if ending == "done" else "SrcError", es, cs),
                              exp=exp, desc=dict(variant=variant, blocks=[b.hex() for b in blocks], ending=ending)))
    ctx.notes.append("observation, outside C19's quantifier (C19_upload_fault_leftover_refuted): when f.close() or the unlink in remote_putfile's "
                     "_done/_err fails (ENOSPC) <name>.partial is left behind: %r cases of the sweep; the final name stayed old-or-complete in all "
                     "of them (C19_upload_fault_atomic)" % (left_at,))
    jobs.append(make_job("C19_uploadfault_0", "correspondence/upload-fault", "",
                         "str * list (list N) * outcome * (list (str * ent) * list (list N))", [c["term"] for c in cases],
                         """Definition obs (c : str * list (list N) * outcome * (list (str * ent) * list (list N))) : list (list N) :=
  let '(final, blocks, oc, (ents, cont)) := c in upload_fault_views (mk_st ents cont) final blocks oc.
""", [c["exp"] for c in cases], lambda i: "upload with a failing operation %r" % (cases[i]["desc"],)))
