"""C19 -- file-accepting services stay inside their directory and publish atomically."""
import glob, json, os, posixpath, stat

from harness import common
from harness.common import coq_list, coq_bytes

REQ = ["Verif.lib.UploadShape", "Verif.gen.UploadGen", "Verif.lib.Paths", "Verif.lib.Upload"]


def tail(s, n=2500):
    return s[-n:]


def run(ctx):
    ctx.rule = ("names = every string over {a . /} up to length 4 + hostile families (dot segments, absolute, "
                "separators, NUL, over-long, unicode, names of existing symlinks, '.partial' names) + seeded random "
                "strings; uploads = accepted name x block list x {complete, source error / disconnect after j blocks} "
                "x initial directory state (empty, old file, stale .partial, symlinks) x crash before every os-level "
                "operation; registry rewrites x crash point.  Non-trivial = hostile name, or interruption / crash "
                "point inside the operation list, or a non-empty initial state")
    ctx.assumptions = ["posixpath / Twisted FilePath are modelled (Paths.v) and compared with the real functions on every "
                       "generated name", "rename(2) is atomic; no power-loss model (the code never fsyncs)",
                       "a crash is modelled as 'no further os-level operation is performed' (exception injected "
                       "from wrapped open/write/close/rename/chmod/unlink)",
                       "hard links / symlinks planted concurrently by another local process are not modelled "
                       "(pre-existing symlinks are)"]
    ok, log = ctx.coq_build(["props/C19.vo"])
    from harness import c19_impl as impl
    before = len(ctx.failures)
    with impl.quiet_logs():
        corpus(ctx, impl)
        names = gen_names(ctx)
        model_ok = ok
        if not ok:
            model_ok, _ = ctx.coq_build(["lib/Upload.vo"])
        import time
        for fn, args in ((paths_check, (names,)), (upload_check, (names,)), (registry_check, ()), (gatherer_check, (names,)),
                         (publisher_check, (names,))):
            t0 = time.time()
            fn(ctx, impl, *args, model_ok)
            ctx.extra["t_" + fn.__name__] = round(time.time() - t0, 1)
    impl.wipe()
    if not ok and len(ctx.failures) == before:
        ctx.fail("proof-broken", "theorem closure props/C19.vo no longer builds against the regenerated gen/UploadGen.v: "
                 + tail(log), replay=dict(log=tail(log, 6000)), has_input=False)
    elif not ok:
        ctx.note("proof broken AND a failing input was found (reported above)")


# ---------------------------------------------------------------------------
# generators

HOSTILE = ["", ".", "..", "...", "....", "a/b", "/etc/passwd", "../sentinel/victim", "../target", "../target/x",
           "../targetx", "a/..", "a/../..", "a/../b", "a/../../sentinel/victim", "./a", "a/", "a//", "//a", "///a",
           "a/./b", "./", "/", "//", "/.", "/..", "x\x00y", "\x00", "x\x00", "\x00/..", "a" * 255, "a" * 256, "a" * 300,
           "a" * 247, "a" * 248, "\u00e9", "\u00e9/\u00e9", " ", "..a", "a..", ".a", ".partial", "x.partial",
           "x.partial.partial", "lnk", "dlnk", "dlnk/x", "dlnk/..", "lnk/", "~", "~root", "$HOME", "a\\b", "..\\x",
           "C:x", "a\nb", "-rf", "*", "latest", "incident", "incident/..", "incident/../", "incident/../.",
           "incident/../incident-1", "incident-1", "incident-1/", "incidentx/../../sentinel/victim", "incident/../..",
           "incident\x00", "incident" + "a" * 250, "services.json", "services.json.tmp"]


def gen_names(ctx):
    names = list(HOSTILE)
    alpha = ["a", ".", "/"]
    level = [""]
    for _ in range(4):
        level = [x + c for x in level for c in alpha]
        names += level
    rnd_alpha = ["a", "b", ".", ".", "/", "/", "..", "\x00", " ", "\u00e9", "incident", ".partial"]
    for _ in range(ctx.n(120, 3000)):
        k = ctx.rng.randint(1, 7)
        names.append("".join(ctx.rng.choice(rnd_alpha) for _ in range(k)))
    seen = set()
    out = []
    for n in names:
        if n not in seen:
            seen.add(n)
            out.append(n)
    return out


def enc(s):
    return s.encode("utf-8")


def cb(s):
    return coq_bytes(enc(s) if isinstance(s, str) else s)


def dec(lst):
    return bytes(lst).decode("utf-8", "surrogateescape")


def plain(name):
    """a name that is itself one good path component"""
    return name not in ("", ".", "..") and "/" not in name


def os_refuses(name):
    """the operating system cannot create this entry (NUL byte, component longer than NAME_MAX)"""
    comp = posixpath.normpath(name)
    return "\x00" in name or len(enc(comp)) + len(".flog.bz2") > 255


# ---------------------------------------------------------------------------
# corpus (regression witnesses of repaired defects run first)

def corpus(ctx, impl):
    for p in sorted(glob.glob(os.path.join(common.VERIF, "corpus", "C19", "*.json"))):
        w = json.load(open(p))
        ctx.hist("corpus", w["kind"])
        if w["kind"] == "upload":
            one_upload(ctx, impl, w["name"], [b.encode() for b in w["blocks"]], "done", w.get("variant", "empty"),
                       sig=w["signature"], src=os.path.basename(p))
        elif w["kind"] == "gatherer":
            one_gather(ctx, impl, w["name"], sig=w["signature"])
        elif w["kind"] == "publisher":
            one_publish(ctx, impl, w["name"], sig=w["signature"])


# ---------------------------------------------------------------------------
# 1. path functions: model vs posixpath / FilePath.child on every name

def paths_check(ctx, impl, names, model_ok):
    from twisted.python.filepath import FilePath, InsecurePath
    arena, target, sent = impl.fresh("paths")
    base = FilePath(target)
    real = []
    for n in names:
        try:
            c = base.child(n)
            r = (c.path, c.parent() == base)
        except InsecurePath:
            r = None
        real.append(r)
        ctx.case(["child", n], nontrivial=not plain(n))
        ctx.hist("child_outcome", "refused" if r is None else ("dir-itself" if not r[1] else "child"))
        # direct oracle on FilePath.child + parent guard: an accepted result is a direct child entry of base
        if r is not None and r[1]:
            comp = r[0][len(target) + 1:]
            if not (r[0].startswith(target + "/") and plain(comp)):
                ctx.fail("oracle/child-not-direct", "FilePath(%r).child(%r) = %r passes the parent() test but is not a "
                         "direct child" % (target, n, r[0]), replay=dict(name=n, result=r[0]))
    if not model_ok:
        return
    extra = [target + "/" + n for n in names[:150]] + names[:150]
    body = "Definition base : str := %s.\nDefinition cwd : str := %s.\n" % (cb(target), cb(os.getcwd()))
    body += "Definition names : list str := %s.\n" % coq_list([cb(n) for n in names])
    body += "Eval vm_compute in map (fun n => (code_opt (child cwd base n), code_opt (guarded GuardParentEq cwd base n))) names.\n"
    body += "Definition strs : list str := %s.\n" % coq_list([cb(n) for n in extra])
    body += "Eval vm_compute in map (fun s => (normpath s, dirname s, basename s, join base s, abspath cwd s)) strs.\n"
    try:
        v1, v2 = ctx.coq_eval("C19_paths", body, requires=REQ)
    except common.CoqEvalError as e:
        ctx.fail("correspondence-broken", "Paths model could not be evaluated: " + str(e)[-1500:], has_input=False)
        return
    bad = 0
    for n, r, (mc, mg) in zip(names, real, v1):
        ec = [0] if r is None else [1] + list(enc(r[0]))
        eg = [0] if (r is None or not r[1]) else [1] + list(enc(r[0]))
        ctx.traces += 1
        if mc != ec or mg != eg:
            bad += 1
            ctx.fail("correspondence/child", "model child/guarded disagrees with FilePath.child on %r: model %r / %r, real %r"
                     % (n, bytes(mc[1:]), bytes(mg[1:]), r), replay=dict(name=n), has_input=False)
    for s, m in zip(extra, v2):
        exp = (posixpath.normpath(s), posixpath.dirname(s), posixpath.basename(s), posixpath.join(target, s),
               posixpath.abspath(s))
        got = tuple(dec(x) for x in m)
        ctx.traces += 1
        ctx.case(["pathfn", s], nontrivial="/" in s or "." in s)
        if got != exp:
            bad += 1
            ctx.fail("correspondence/posixpath", "model (normpath, dirname, basename, join, abspath) of %r = %r, posixpath says %r"
                     % (s, got, exp), replay=dict(s=s), has_input=False)
    ctx.extra["paths_cases"] = len(names) + len(extra)
    ctx.extra["paths_disagreements"] = bad


# ---------------------------------------------------------------------------
# 2. uploads

VARIANTS = ["empty", "old", "stale", "tmplink", "finallink", "old+tmplink"]
OLD, STALE = b"OLD-CONTENT", b"STALE"
LINK = "../sentinel/victim"


def prepopulate(target, comp, variant):
    """-> model entries [(relpath, ('F', content) | ('L', linktarget))]"""
    ents = []
    final, tmp = os.path.join(target, comp), os.path.join(target, comp + ".partial")
    if "old" in variant:
        open(final, "wb").write(OLD)
        ents.append((final, ("F", OLD)))
    if variant == "finallink":
        os.symlink(LINK, final)
        ents.append((final, ("L", LINK)))
    if variant == "stale":
        open(tmp, "wb").write(STALE)
        ents.append((tmp, ("F", STALE)))
    if "tmplink" in variant:
        os.symlink(LINK, tmp)
        ents.append((tmp, ("L", LINK)))
    return ents


def view(p):
    try:
        st = os.lstat(p)
    except (OSError, ValueError):
        return [0]
    if stat.S_ISLNK(st.st_mode):
        return [1] + list(enc(os.readlink(p)))
    if stat.S_ISDIR(st.st_mode):
        return [9]
    return [2] + list(open(p, "rb").read())


KIND = {"open": 1, "write": 2, "close": 3, "rename": 4, "chmod": 5, "unlink": 6}


def canon_ops(ops, arena):
    out = []
    for o in ops:
        k = KIND.get(o[0])
        if k is None:
            out.append((o[0],))
            continue
        p1 = os.path.join(arena, o[1])
        p2 = os.path.join(arena, o[2]) if o[0] == "rename" else ""
        n = o[2] if o[0] == "write" else 0
        out.append((k, p1, p2, n))
    return out


def one_upload(ctx, impl, name, blocks, ending, variant, sig=None, src=None, collect=None):
    """run one upload on the real FileUploader and apply the direct oracle.  ending: 'done' | ('error', j, kind)."""
    arena, target, sent = impl.fresh("up")
    comp = posixpath.normpath(name)
    ents = prepopulate(target, comp, variant) if (plain(comp) and not os_refuses(name)) else []
    fu = impl.make_uploader(target, 0o640)
    outside0 = impl.outside_snapshot(arena)
    inside0 = impl.snap(target)
    script = list(blocks)
    if ending != "done":
        script = script[:ending[1]] + [impl.source_error(ending[2])]
    rec = impl.Recorder(arena)
    out = impl.putfile(fu, name, script, rec)
    rec.cleanup()
    outside1 = impl.outside_snapshot(arena)
    inside1 = impl.snap(target)
    what = dict(name=name, blocks=[b.decode("latin1") for b in blocks], ending=ending, variant=variant, outcome=out,
                ops=rec.ops)
    ctx.hist("upload_outcome", out.split(":")[0] if out.startswith("raise") or out.startswith("fail") else out)
    if outside1 != outside0:
        ctx.fail(sig if sig and "symlink" in sig else "oracle/upload-escapes-directory",
                 "upload of name %r (initial state %s) changed something outside the target directory: before %r after %r; "
                 "operations %r" % (name, variant, outside0, outside1, rec.ops), replay=what)
    final = os.path.join(target, comp)
    complete = b"".join(blocks)
    if out == "ok":
        want = dict(inside0)
        want.pop(comp + ".partial", None)
        want[comp] = ("f", complete.hex(), 0o640)
        if not plain(comp) or inside1 != want:
            ctx.fail(sig or "oracle/upload-not-published", "completed upload of %r: target directory is %r, expected %r"
                     % (name, inside1, want), replay=what)
    else:
        want = dict(inside0)
        if plain(comp):
            want.pop(comp + ".partial", None)     # a stale temporary of the same name may be consumed; never left
        if inside1 != want:
            s = "oracle/upload-leftover" if any(k.endswith(".partial") for k in inside1) and inside1.get(comp) == inside0.get(comp) \
                else "oracle/upload-partial-under-final-name"
            ctx.fail(sig or s, "upload of %r ended with %s but the target directory changed: before %r after %r; operations %r"
                     % (name, out, inside0, inside1, rec.ops), replay=what)
    if collect is not None:
        collect.append(dict(name=name, blocks=blocks, ending=ending, variant=variant, out=out, ents=ents, arena=arena,
                            target=target, ops=canon_ops(rec.ops, arena), final_view=view(final),
                            tmp_view=view(final + ".partial"), comp=comp))
    return out


def crash_sweep(ctx, impl, c):
    """real code: the process dies before the k-th os-level operation, for every k.  -> list of views of the final name"""
    views = []
    nops = len(c["ops"])
    complete = [2] + list(b"".join(c["blocks"]))
    for k in range(nops + 1):
        arena, target, sent = impl.fresh("up")
        prepopulate(target, c["comp"], c["variant"])
        fu = impl.make_uploader(target, 0o640)
        outside0 = impl.outside_snapshot(arena)
        final = os.path.join(target, c["comp"])
        old = view(final)
        rec = impl.Recorder(arena, crash_at=k)
        impl.putfile(fu, c["name"], list(c["blocks"]), rec)
        v = view(final)
        outside1 = impl.outside_snapshot(arena)
        rec.cleanup()
        views.append(v)
        ctx.case(["crash", c["name"], c["variant"], len(c["blocks"]), k], nontrivial=0 < k < nops)
        ctx.hist("crash_point", k)
        what = dict(name=c["name"], variant=c["variant"], blocks=[b.decode("latin1") for b in c["blocks"]], crash_before_op=k,
                    ops=rec.ops)
        if v != old and v != complete:
            ctx.fail("oracle/partial-visible-under-final-name", "crash before operation %d of the upload of %r (initial state %s): "
                     "the final name shows %r, neither the old entry %r nor the complete file" % (k, c["name"], c["variant"], bytes(v[1:]), bytes(old[1:])),
                     replay=what)
        if outside1 != outside0:
            ctx.fail("oracle/upload-escapes-directory", "crash before operation %d of the upload of %r (initial state %s) left a "
                     "change outside the target directory" % (k, c["name"], c["variant"]), replay=what)
    return views


def coq_ents(ents):
    """[(path, ('F', content) | ('L', target))] -> (entries term, contents term)"""
    es, cs = [], []
    for p, e in ents:
        if e[0] == "F":
            es.append("(%s, F %d)" % (cb(p), len(cs)))
            cs.append(cb(e[1]))
        else:
            es.append("(%s, L %s)" % (cb(p), cb(e[1])))
    return coq_list(es), coq_list(cs)


def upload_check(ctx, impl, names, model_ok):
    cases = []
    # (a) every name once, on an empty directory, two blocks
    for n in names:
        one_upload(ctx, impl, n, [b"da", b"ta"], "done", "empty", collect=cases)
        ctx.case(["upload", n, "done"], nontrivial=not plain(n))
    # (b) accepted names: block lists x endings x initial states
    good = ["ok", "a/../b", "x.partial", "lnk", "\u00e9", "./c", "d/", "..a", "incident/../e", " "]
    blocklists = [[], [b"x"], [b"da", b"ta"], [b"one", b"two", b"three!"]]
    for _ in range(ctx.n(2, 40)):
        blocklists.append([bytes(ctx.rng.randrange(256) for _ in range(ctx.rng.randint(1, 9)))
                           for _ in range(ctx.rng.randint(1, 5))])
    sweep = []
    for n in good[:ctx.n(6, 10)]:
        for variant in VARIANTS:
            for bl in blocklists:
                endings = ["done"] + [("error", j, kind) for j in range(len(bl) + 1) for kind in ("source", "disconnect")]
                for e in endings:
                    if e != "done" and ctx.tier == "quick" and ctx.rng.random() < 0.5:
                        continue
                    one_upload(ctx, impl, n, bl, e, variant, collect=cases)
                    ctx.case(["upload", n, variant, [b.hex() for b in bl], e], nontrivial=True)
                    ctx.hist("ending", e if e == "done" else "%s-after-%d" % (e[2], e[1]))
                    ctx.hist("variant", variant)
                    if e == "done":
                        sweep.append(cases[-1])
    ctx.sample(dict(name="a/../b", blocks=["da", "ta"], variant="old+tmplink", ending=["error", 1, "disconnect"]))
    # (c) crash before every operation
    if ctx.tier == "quick":
        sweep = [c for c in sweep if len(c["blocks"]) <= 3][:ctx.n(60, 0)]
    for c in sweep:
        c["crash_views"] = crash_sweep(ctx, impl, c)
    if model_ok:
        upload_correspond(ctx, cases)


def upload_correspond(ctx, cases):
    cwd = os.getcwd()
    nbad = 0
    for shard in range(0, len(cases), 400):
        part = cases[shard:shard + 400]
        lines = []
        for c in part:
            es, cs = coq_ents(c["ents"])
            blocks = c["blocks"] if c["ending"] == "done" else c["blocks"][:c["ending"][1]]
            lines.append("(%s, %s, %s, %s, (%s, %s))" % (cb(c["target"]), cb(c["name"]), coq_list([cb(b) for b in blocks]),
                                                       "Done" if c["ending"] == "done" else "SrcError", es, cs))
        body = "Definition cwd : str := %s.\n" % cb(cwd)
        body += "Definition cases : list (str * str * list (list N) * outcome * (list (str * ent) * list (list N))) := %s.\n" % coq_list(lines)
        body += """Definition obs (c : str * str * list (list N) * outcome * (list (str * ent) * list (list N))) :=
  let '(base, name, blocks, oc, (ents, cont)) := c in
  let s0 := mk_st ents cont in
  match guarded putfile_guard cwd base name with
  | None => (false, [], ([], [], []), (false, false))
  | Some final =>
    let ops := upload_ops final blocks oc in
    let s := run s0 ops in
    (true, map code_op (effective s0 ops),
     (code_view (look s final), code_view (look s (final ++ putfile_tmp_ext)), crash_views s0 ops final),
     (failed s, followed s))
  end.
Eval vm_compute in map obs cases.
"""
        try:
            (vals,) = ctx.coq_eval("C19_upload_%d" % (shard // 400), body, requires=REQ)
        except common.CoqEvalError as e:
            ctx.fail("correspondence-broken", "Upload model could not be evaluated: " + str(e)[-1500:], has_input=False)
            return
        for c, (acc, mops, (mfin, mtmp, mcrash), (mfailed, mfollowed)) in zip(part, vals):
            ctx.traces += 1
            key = dict(name=c["name"], variant=c["variant"], ending=c["ending"], blocks=[b.hex() for b in c["blocks"]])
            real_refused = c["out"] in ("raise:InsecurePath", "raise:BadFilenameError")
            if not acc or real_refused:
                if acc != (not real_refused) or (real_refused and c["ops"]):
                    nbad += 1
                    ctx.fail("correspondence/upload-acceptance", "model %s the name but the implementation answered %s (ops %r): %r"
                             % ("accepts" if acc else "refuses", c["out"], c["ops"], key), replay=key, has_input=False)
                continue
            if os_refuses(c["name"]):
                continue    # open() itself fails (NUL / ENAMETOOLONG): outside the model; the direct oracle covered it
            mo = [(k, dec(p1), dec(p2) if p2 else "", n) for (k, p1, p2, n) in mops]
            if mo != c["ops"] or mfin != c["final_view"] or mtmp != c["tmp_view"] or mfailed or mfollowed:
                nbad += 1
                ctx.fail("correspondence/upload-trace", "model and implementation disagree on %r:\n model ops %r final %r tmp %r failed=%s followed=%s\n"
                         " real  ops %r final %r tmp %r" % (key, mo, mfin, mtmp, mfailed, mfollowed, c["ops"], c["final_view"], c["tmp_view"]),
                         replay=key, has_input=False)
            if "crash_views" in c and mcrash != c["crash_views"]:
                nbad += 1
                ctx.fail("correspondence/upload-crash-views", "views of the final name after a crash before each operation differ on %r: model %r, real %r"
                         % (key, mcrash, c["crash_views"]), replay=key, has_input=False)
    ctx.extra["upload_cases"] = len(cases)
    ctx.extra["upload_disagreements"] = nbad


# ---------------------------------------------------------------------------
# 3. registry

def registry_check(ctx, impl, model_ok):
    datas = [{"version": 1, "services": {}},
             {"version": 1, "services": {"swiss1": {"relative_basedir": "services/1", "type": "upload-file",
                                                    "args": ["/tmp/x"], "comment": None}}}]
    for _ in range(ctx.n(2, 20)):
        datas.append({"version": 1, "services": {"s%d" % ctx.rng.randrange(10 ** 6): {"relative_basedir": "services/%d" % i,
                                                                                      "type": "run-command", "args": ["d", "ls"],
                                                                                      "comment": "c" * ctx.rng.randint(0, 30)}
                                                 for i in range(ctx.rng.randint(1, 3))}})
    cases = []
    for old in [None] + datas[:2]:
        for new in datas:
            if old is new:
                continue
            # learn the operation list (and what json.dump writes) from an uninterrupted run
            arena, target, sent = impl.fresh("reg")
            if old is not None:
                impl.save_registry(target, old)
            rec = impl.Recorder(arena)
            out = impl.save_registry(target, new, rec)
            rec.cleanup()
            reg = os.path.join(target, "services.json")
            if out != "ok" or impl.load_registry(target) != new or sorted(os.listdir(target)) != ["services.json"]:
                ctx.fail("oracle/registry-not-saved", "save_service_data(%r) -> %s, directory %r" % (new, out, os.listdir(target)),
                         replay=dict(old=old, new=new))
            nops = len(rec.ops)
            views = []
            for k in range(nops + 1):
                arena, target, sent = impl.fresh("reg")
                if old is not None:
                    impl.save_registry(target, old)
                oldv = view(reg)
                outside0 = impl.outside_snapshot(arena)
                r2 = impl.Recorder(arena, crash_at=k)
                impl.save_registry(target, new, r2)
                v = view(reg)
                r2.cleanup()
                views.append(v)
                ctx.case(["registry", old, new, k], nontrivial=0 < k < nops)
                ctx.hist("registry_crash_point", min(k, 3) if k < nops - 2 else "last-%d" % (nops - k))
                okv = (v == oldv)
                if not okv and v[0] == 2:
                    try:
                        okv = json.loads(bytes(v[1:]).decode()) == new
                    except ValueError:
                        okv = False
                left = sorted(set(os.listdir(target)) - {"services.json", "services.json.tmp"})
                if not okv or left or impl.outside_snapshot(arena) != outside0:
                    ctx.fail("oracle/registry-torn", "crash before operation %d of save_service_data: services.json is %r (old %r), "
                             "other entries %r" % (k, bytes(v[1:]), bytes(oldv[1:]), left),
                             replay=dict(old=old, new=new, crash_before_op=k, ops=r2.ops))
            cases.append(dict(target=target, old=None if old is None else bytes(view_after_save(impl, old)),
                              chunks=list(rec.written), ops=canon_ops(rec.ops, arena), views=views))
    if not model_ok:
        return
    lines = []
    for c in cases:
        ents = [] if c["old"] is None else [(os.path.join(c["target"], "services.json"), ("F", c["old"]))]
        es, cs = coq_ents(ents)
        lines.append("(%s, %s, (%s, %s))" % (cb(c["target"]), coq_list([cb(x) for x in c["chunks"]]), es, cs))
    body = "Definition cases : list (str * list (list N) * (list (str * ent) * list (list N))) := %s.\n" % coq_list(lines)
    body += """Definition obs (c : str * list (list N) * (list (str * ent) * list (list N))) :=
  let '(base, chunks, (ents, cont)) := c in
  let s0 := mk_st ents cont in
  let ops := registry_ops base chunks in
  (map code_op (effective s0 ops), crash_views s0 ops (registry_final base), failed (run s0 ops)).
Eval vm_compute in map obs cases.
"""
    try:
        (vals,) = ctx.coq_eval("C19_registry", body, requires=REQ)
    except common.CoqEvalError as e:
        ctx.fail("correspondence-broken", "registry model could not be evaluated: " + str(e)[-1500:], has_input=False)
        return
    nbad = 0
    for c, (mops, mviews, mfailed) in zip(cases, vals):
        ctx.traces += 1
        mo = [(k, dec(p1), dec(p2) if p2 else "", n) for (k, p1, p2, n) in mops]
        if mo != c["ops"] or mviews != c["views"] or mfailed:
            nbad += 1
            ctx.fail("correspondence/registry", "model and implementation disagree on a registry rewrite:\n model ops %r\n real ops %r\n"
                     " model views %r\n real views %r" % (mo, c["ops"], mviews, c["views"]), has_input=False)
    ctx.extra["registry_cases"] = len(cases)
    ctx.extra["registry_disagreements"] = nbad


def view_after_save(impl, data):
    arena, target, sent = impl.fresh("reg0")
    impl.save_registry(target, data)
    return open(os.path.join(target, "services.json"), "rb").read()


# ---------------------------------------------------------------------------
# 4. gatherer

def one_gather(ctx, impl, name, sig=None, collect=None):
    arena, target, sent = impl.fresh("gat")
    os.symlink(LINK, os.path.join(target, "lnk"))
    os.symlink("../sentinel", os.path.join(target, "dlnk"))
    obs = impl.make_observer(target)
    outside0 = impl.outside_snapshot(arena)
    inside0 = impl.snap(target)
    out = impl.got_incident(obs, name)
    outside1 = impl.outside_snapshot(arena)
    inside1 = impl.snap(target)
    created = sorted(k for k in inside1 if k not in inside0 or inside1[k] != inside0[k])
    ctx.hist("gatherer_outcome", out)
    what = dict(name=name, outcome=out, created=created)
    if outside1 != outside0:
        new = sorted(set(outside1) - set(outside0))
        ctx.fail(sig or "oracle/gatherer-escapes-directory", "IncidentObserver._got_incident with incident name %r changed something "
                 "outside its directory (new entries next to it: %r)" % (name, new), replay=what)
    for k in created:
        if "/" in k or inside1[k][0] != "f":
            ctx.fail("oracle/gatherer-not-direct-child", "incident name %r created %r" % (name, k), replay=what)
    if collect is not None:
        collect.append(dict(name=name, out=out, created=[os.path.join(target, k) for k in created if k != "latest"], target=target))
    return out


def gatherer_check(ctx, impl, names, model_ok):
    cases = []
    for n in names:
        one_gather(ctx, impl, n, collect=cases)
        ctx.case(["gatherer", n], nontrivial=not plain(n))
    if not model_ok:
        return
    body = "Definition cwd : str := %s.\nDefinition base : str := %s.\n" % (cb(os.getcwd()), cb(cases[0]["target"]))
    body += "Eval vm_compute in map (fun n => code_opt (gatherer_path cwd base n)) %s.\n" % coq_list([cb(c["name"]) for c in cases])
    try:
        (vals,) = ctx.coq_eval("C19_gatherer", body, requires=REQ)
    except common.CoqEvalError as e:
        ctx.fail("correspondence-broken", "gatherer model could not be evaluated: " + str(e)[-1500:], has_input=False)
        return
    nbad = 0
    for c, m in zip(cases, vals):
        ctx.traces += 1
        if m == [0]:
            good = c["out"].startswith("raise:") and not c["created"]
        elif os_refuses(c["name"]):
            good = c["out"].startswith("raise:") and not c["created"]
        else:
            good = c["out"] == "ok" and c["created"] == [dec(m[1:])]
        if not good:
            nbad += 1
            ctx.fail("correspondence/gatherer", "incident name %r: model says %r, implementation %s and created %r"
                     % (c["name"], None if m == [0] else dec(m[1:]), c["out"], c["created"]), replay=dict(name=c["name"]), has_input=False)
    ctx.extra["gatherer_cases"] = len(cases)
    ctx.extra["gatherer_disagreements"] = nbad


# ---------------------------------------------------------------------------
# 5. publisher

def one_publish(ctx, impl, name, sig=None, collect=None):
    arena, target, sent = impl.fresh("pub")
    impl.write_incident(os.path.join(arena, "target.flog"), "OUTSIDE-sibling")
    impl.write_incident(os.path.join(arena, "target.flog.bz2"), "OUTSIDE-sibling-bz2", compress=True)
    impl.write_incident(os.path.join(sent, "victim.flog"), "OUTSIDE-sentinel")
    impl.write_incident(os.path.join(target, "incident-1.flog"), "inside-1")
    impl.write_incident(os.path.join(target, "incident-2.flog.bz2"), "inside-2", compress=True)
    pub = impl.make_publisher(target)
    out, opened = impl.get_incident(pub, name, arena)
    ctx.hist("publisher_outcome", out.split(":")[0] + (":" + out.split(":")[1] if out.startswith("raise") else ""))
    what = dict(name=name, outcome=out, opened=opened)
    for p in opened:
        parts = p.split("/")
        if not (len(parts) == 2 and parts[0] == "target" and parts[1] not in ("", ".", "..")):
            ctx.fail(sig or "oracle/publisher-reads-outside-directory", "LogPublisher.remote_get_incident(%r) opened %r, which is not "
                     "directly inside the incident directory (answer: %s)" % (name, p, out), replay=what)
    if "OUTSIDE" in out:
        ctx.fail(sig or "oracle/publisher-reads-outside-directory", "LogPublisher.remote_get_incident(%r) returned the content of a file "
                 "outside the incident directory: %s" % (name, out), replay=what)
    if collect is not None:
        collect.append(dict(name=name, out=out, opened=[os.path.join(arena, p) for p in opened], target=target))
    return out


def publisher_check(ctx, impl, names, model_ok):
    cases = []
    for n in names:
        one_publish(ctx, impl, n, collect=cases)
        ctx.case(["publisher", n], nontrivial=n.startswith("incident") and not plain(n))
    if not model_ok:
        return
    body = "Definition cwd : str := %s.\nDefinition base : str := %s.\n" % (cb(os.getcwd()), cb(cases[0]["target"]))
    body += ("Eval vm_compute in map (fun n => match publisher_paths cwd base n with None => [] | Some l => l end) %s.\n"
             % coq_list([cb(c["name"]) for c in cases]))
    try:
        (vals,) = ctx.coq_eval("C19_publisher", body, requires=REQ)
    except common.CoqEvalError as e:
        ctx.fail("correspondence-broken", "publisher model could not be evaluated: " + str(e)[-1500:], has_input=False)
        return
    nbad = 0
    for c, m in zip(cases, vals):
        ctx.traces += 1
        allowed = [dec(x) for x in m]
        if any(p not in allowed for p in c["opened"]) or (not allowed and not c["out"].startswith("raise:")):
            nbad += 1
            ctx.fail("correspondence/publisher", "incident name %r: model allows reading %r, implementation opened %r (%s)"
                     % (c["name"], allowed, c["opened"], c["out"]), replay=dict(name=c["name"]), has_input=False)
    ctx.extra["publisher_cases"] = len(cases)
    ctx.extra["publisher_disagreements"] = nbad
