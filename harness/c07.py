"""C07 -- inbound bytes decode deterministically, chunk-independently, and never crash."""
import json, os
from harness import common
from harness.common import coq_list

# token type bytes (checked against the translated constants by the correspondence itself)
INT, STRING, NEG, FLOAT, LONGINT, LONGNEG, VOCAB, OPEN, CLOSE, ABORT, ERROR, PING, PONG, LIST = \
    0x81, 0x82, 0x83, 0x84, 0x85, 0x86, 0x87, 0x88, 0x89, 0x8A, 0x8D, 0x8E, 0x8F, 0x80


def b128(n):
    if n == 0:
        return b"\x00"
    out = bytearray()
    while n:
        out.append(n & 0x7f)
        n >>= 7
    return bytes(out)


def tok(ty, n=None, body=b""):
    return (b128(n) if n is not None else b"") + bytes([ty]) + body


def S(b):
    return tok(STRING, len(b), b)


def long_bytes(n):
    out = bytearray()
    while n:
        out.append(n & 0xff)
        n >>= 8
    return bytes(reversed(out))


def enc_int(n):
    if n >= 2 ** 31:
        s = long_bytes(n)
        return tok(LONGINT, len(s), s)
    if n >= 0:
        return tok(INT, n)
    if -n > 2 ** 31:
        s = long_bytes(-n)
        return tok(LONGNEG, len(s), s)
    return tok(NEG, -n)


KINDS = ["L", "L", "L", "I", "S4", "S0", "N2", "N0", "C0", "C1", "C2", "X", "T", "F", "P", "B", "Q", "2", "Z", "", "L9x"]
ROOTMODES = ["any", "any", "any", "ints", "nofloat", "size3", "size0"]
MODECODE = {"any": 0, "ints": 1, "nofloat": 2}


def modecode(m):
    return MODECODE[m] if m in MODECODE else 3 + int(m[4:])


class Gen:
    def __init__(self, rng):
        self.r = rng
        self.openid = 0

    def prim(self):
        r = self.r
        k = r.random()
        if k < 0.35:
            return enc_int(r.choice([0, 1, 5, 127, 128, 2 ** 31 - 1, 2 ** 31, 2 ** 40, -1, -2 ** 31, -2 ** 31 - 1, -2 ** 70,
                                     r.randrange(-300, 300)]))
        if k < 0.55:
            return S(bytes(r.randrange(256) for _ in range(r.choice([0, 1, 2, 3, 4, 5, 9, 30]))))
        if k < 0.65:
            return bytes([FLOAT]) + bytes(r.randrange(256) for _ in range(8))
        if k < 0.75:
            return tok(VOCAB, r.choice([0, 1, 2, 7, 2, 3]))
        if k < 0.82:
            return tok(PING, r.choice([0, 1, 300, 2 ** 60])) if r.random() < 0.7 else tok(PONG, r.choice([0, 9]))
        return enc_int(r.randrange(100))

    def obj(self, depth):
        r = self.r
        if depth <= 0 or r.random() < 0.45:
            return self.prim()
        oid = self.openid
        self.openid += 1
        kind = r.choice(KINDS)
        out = tok(OPEN, oid)
        if kind == "2":
            k2 = r.random()
            # the second index token of a two-token opentype: valid, or refused by the opener (the index phase then ends
            # with a violation and the NEXT object must start from an empty opentype)
            out += S(b"2") + (S(b"x") if k2 < 0.6 else tok(VOCAB, 2) if k2 < 0.75 else
                              r.choice([enc_int(5), S(b"toolong"), bytes([FLOAT]) + bytes(8), tok(NEG, 3), tok(LONGINT, 2, b"ab")]))
        elif r.random() < 0.15 and kind in ("L", "I", "P"):
            out += tok(VOCAB, {"L": 0, "I": 1, "P": 7}[kind])
        else:
            out += S(kind.encode())
        for i in range(r.choice([0, 1, 2, 3, 4])):
            out += self.obj(depth - 1)
        if r.random() < 0.06:
            out += tok(ABORT, oid)
        out += tok(CLOSE, oid if r.random() < 0.95 else oid + 1)
        return out

    def stream(self):
        r = self.r
        self.openid = r.choice([0, 0, 3])
        out = b""
        for i in range(r.choice([1, 2, 3, 4, 6])):
            out += self.obj(r.choice([0, 1, 2, 3]))
        return out

    def mutate(self, s):
        r = self.r
        k = r.random()
        if not s:
            return s
        i = r.randrange(len(s))
        if k < 0.2:
            return s[:i]                                     # truncation
        if k < 0.4:
            return s[:i] + bytes([r.randrange(256)]) + s[i + 1:]   # byte flip
        if k < 0.5:
            return s[:i] + bytes(r.randrange(128) for _ in range(r.choice([3, 64, 65, 66, 300]))) + s[i:]  # long header
        if k < 0.6:
            return s[:i] + tok(ERROR, r.choice([0, 2, 5, 1000, 1001]), b"hi" * r.choice([0, 1, 3])) + s[i:]
        if k < 0.7:
            return s[:i] + bytes([r.choice([LIST, 0x8B, 0x8C, 0x90, 0xFF])]) + s[i:]
        if k < 0.8:
            return s[:i] + tok(OPEN, 77) + tok(OPEN, 78) + s[i:]    # OPEN followed by OPEN
        if k < 0.9:
            return s[:i] + tok(r.choice([STRING, LONGINT, LONGNEG]), r.choice([6, 50, 2 ** 20, 2 ** 440])) + s[i:]  # huge claimed body
        return s[:i] + bytes(r.randrange(256) for _ in range(r.choice([1, 2, 5]))) + s[i:]


def chunkings(rng, n, bytewise_limit=400):
    out = [[n]]
    if 0 < n <= bytewise_limit:
        out.append([1] * n)
    for _ in range(2):
        cs, left = [], n
        while left > 0:
            k = min(left, rng.choice([1, 2, 3, 5, 8, 13, 40, 64, 65, 66, 200]))
            cs.append(k)
            left -= k
        out.append(cs or [0])
    return out


def ev_code(e):
    k = e[0]
    if k == "deliver":
        return [10] + val_code(e[1])
    return {"violation": lambda: [11], "start": lambda: [12, ord(e[1]), e[2]], "finish": lambda: [13, ord(e[1])],
            "doOpen-violation": lambda: [14, ord(e[1])], "child-violation": lambda: [15, ord(e[1]), e[2]],
            "close-violation": lambda: [16], "absorb": lambda: [17, ord(e[1])], "pong": lambda: [18, e[1]],
            "error-sent": lambda: [19], "lose": lambda: [20],
            "receive-error": lambda: [21, {"BananaError": 0, "KeyError": 1}.get(e[1], 2)]}[k]()


def val_code(c):
    t = c[0]
    if t == "i":
        return [1, c[1]]
    if t == "f":
        return [2, len(c[1])] + list(c[1])
    if t == "s":
        return [3, len(c[1])] + list(c[1])
    if t == "L":
        out = [4, ord(c[1]), len(c[2])]
        for x in c[2]:
            out += val_code(x)
        return out
    raise ValueError(c)


def run(ctx):
    from harness import c07_impl as I, c07_hist
    ctx.rule = ("byte streams = policy-unslicer token streams (nested OPEN/CLOSE with 21 opentype policies, all primitive "
                "token kinds, PING/PONG/ABORT) with and without mutations (truncation, byte flips, over-long headers, ERROR "
                "tokens, invalid type bytes, OPEN OPEN, huge claimed bodies, garbage), each fed as one chunk, bytewise and "
                "two random chunkings under 7 root modes; also standard-unslicer streams on the real RootUnslicer; fixed keepalive witnesses "
                "(several PINGs per packet, PINGs in every receiver state, PING before / after each kind of protocol violation) under every "
                "two-way cut; fixed connection-age witnesses (receivers connected before / after a RemoteCopy class or an unslicer is "
                "registered, three root unslicers, same bytes); fixed error-report witnesses (protocol violation of four kinds while the "
                "location text holds a peer-chosen dict key of 2-, 3-, 4-byte and mixed-width characters, sized below / between / above the "
                "character and byte limits, one and two levels deep, under two-way cuts and 64-byte packets) and sendError on text / bytes "
                "messages of every character width at every edge of the limit, each ERROR token re-read by a peer receiver; "
                "non-trivial = distinct (stream, chunking) in which at least one token was completed")
    ctx.assumptions = ["two unslicer semantics are compared with the model callback by callback: the policy unslicers of harness/c07_impl.py and the "
                       "standard unslicers (root, list, tuple, dict, set, immutable-set, unicode, boolean, none) under real constraint objects; "
                       "decimal / reference / copyable / vocab unslicers, non-ASCII text and float / bool / frozenset set members are covered by "
                       "the generic theorems and the direct oracles only: there the instance model ABSTAINS -- a third outcome marked by the event "
                       "UUnmodelled, never an abandonment (props/C07.v C07_abstention_is_not_abandonment; the standard-unslicer theorems are "
                       "stated three ways and claim nothing about an abstaining run); what the real code does before an unmodelled unslicer "
                       "exists (opentype check, registry lookup, setConstraint's AssertionError) is modelled and compared on fixed witnesses",
                       "the generic vocabulary-unchanged theorems hold for unslicer semantics whose callbacks cannot reach the protocol object; "
                       "the real set-vocab / add-vocab unslicers can (replaceIncomingVocabulary) and are outside every instance model",
                       "the text of ERROR messages is not compared beyond its location part (its length rule in BYTES and the order of the writes are translated and "
                       "proved; the direct oracle measures the token on the wire for non-ASCII text and has a peer receiver re-read it)",
                       "the Coq models take the unslicer semantics (what the registries of opentypes and RemoteCopy names allow) as ONE parameter shared by "
                       "all receivers; that the real root unslicers consult the process-wide registries when the tokens arrive instead of freezing "
                       "derived limits per connection is checked by the direct oracle c07_hist.connection_age only (known exception on the "
                       "unchanged tree: RootUnslicer.maxIndexLength, reported as a candidate finding in the notes)",
                       "'no exception escapes dataReceived' is a theorem over the translated except clause for every unslicer semantics whose "
                       "callbacks raise Python exceptions (not: errors inside the handler's own sendError / transport.write)"]
    ok, log = ctx.coq_build(["props/C07.vo", "lib/PolUnslProofs.vo"])
    before = len(ctx.failures)
    model_ok = ok or ctx.coq_build(["lib/BananaRecv.vo"])[0]
    generic_ok = ok or ctx.coq_build(["lib/PolUnsl.vo", "lib/StdUnsl.vo"])[0]

    g = Gen(ctx.rng)
    cases = []
    # corpus first
    cdir = os.path.join(common.VERIF, "corpus", "C07")
    corpus = []
    if os.path.isdir(cdir):
        for fn in sorted(os.listdir(cdir)):
            if fn.endswith(".json"):
                corpus.append(json.load(open(os.path.join(cdir, fn))))
    for c in corpus:
        if not c.get("real"):
            cases.append((bytes(c["stream"]), c.get("rootmode", "any"), "corpus:" + c["name"]))
    n = ctx.n(200, 6000)
    for i in range(n):
        s = g.stream()
        kind = "wellformed"
        if ctx.rng.random() < 0.55:
            s = g.mutate(s)
            kind = "mutated"
            if ctx.rng.random() < 0.3:
                s = g.mutate(s)
        if len(s) > 1500:
            s = s[:1500]
        cases.append((s, ctx.rng.choice(ROOTMODES), kind))

    # ---- direct oracle on the real code: every chunking gives the same events; nothing escapes
    model_cases = []
    with I.E_quiet():
        for idx, (s, mode, kind) in enumerate(cases):
            ref = None
            for cs in chunkings(ctx.rng, len(s)):
                ev, snaps, esc = I.run_policy(s, cs, mode)
                ctx.case([list(s), cs, mode], nontrivial=len(ev) > 0)
                ctx.hist("kind", kind)
                ctx.hist("chunking", "whole" if len(cs) == 1 else "bytewise" if all(c == 1 for c in cs) else "random")
                ctx.hist("outcome", "abandoned" if snaps and snaps[-1]["dead"] else ("violations" if ["violation"] in ev else "clean"))
                if esc:
                    ctx.fail("oracle/exception-escaped", "an exception escaped Banana.dataReceived: %s; stream=%r chunks=%r mode=%s"
                             % (esc, list(s), cs[:20], mode), replay=dict(stream=list(s), chunks=cs, rootmode=mode))
                    break
                last = snaps[-1] if snaps else None
                if last and last["dead"]:
                    last = dict(last, buf=0, skip=0)      # stale buffer of an abandoned connection is never read again
                final = (ev, last)
                if ref is None:
                    ref = final
                elif final != ref:
                    ctx.fail("oracle/chunk-dependent", "observable behaviour depends on the chunking: whole-stream %r vs chunks %r -> %r; stream=%r mode=%s"
                             % (ref, cs[:30], final, list(s), mode), replay=dict(stream=list(s), chunks=cs, rootmode=mode, whole=ref, chunked=final))
                    break
                model_cases.append((s, cs, mode, ev, snaps))
        corpus_witnesses(ctx, I, corpus)
        close_in_index_phase(ctx, I)
        abort_in_index_phase(ctx, I)
        real_oracle(ctx, I)
        resync_refs(ctx, I)
        resync_vocab(ctx, I)
        leaf_second_token(ctx, I)
        spec_oracle(ctx, I)
        c07_hist.keepalive_replies(ctx, I)
        error_report_oracle(ctx, I)
        send_error_oracle(ctx, I, generic_ok)
        absorbing_closer_note(ctx, I)
        if generic_ok:
            from harness import c07_std
            c07_std.std_correspondence(ctx, I, ctx.n(70, 2500))
        c07_hist.connection_age(ctx, I)        # last: registers RemoteCopy classes / unslicers process-wide
    ctx.sample(dict(stream=list(cases[len(corpus)][0]), rootmode=cases[len(corpus)][1], kind=cases[len(corpus)][2]))
    ctx.sample(dict(stream=list(cases[-1][0]), rootmode=cases[-1][1], kind=cases[-1][2]))

    # ---- correspondence with the Coq model, event by event and snapshot by snapshot
    # quick tier: the recorded traces are shared out between the two models of the same code (every trace is compared with one of
    # them); thorough: all of them with the transcription, every third also with the generic logic
    quick = ctx.tier == "quick"
    if model_ok:
        correspond(ctx, model_cases[0::2] if quick and generic_ok else model_cases)
    if generic_ok:
        correspond_generic(ctx, model_cases[1::2] if quick else model_cases[::3])
    if not ok and len(ctx.failures) == before:
        ctx.fail("proof-broken", "theorem closure props/C07.vo no longer builds: " + log[-2500:], replay=dict(log=log[-6000:]),
                 has_input=False)


def _count_deliveries(ev):
    return len([e for e in ev if e[0] == "deliver"])


def corpus_witnesses(ctx, I, corpus):
    """regression witnesses with a stated expectation (corpus/C07/*.json: expect_dead, max_deliveries)"""
    for c in corpus:
        if "expect_dead" not in c:
            continue
        s = bytes(c["stream"])
        for cs in ([len(s)], [1] * len(s)):
            if c.get("real"):
                ev, final, esc = I.run_real(s, cs)
                dead = final["dead"]
            else:
                ev, snaps, esc = I.run_policy(s, cs, c.get("rootmode", "any"))
                dead = bool(snaps and snaps[-1]["dead"])
            ctx.case(["corpus-witness", c["name"], cs], nontrivial=True)
            nviol = len([e for e in ev if e[0] == "violation"])
            if esc or dead != c["expect_dead"] or _count_deliveries(ev) > c["max_deliveries"] or ("expect_violations" in c and nviol != c["expect_violations"]):
                ctx.fail("oracle/close-in-index-phase-accepted" if c["name"].startswith("close_in_index_phase") else
                         "oracle/abort-in-index-phase-delivers" if c["name"].startswith("abort_in_index_phase") else "oracle/corpus-witness/" + c["name"],
                         "regression witness %s (%s): expected abandoned=%s, at most %d deliveries, %s violation(s); got abandoned=%s, events %r, escaped %r"
                         % (c["name"], c.get("what", ""), c["expect_dead"], c["max_deliveries"], c.get("expect_violations", "any number of"), dead, ev[:8], esc),
                         replay=dict(stream=list(s), chunks=cs, rootmode=c.get("rootmode", "any"), real=bool(c.get("real"))))
                break


def close_in_index_phase(ctx, I):
    """a CLOSE token that arrives while the index phase of an OPEN is pending cannot belong to that OPEN: it is a protocol error
    (ERROR sent, connection closed, nothing decoded afterwards) at every nesting depth, for every enclosing CLOSE count, with
    policy and standard unslicers.  Before the repair the enclosing sequence was closed and the index phase continued one level up,
    so a balanced stream delivered two objects."""
    for real, L in ((True, b"list"), (False, b"L")):
        for depth in (0, 1, 2, 3):
            for which in range(depth + 1):            # which enclosing OPEN the stray CLOSE names (depth = the pending one itself)
                pre = b"".join(tok(OPEN, i) + S(L) + enc_int(i) for i in range(depth))
                s = pre + tok(OPEN, depth) + tok(CLOSE, which) + S(L) + enc_int(5) + tok(CLOSE, depth) + b"".join(tok(CLOSE, i) for i in reversed(range(depth))) + enc_int(9)
                for cs in ([len(s)], [1] * len(s)):
                    if real:
                        ev, final, esc = I.run_real(s, cs)
                        dead = final["dead"]
                    else:
                        ev, snaps, esc = I.run_policy(s, cs, "any")
                        dead = bool(snaps and snaps[-1]["dead"])
                    ctx.case(["close-in-index", real, depth, which, cs], nontrivial=True)
                    ctx.hist("kind", "close-in-index-phase")
                    if esc or not dead or _count_deliveries(ev) > 0 or not any(e[0] == "error-sent" for e in ev):
                        ctx.fail("oracle/close-in-index-phase-accepted", "a CLOSE(%d) in the index phase of OPEN(%d) (%s unslicers, %d enclosing lists) was not treated "
                                 "as a protocol error: abandoned=%s, deliveries=%d, events %r, escaped %r" % (which, depth, "standard" if real else "policy", depth, dead,
                                 _count_deliveries(ev), ev[:8], esc), replay=dict(stream=list(s), chunks=cs, rootmode="any", real=real))
                        break


def abort_in_index_phase(ctx, I):
    """an ABORT that arrives while the index tokens of an OPEN are pending abandons THAT sequence: one violation is reported, everything
    up to the CLOSE that balances the outermost enclosing OPEN is discarded, nothing of it is delivered, and the next object is decoded
    normally.  Before the repair the index phase stayed pending: the sequence was reported AND then built and delivered."""
    for real, L in ((True, b"list"), (False, b"L")):
        for depth in (0, 1, 2, 3):
            for extra_index in (False, True):          # ABORT right after OPEN / after a first index token of a two-token opentype (policy "2")
                if extra_index and real:
                    continue
                pre = b"".join(tok(OPEN, i) + S(L) + enc_int(i) for i in range(depth))
                s = pre + tok(OPEN, depth) + (S(b"2") if extra_index else b"") + tok(ABORT, depth) + S(L) + enc_int(5) + tok(CLOSE, depth) \
                    + b"".join(tok(CLOSE, i) for i in reversed(range(depth))) + enc_int(9)
                for cs in ([len(s)], [1] * len(s)):
                    if real:
                        ev, final, esc = I.run_real(s, cs)
                        dead = final["dead"]
                        want = [["violation"], ["deliver", ["i", 9]]]
                    else:
                        ev, snaps, esc = I.run_policy(s, cs, "any")
                        dead = bool(snaps and snaps[-1]["dead"])
                        want = [["violation"], ["deliver", ["i", 9]]]
                    got = [list(e) for e in ev if e[0] in ("deliver", "violation", "error-sent", "lose")]
                    ctx.case(["abort-in-index", real, depth, extra_index, cs], nontrivial=True)
                    ctx.hist("kind", "abort-in-index-phase")
                    if esc or dead or got != want:
                        ctx.fail("oracle/abort-in-index-phase-delivers", "an ABORT(%d) in the index phase of OPEN(%d) (%s unslicers, %d enclosing lists%s) must abandon "
                                 "exactly that top-level sequence: expected %r, got %r, abandoned=%s, escaped %r"
                                 % (depth, depth, "standard" if real else "policy", depth, ", after a first index token" if extra_index else "", want, got, dead, esc),
                                 replay=dict(stream=list(s), chunks=cs, rootmode="any", real=real))
                        break


def correspond(ctx, model_cases):
    from harness.c07_impl import VOCAB_TABLE
    voc = "[" + "; ".join("(%d, %s)" % (k, common.coq_bytes(v).replace("%N", "")) for k, v in sorted(VOCAB_TABLE.items())) + "]"
    shard = 250
    nbad = 0
    skipped = 0
    for si in range(0, len(model_cases), shard):
        part = model_cases[si:si + shard]
        lines = []
        for (s, cs, mode, ev, snaps) in part:
            chunks, pos = [], 0
            for n in cs:
                chunks.append("[" + ";".join(str(b) for b in s[pos:pos + n]) + "]")
                pos += n
            lines.append("(%d, [%s])" % (modecode(mode), "; ".join(chunks)))
        body = ("Local Open Scope Z_scope.\nDefinition voc : list (Z * list Z) := %s.\n"
                "Definition cases : list (Z * list (list Z)) := [\n%s].\n"
                "Eval vm_compute in map (fun c => trace (init (ctx0 (fst c) voc)) (snd c)) cases.\n"
                % (voc, ";\n".join(lines)))
        try:
            (vals,) = ctx.coq_eval("C07_cases_%d" % (si // shard), body,
                                   requires=["Verif.lib.PyLite", "Verif.gen.BananaGen", "Verif.lib.Token", "Verif.lib.Recv",
                                             "Verif.lib.BananaRecv"])
        except common.CoqEvalError as e:
            ctx.fail("correspondence-broken", "the model could not be evaluated: " + str(e)[-1500:], has_input=False)
            return
        for (s, cs, mode, ev, snaps), (mev, msnaps) in zip(part, vals):
            if [99] in mev:
                skipped += 1
                continue
            iev = [ev_code(e) for e in ev]
            isn = [[x["buf"], x["skip"], x["discard"], x["depth"], int(x["inopen"]), int(x["dead"])] for x in snaps]
            # after abandonment the implementation keeps stale buffer contents that are never read again
            isn_c = [x if not x[5] else [0, 0, x[2], x[3], x[4], 1] for x in isn]
            msn_c = [x if not x[5] else [0, 0, x[2], x[3], x[4], 1] for x in msnaps]
            ctx.traces += 1
            if iev != mev or [x[:2] + x[5:] for x in isn_c] != [x[:2] + x[5:] for x in msn_c] or \
                    [x[2:5] for x in isn_c if not x[5]] != [x[2:5] for x in msn_c if not x[5]]:
                nbad += 1
                if nbad <= 3:
                    ctx.fail("correspondence/recv", "model and implementation disagree: stream=%r chunks=%r mode=%s\n impl events %r\n model events %r\n impl snaps %r\n model snaps %r"
                             % (list(s), cs[:40], mode, iev, mev, isn[-3:], msnaps[-3:]),
                             replay=dict(stream=list(s), chunks=cs, rootmode=mode, impl=[iev, isn], model=[mev, msnaps]), has_input=False)
    ctx.extra["correspondence_traces"] = ctx.traces
    ctx.extra["correspondence_disagreements"] = nbad
    ctx.extra["correspondence_model_abstained"] = skipped


def uval_code_policy(c):
    """canonical delivered object of the policy unslicers in the layout of lib/Unsl.v's uval_code"""
    t = c[0]
    if t == "i":
        return [1, c[1]]
    if t == "f":
        return [2, len(c[1])] + list(c[1])
    if t == "s":
        return [3, len(c[1])] + list(c[1])
    if t == "L":
        out = [4, ord(c[1]), 0, len(c[2])]
        for x in c[2]:
            out += uval_code_policy(x)
        return out
    raise ValueError(c)


def correspond_generic(ctx, model_cases):
    """the same real traces against the GENERIC receive logic lib/Unsl.v instantiated with the policy unslicers (lib/PolUnsl.v):
    semantic events (deliveries, violations, PONGs, ERROR / close / reported error class) and the per-chunk snapshots"""
    from harness.c07_impl import VOCAB_TABLE
    voc = "[" + "; ".join("(%d, %s)" % (k, common.coq_bytes(v).replace("%N", "")) for k, v in sorted(VOCAB_TABLE.items())) + "]"
    shard = 250
    nbad = skipped = n = 0
    for si in range(0, len(model_cases), shard):
        part = model_cases[si:si + shard]
        lines = []
        for (s, cs, mode, ev, snaps) in part:
            chunks, pos = [], 0
            for k in cs:
                chunks.append("[" + ";".join(str(b) for b in s[pos:pos + k]) + "]")
                pos += k
            lines.append("(%d, [%s])" % (modecode(mode), "; ".join(chunks)))
        body = ("Local Open Scope Z_scope.\nDefinition voc : list (Z * list Z) := %s.\n"
                "Definition cases : list (Z * list (list Z)) := [\n%s].\n"
                "Eval vm_compute in map (fun c => ptrace (init (pctx0 (fst c) voc)) (snd c)) cases.\n" % (voc, ";\n".join(lines)))
        try:
            (vals,) = ctx.coq_eval("C07_generic_%d" % (si // shard), body,
                                   requires=["Verif.lib.PyLite", "Verif.gen.BananaGen", "Verif.lib.Token", "Verif.lib.Recv", "Verif.lib.BananaRecv",
                                             "Verif.lib.Unsl", "Verif.lib.PolUnsl"])
        except common.CoqEvalError as e:
            ctx.fail("correspondence-broken", "the generic receive model could not be evaluated: " + str(e)[-1500:], has_input=False)
            return
        for (s, cs, mode, ev, snaps), (mev, msnaps) in zip(part, vals):
            if [99] in mev:
                skipped += 1
                continue
            iev = []
            for e in ev:
                if e[0] == "deliver":
                    iev.append([10] + uval_code_policy(e[1]))
                elif e[0] in ("violation", "pong", "error-sent", "lose", "receive-error"):
                    iev.append(ev_code(e))
            isn = [[x["buf"], x["skip"], x["discard"], x["depth"], int(x["inopen"]), int(x["dead"])] for x in snaps]
            norm = lambda l: [list(x) if not x[5] else [0, 0, 0, 0, 0, 1] for x in l]
            n += 1
            ctx.traces += 1
            if iev != [list(e) for e in mev] or norm(isn) != norm(msnaps):
                nbad += 1
                if nbad <= 3:
                    ctx.fail("correspondence/generic-recv", "generic receive logic (lib/Unsl.v, policy instance) and implementation disagree: stream=%r chunks=%r mode=%s\n"
                             " impl events %r\n model events %r\n impl snaps %r\n model snaps %r" % (list(s), cs[:40], mode, iev, mev, isn[-3:], msnaps[-3:]),
                             replay=dict(stream=list(s), chunks=cs, rootmode=mode, impl=[iev, isn], model=[mev, msnaps]), has_input=False)
    ctx.extra["generic_correspondence_traces"] = n
    ctx.extra["generic_correspondence_disagreements"] = nbad


# characters of every UTF-8 width: a message of k characters is k, 2k, 3k or 4k bytes on the wire
SE_UNITS = [("ascii", "e"), ("2-byte", "é"), ("3-byte", "☃"), ("4-byte", "\U0001F600"), ("mixed", "aé☃\U0001F600")]


def _error_token(data):
    """(announced, body) when `data` starts like header + ERROR, else None"""
    from foolscap import banana, tokens
    j = 0
    while j < len(data) and data[j] < 0x80:
        j += 1
    if data[j:j + 1] != tokens.ERROR:
        return None
    return (banana.b1282int(data[:j]) if j else 0), data[j + 1:]


def _peer_reads_report(I, data):
    """what a fresh receiver makes of the bytes: (handleError was reached with this text or None, bytes it wrote back, its receive errors)"""
    got = []

    class Peer(I.RealBanana):
        def handleError(self, msg):
            got.append(msg)
            self.transport.loseConnection()
    q = Peer()
    esc = None
    try:
        q.dataReceived(data)
    except Exception as e:
        esc = "%s: %s" % (type(e).__name__, e)
    back = b"".join(e[1] for e in q.vlog if e[0] == "write")
    errs = [e[1] for e in q.vlog if e[0] == "receive-error"]
    return (got[0] if got else None), back, errs, esc


def send_error_messages(limit):
    """the family: messages of every UTF-8 character width, as text and as bytes, with the CHARACTER count and the BYTE count each
    placed below / at / above the limit and the cut position (fixed witnesses, no randomness)"""
    out = []
    for uname, unit in SE_UNITS:
        w = len(unit.encode("utf-8"))
        u = len(unit)
        ks = set()
        for edge in (0, 1, 2, limit - 11, limit - 10, limit - 9, limit - 1, limit, limit + 1, limit + 2, limit + 10, limit + 11, 2 * limit, 70 * limit):
            ks.add(edge // u)               # character count at the edge
            ks.add(-(-edge // u))
            ks.add(edge // w)               # byte count at the edge
            ks.add(-(-edge // w))
            ks.add(edge // w + 1)
        for k in sorted(ks):
            text = unit * k
            out.append((uname, "str", text))
            out.append((uname, "bytes", text.encode("utf-8")))
    return out


def send_error_oracle(ctx, I, model_ok):
    """Banana.sendError: whatever the message (any UTF-8 character width, text or bytes), the ERROR token that is written announces at most
    SIZE_LIMIT BYTES (the peer refuses more), announces exactly what follows, a peer receiver takes it as an error report, and the
    connection is closed after it; the length rule is the translated se_len of the message's byte length"""
    from foolscap import banana, tokens
    cases = []
    failed = set()
    for uname, ty, msg in send_error_messages(tokens.SIZE_LIMIT):
        enc = msg if isinstance(msg, bytes) else msg.encode("utf-8")
        n = len(enc)
        nchars = len(enc.decode("utf-8"))
        p = I.PolicyBanana("any")
        esc = None
        try:
            p.sendError(msg)
        except Exception as e:
            esc = "%s: %s" % (type(e).__name__, e)
        data = b"".join(e[1] for e in p.vlog if e[0] == "write")
        t = _error_token(data)
        lost = ("lose",) in p.vlog and p.vlog[-1] == ("lose",)
        ctx.case(["send-error", uname, ty, n], nontrivial=True)
        ctx.hist("kind", "send-error")
        announced, body = t if t else (-1, b"")
        peer_msg, back, errs, pesc = _peer_reads_report(I, data) if t else (None, b"", [], None)
        bad = []
        if esc:
            bad.append("raised " + esc)
        if t is None:
            bad.append("what was written is not header + ERROR: %r" % data[:30])
        else:
            if announced != len(body):
                bad.append("announces %d bytes, %d follow" % (announced, len(body)))
            if announced > tokens.SIZE_LIMIT:
                bad.append("announces %d bytes, the limit of an ERROR token is %d" % (announced, tokens.SIZE_LIMIT))
            if n <= tokens.SIZE_LIMIT and body != enc:
                bad.append("a message that fits was altered")
            if peer_msg is None or back or errs or pesc:
                bad.append("a peer receiver does not take it as an error report (receive errors %r, answers %r, escaped %r)" % (errs, back[:60], pesc))
        if not lost:
            bad.append("the connection is not closed after it")
        if bad and (uname, ty) not in failed:
            failed.add((uname, ty))
            ctx.fail("oracle/error-token-malformed", "sendError(%s message of %d %s characters = %d bytes): %s"
                     % (ty, nchars, uname, n, "; ".join(bad)),
                     replay=dict(send_error=True, unit=uname, type=ty, chars=nchars, length=n, announced=announced, body=len(body), message=list(enc[:16])))
        if t and not esc:
            cases.append((n, announced))
    cases = sorted(set(cases))
    if model_ok:
        try:
            (vals,) = ctx.coq_eval("C07_se_len", "Local Open Scope Z_scope.\nEval vm_compute in map se_len [%s].\n" % "; ".join(str(n) for n, _ in cases),
                                   requires=["Verif.lib.PyLite", "Verif.gen.BananaGen", "Verif.gen.RecvGen"])
        except common.CoqEvalError as e:
            ctx.fail("correspondence-broken", "se_len could not be evaluated: " + str(e)[-800:], has_input=False)
            return
        for (n, announced), m in zip(cases, vals):
            ctx.traces += 1
            if announced != m:
                ctx.fail("correspondence/send-error-length", "translated sendError length rule gives %d for a %d-byte message, the real method announced %d" % (m, n, announced),
                         replay=dict(length=n), has_input=False)


def error_report_witnesses():
    """byte streams that end in a protocol violation while the receive stack's description (Banana.describeReceive, part of the
    report's text) holds peer-chosen non-ASCII text: the key of the dict entry being filled in, at one or two nesting levels, for every
    UTF-8 character width, sized so that the report is short / has fewer characters than the limit but more bytes / has more of both"""
    def ukey(text):
        return tok(OPEN, 0) + S(b"unicode") + S(text.encode("utf-8")) + tok(CLOSE, 0)
    enders = [("old-list-token", tok(LIST, 3)), ("invalid-type-byte", b"\x01\x8b"), ("close-mismatch", tok(CLOSE, 77)),
              ("oversized-header", b"\x7f" * 70)]
    out = []
    for uname, unit in SE_UNITS[1:]:
        w = len(unit.encode("utf-8"))
        for label, ks in (("short", [3]), ("chars-fit-bytes-do-not", [1000 // w + 5]), ("two-levels", [300 // len(unit), 300 // len(unit)]),
                          ("chars-over", [1100 // len(unit)])):
            for ename, ender in (enders if label == "chars-fit-bytes-do-not" else enders[:1]):
                s = b""
                for d, k in enumerate(ks):
                    s += tok(OPEN, d) + S(b"dict") + ukey(unit * k)
                s += ender
                tail = tok(INT, 9) + tok(CLOSE, 0) + tok(INT, 42)
                out.append(dict(name="%s/%s/%s" % (uname, label, ename), stream=s, tail=tail))
    return out


def _run_error_report(I, s, tail, cs):
    """feed s in packets cs, then tail; -> (what is wrong with the error report, bytes written, escaped exception)"""
    from foolscap import tokens
    p = I.RealBanana()
    esc = None
    pos = 0
    try:
        for c in cs:
            p.dataReceived(s[pos:pos + c])
            pos += c
        before_tail = len(p.vlog)
        p.dataReceived(tail)
    except Exception as e:
        esc = "%s: %s" % (type(e).__name__, e)
        before_tail = len(p.vlog)
    data = b"".join(e[1] for e in p.vlog if e[0] == "write")
    t = _error_token(data)
    bad = []
    if not p.connectionAbandoned or [e for e in p.vlog if e[0] == "lose"] != [("lose",)]:
        bad.append("the connection is not closed exactly once (abandoned=%s)" % bool(p.connectionAbandoned))
    if any(e[0] in ("deliver", "violation") for e in p.vlog) or len(p.vlog) != before_tail:
        bad.append("something was delivered / reported / answered besides the error: %r" % [e[0] for e in p.vlog])
    if t is None:
        bad.append("what was written is not one ERROR token: %r" % data[:30])
    else:
        announced, body = t
        if announced != len(body):
            bad.append("the ERROR token announces %d bytes, %d follow" % (announced, len(body)))
        if announced > tokens.SIZE_LIMIT:
            bad.append("the ERROR token announces %d bytes, the specification (and the peer's own tokenizer) allows %d" % (announced, tokens.SIZE_LIMIT))
        peer_msg, back, errs, pesc = _peer_reads_report(I, data)
        if peer_msg is None or back or errs or pesc:
            bad.append("a peer receiver does not take it as an error report (receive errors %r, answers %r, escaped %r)" % (errs, back[:60], pesc))
    return bad, data, esc


def error_report_oracle(ctx, I):
    """'a protocol violation makes the receiver send an error, close the connection and ignore all further input', and what it sends
    agrees with the token specification: exactly one ERROR token of at most SIZE_LIMIT bytes that announces what follows, acceptable to a
    peer receiver -- whatever text the location of the failure contains, for every packetisation"""
    for w in error_report_witnesses():
        s, tail = w["stream"], w["tail"]
        n = len(s)
        cuts = [[n]] + [[i, n - i] for i in sorted(set(list(range(1, min(n, 24))) + [n // 2] + list(range(max(1, n - 8), n))))]
        cuts.append([64] * (n // 64) + ([n % 64] if n % 64 else []))
        if ctx.tier != "quick":
            cuts.append([1] * n)
            cuts += [[i, n - i] for i in range(24, n - 8, 7)]
        ref = None
        for cs in cuts:
            bad, data, esc = _run_error_report(I, s, tail, cs)
            ctx.case(["error-report", w["name"], cs], nontrivial=True)
            ctx.hist("kind", "error-report")
            rp = dict(stream=list(s + tail), chunks=cs + [len(tail)], real=True, witness=w["name"], error_report=len(tail))
            if esc:
                ctx.fail("oracle/exception-escaped", "error-report witness %s: an exception escaped dataReceived: %s; packets %r" % (w["name"], esc, cs[:20]), replay=rp)
                break
            if bad:
                ctx.fail("oracle/error-token-malformed", "error-report witness %s (standard unslicers): stream %r... (%d bytes) in packets %r: %s"
                         % (w["name"], list(s[:40]), n, cs[:20], "; ".join(bad)), replay=dict(rp, written=list(data[:40]), written_len=len(data)))
                break
            # the location part of the report ("BananaError(in <where>)"); the rest of the text is not compared: the report of an
            # over-long header quotes up to 265 bytes of what happens to be buffered (see notes)
            final = data.split(b"): ")[0]
            if ref is None:
                ref = final
            elif final != ref:
                ctx.fail("oracle/chunk-dependent", "error-report witness %s: where the error report says the failure happened depends on the packetisation: one packet %r..., packets %r -> %r..."
                         % (w["name"], ref[:60], cs[:20], final[:60]), replay=dict(rp, whole=list(ref[:80]), chunked=list(final[:80])))
                break


def absorbing_closer_note(ctx, I):
    """replay of lib/PolUnslProofs.unsl_depth_refuted_absorbing_closer on the real Banana class: a THIRD-PARTY unslicer that absorbs
    violations and raises one from its own receiveClose stays on the stack after its CLOSE.  No unslicer of the package does this; the
    generic theorems exclude it by hypothesis.  Recorded as an observation, not a violation."""
    class Y(I.PU):
        def receiveClose(self):
            raise I.Violation("bad close")

        def reportViolation(self, f):
            return None

    class RootY(I.PolicyRoot):
        def doOpen(self, opentype):
            if opentype[0] == "Y":
                return Y("Y", 0, self.log)
            return I.PolicyRoot.doOpen(self, opentype)

    class B(I.PolicyBanana):
        unslicerClass = RootY
    p = B("any")
    p.dataReceived(tok(OPEN, 0) + S(b"Y") + tok(CLOSE, 0))
    depth_after = len(p.receiveStack)
    p.dataReceived(enc_int(7))
    delivered = [e for e in p.vlog if e[0] == "deliver"]
    ctx.case(["absorbing-closer"], nontrivial=True)
    if depth_after == 2 and not delivered:
        ctx.note("observation (third-party unslicers only): an unslicer that absorbs violations and raises one from receiveClose stays on the "
                 "receive stack after its CLOSE (depth %d, a following top-level INT was not delivered); refutation witness of "
                 "lib/PolUnslProofs.v replayed on banana.py" % depth_after)
    else:
        ctx.note("absorbing-closer witness no longer reproduces on this tree (depth %d, delivered %r)" % (depth_after, delivered))


class TreeGen:
    """objects with a known outcome, for the direct specification oracles"""

    def __init__(self, rng):
        self.r = rng
        self.oid = 0
        self.pings = []          # numbers of the PING tokens inserted, in stream order

    def ping(self, p=0.25):
        """maybe a PING (recorded) or a PONG (ignored by the receiver) to put between two tokens"""
        r = self.r
        if r.random() >= p:
            return b""
        if r.random() < 0.2:
            return tok(PONG, r.choice([0, 3, 2 ** 40]))
        n = r.choice([0, 1, 5, 300, 2 ** 33, len(self.pings) + 1000])
        self.pings.append(n)
        return tok(PING, n)

    def prim(self):
        r = self.r
        k = r.random()
        if k < 0.5:
            n = r.choice([0, 1, 127, 128, 2 ** 31 - 1, 2 ** 31, 2 ** 64, -1, -2 ** 31, -2 ** 31 - 1, -2 ** 64, r.randrange(-999, 999)])
            return enc_int(n), ["i", n]
        if k < 0.8:
            b = bytes(r.randrange(256) for _ in range(r.choice([0, 1, 2, 7, 40])))
            return S(b), ["s", list(b)]
        f = bytes(r.randrange(256) for _ in range(8))
        return bytes([FLOAT]) + f, ["f", list(f)]

    def good(self, depth):
        r = self.r
        if depth <= 0 or r.random() < 0.4:
            return self.prim()
        oid = self.oid
        self.oid += 1
        out = tok(OPEN, oid) + (S(b"L") if r.random() < 0.8 else tok(VOCAB, 0))
        items = []
        for _ in range(r.choice([0, 1, 2, 3])):
            b, v = self.good(depth - 1)
            out += b
            items.append(v)
            out += self.ping(0.15)
        out += tok(CLOSE, oid)
        return out, ["L", "L", items]

    def bad(self, depth):
        """a top-level object containing exactly one violating node, below `depth` good list levels"""
        r = self.r
        if depth > 0:
            oid = self.oid
            self.oid += 1
            out = tok(OPEN, oid) + S(b"L")
            pos = r.randrange(3)
            for i in range(3):
                out += self.bad(depth - 1) if i == pos else self.good(1)[0]
            return out + tok(CLOSE, oid)
        oid = self.oid
        self.oid += 1
        kind = r.choice(["C0", "C1", "X", "T", "F", "Z", "I+s", "S0+s", "N0+c", "longindex", "abort", "intindex", "2+int", "2+long"])
        P = lambda: self.ping(0.4)        # PINGs must be answered in every state, also while discarding
        G = lambda: self.good(1)[0]       # evaluated in stream order, so that recorded pings match the stream
        if kind in ("C0", "X", "T", "F", "Z"):
            parts = [tok(OPEN, oid), S(kind.encode()), G, P, G, P]
        elif kind == "C1":
            parts = [tok(OPEN, oid), S(b"C1"), G, P, G, P, G, P]
        elif kind == "I+s":
            parts = [tok(OPEN, oid), S(b"I"), enc_int(4), S(b"no"), P, enc_int(5), P]
        elif kind == "S0+s":
            parts = [tok(OPEN, oid), S(b"S0"), enc_int(4), S(b"toolong"), P, G, P]
        elif kind == "N0+c":
            parts = [tok(OPEN, oid), S(b"N0"), enc_int(4), P, P]
        elif kind == "longindex":
            parts = [tok(OPEN, oid), S(b"LLLLL"), P, G, P]
        elif kind == "intindex":
            parts = [tok(OPEN, oid), enc_int(5), P, G, P]
        elif kind == "2+int":
            parts = [tok(OPEN, oid), S(b"2"), P, enc_int(5), P, G, P]
        elif kind == "2+long":
            parts = [tok(OPEN, oid), S(b"2"), S(b"LLLLL"), P, G, P]
        else:
            parts = [tok(OPEN, oid), S(b"L"), G, P, tok(ABORT, oid), G, P]
        out = b""
        for x in parts:
            out += x() if callable(x) else x
        return out + tok(CLOSE, oid)


def spec_oracle(ctx, I):
    """direct checks against the token specification, independent of the Coq model:
       (1) well-formed objects are delivered with exactly their value, in order;
       (2) a violation discards exactly the offending top-level object, later objects are unaffected;
       (3) a 64-digit header is accepted, 65 bytes without a type byte end the connection;
       (4) whatever follows an ERROR token or a protocol error is ignored."""
    r = ctx.rng
    n = ctx.n(150, 4000)
    for i in range(n):
        tg = TreeGen(r)
        stream, expect = b"", []
        for j in range(r.choice([1, 2, 3, 5])):
            if r.random() < 0.35:
                stream += tg.bad(r.choice([0, 0, 1, 2]))
                expect.append(["violation"])
            else:
                b, v = tg.good(r.choice([0, 1, 2, 3]))
                stream += b
                expect.append(["deliver", v])
        for cs in chunkings(r, len(stream)):
            ev, snaps, esc = I.run_policy(stream, cs, "any")
            got = [e for e in ev if e[0] in ("deliver", "violation", "error-sent", "lose")]
            pongs = [e[1] for e in ev if e[0] == "pong"]
            ctx.case(["spec", list(stream), cs], nontrivial=True)
            ctx.hist("kind", "spec-resync")
            if not esc and pongs != tg.pings:
                ctx.fail("oracle/ping-not-answered", "every PING must be answered by one PONG with the same number, in order, in every receiver "
                         "state (also while a rejected object is being discarded): PINGs %r, PONGs written %r; stream=%r chunks=%r"
                         % (tg.pings, pongs, list(stream), cs[:30]), replay=dict(stream=list(stream), chunks=cs, rootmode="any", pings=tg.pings, pongs=pongs))
                break
            if esc or got != expect or (snaps and (snaps[-1]["discard"] != 0 or snaps[-1]["depth"] != 1 or snaps[-1]["buf"] != 0)):
                ctx.fail("oracle/spec-deviation", "objects delivered / violations reported differ from the specification: expected %r, got %r (escaped %r, final %r); stream=%r chunks=%r"
                         % (expect, got, esc, snaps[-1] if snaps else None, list(stream), cs[:30]),
                         replay=dict(stream=list(stream), chunks=cs, rootmode="any", expect=expect, got=got))
                break
    # (3) header length boundary
    for digits, ok in ((1, True), (63, True), (64, True), (65, False), (66, False)):
        hdr = bytes([1] * (digits - 1) + [1]) if digits else b""
        stream = hdr + bytes([INT]) + enc_int(7)
        for cs in ([len(stream)], [1] * len(stream), [64, len(stream) - 64] if len(stream) > 64 else [len(stream)]):
            ev, snaps, esc = I.run_policy(stream, cs, "any")
            val = sum(128 ** k for k in range(digits))
            want = [["deliver", ["i", val]], ["deliver", ["i", 7]]] if ok else [["error-sent"], ["lose"], ["receive-error", "BananaError"]]
            ctx.case(["hdr", digits, cs], nontrivial=True)
            if esc or ev != want:
                ctx.fail("oracle/header-limit", "a %d-digit header must be %s: got %r (escaped %r)" % (digits, "accepted" if ok else "refused with an ERROR", ev[:4], esc),
                         replay=dict(stream=list(stream), chunks=cs, rootmode="any"))
    # (4) nothing is decoded after abandonment
    for bad in (tok(ERROR, 2, b"hi"), bytes([LIST]), bytes([0]) * 65, tok(ERROR, 1001), tok(OPEN, 1) + tok(OPEN, 2), tok(CLOSE, 9)):
        stream = enc_int(1) + bad + enc_int(2) + enc_int(3)
        for cs in chunkings(r, len(stream)):
            ev, snaps, esc = I.run_policy(stream, cs, "any")
            dl = [e for e in ev if e[0] == "deliver"]
            ctx.case(["after-error", list(stream), cs], nontrivial=True)
            if esc or dl != [["deliver", ["i", 1]]] or ["lose"] not in ev or not snaps[-1]["dead"]:
                ctx.fail("oracle/input-after-abandon", "after %r the receiver must close and ignore further input: events %r (escaped %r)" % (list(bad)[:8], ev, esc),
                         replay=dict(stream=list(stream), chunks=cs, rootmode="any"))


def real_oracle(ctx, I):
    """chunk independence and crash freedom with the REAL RootUnslicer and the standard unslicers"""
    from foolscap import storage
    r = ctx.rng
    n = ctx.n(120, 3000)

    def rand_obj(d):
        k = r.random()
        if d <= 0 or k < 0.4:
            return r.choice([0, 1, -1, 2 ** 31, -2 ** 31, 2 ** 100, 1.5, b"abc", b"", "text", "é\U0001F600", None, True, False])
        if k < 0.55:
            return [rand_obj(d - 1) for _ in range(r.randrange(4))]
        if k < 0.7:
            return tuple(rand_obj(d - 1) for _ in range(r.randrange(4)))
        if k < 0.8:
            # keys include tuples of every length: the location strings built on error paths format the current key
            return {r.choice([1, 2, b"k", "u", (1, 2), (), (b"a", (1,)), (7,), frozenset([1])]): rand_obj(d - 1) for _ in range(r.randrange(3))}
        if k < 0.9:
            return set(r.choice([1, 2, 3, b"x"]) for _ in range(r.randrange(3)))
        return frozenset(r.choice([1, 2, 3]) for _ in range(r.randrange(3)))
    g = Gen(r)
    for i in range(n):
        objs = [rand_obj(3) for _ in range(r.choice([1, 2, 3]))]
        try:
            s = b"".join(storage.serialize(o) if False else _ser(o) for o in objs)
        except Exception:
            continue
        kind = "real-wellformed"
        if r.random() < 0.5:
            s = g.mutate(s)
            kind = "real-mutated"
        ref = None
        for cs in chunkings(r, len(s), bytewise_limit=300):
            ev, final, esc = I.run_real(s, cs)
            ctx.case(["real", list(s), cs], nontrivial=len(ev) > 0)
            ctx.hist("kind", kind)
            if esc:
                ctx.fail("oracle/exception-escaped", "an exception escaped Banana.dataReceived (standard unslicers): %s; stream=%r chunks=%r"
                         % (esc, list(s), cs[:20]), replay=dict(stream=list(s), chunks=cs, real=True))
                break
            if final["dead"]:
                final = dict(final, buf=0, skip=0)
            if ref is None:
                ref = (ev, final)
            elif (ev, final) != ref:
                ctx.fail("oracle/chunk-dependent", "standard unslicers: behaviour depends on the chunking: whole %r vs %r -> %r; stream=%r"
                         % (ref, cs[:30], (ev, final), list(s)), replay=dict(stream=list(s), chunks=cs, real=True))
                break


def resync_refs(ctx, I):
    """ONE real sender emits: an object, an object the receiver must reject part-way (a Copyable class unknown to the receiver whose
    state holds nested containers, so that OPEN tokens are dropped while discarding), then a graph with shared sub-objects.  The
    sender numbers every OPEN it emits; the receiver must keep the same numbering across the discarded ones, or the back-references
    of the last object resolve to the wrong container."""
    from foolscap import copyable
    r = ctx.rng

    class Unk(copyable.Copyable):
        typeToCopy = "verif.c07.unknown"

        def __init__(self, state):
            self.state = state

        def getStateToCopy(self):
            return self.state
    n = ctx.n(24, 300)
    for i in range(n):
        x = [1, r.randrange(100)]
        y = {b"k": x}
        shared = r.choice([[x, x], {b"p": x, b"q": x}, [x, [x, 3]], ([9], x, x), [y, y, x], [x, [5], x, (x, x)]])
        first = r.choice([b"first", [7, [8]], 5, (1, (2, [3]))])
        state = r.choice([{"a": [1, [2]], "b": {"k": (3, [4])}}, {"a": [[[]]]}, {"a": 1}, {"a": [[1], [2], [3], {"z": [4]}]}])
        where = r.choice(["bare", "list", "deep", "tuplekey", "tuplekey0", "setmember"])
        bad = (Unk(state) if where == "bare" else [b"a", Unk(state), b"tail"] if where == "list" else
               [[(Unk(state), [1])], {b"q": [2]}] if where == "deep" else
               {(1, 2): Unk(state), b"z": [1]} if where == "tuplekey" else
               [{(): [Unk(state)]}, {(1, (2, 3), 4): {(5,): Unk(state)}}] if where == "tuplekey0" else
               [[1, 2], (Unk(state), frozenset([1, 2]))])
        try:
            s = _ser_many([first, bad, shared])
        except Exception as e:
            ctx.note("resync_refs: sender refused a case: %r" % e)
            continue
        expect = [["deliver", I.deep_canon(first)], ["violation"], ["deliver", I.deep_canon(shared)]]
        for cs in chunkings(r, len(s), bytewise_limit=400):
            ev, final, esc = I.run_real(s, cs, I.RealStorageBanana)
            ctx.case(["resync-refs", list(s), cs], nontrivial=True)
            ctx.hist("kind", "real-resync-refs")
            got = [list(e) for e in ev if e[0] in ("deliver", "violation", "receive-error", "error-sent", "lose")]
            if esc or got != expect:
                ctx.fail("oracle/reference-after-violation", "after a rejected object with nested containers, a following object with shared "
                         "sub-objects was not decoded as sent (object numbering must count discarded OPENs too): expected %r, got %r, escaped %r; "
                         "chunks %r" % (expect, got, esc, cs[:12]), replay=dict(stream=list(s), chunks=cs, real=True))
                break


def resync_vocab(ctx, I):
    """the inbound vocabulary table in force must survive an object that is discarded part-way, in particular a set-vocab / add-vocab
    sequence that is itself rejected or aborted before its CLOSE: objects that follow are decoded with the table the last COMPLETE
    replacement installed"""
    from foolscap import storage
    r = ctx.rng

    class W:
        def __init__(self):
            self.data = []
            self.disconnecting = False

        def write(self, d):
            self.data.append(bytes(d))

        def loseConnection(self, *a):
            pass
    n = ctx.n(16, 200)
    for i in range(n):
        words = r.choice([[b"list", b"dict"], [b"list", b"dict", b"tuple", b"set"], [b"dict", b"list"], [b"list"]])
        b = storage.StorageBanana()
        b.transport = W()
        b.connectionMade()
        b.setOutgoingVocabulary(words)
        o1 = r.choice([[1, 2], {3: 4}, [[5], {6: [7]}]])
        b.send(o1)
        # a set-vocab that never completes: aborted, or ended by a word over the 100-byte limit, or by a non-INT key
        k = 90 + i
        kind = r.choice(["abort", "longword"])      # (a non-INT key or an OPEN inside set-vocab is a protocol error, not a violation)
        if kind == "abort":
            bad = tok(OPEN, k) + S(b"set-vocab") + enc_int(0) + S(b"tuple") + tok(ABORT, k) + enc_int(1) + S(b"x") + tok(CLOSE, k)
        elif kind == "longword":
            bad = tok(OPEN, k) + S(b"set-vocab") + enc_int(0) + S(b"tuple") + enc_int(1) + S(b"w" * 150) + tok(CLOSE, k)
        elif kind == "badkey":
            bad = tok(OPEN, k) + S(b"set-vocab") + enc_int(0) + S(b"tuple") + S(b"notanint") + S(b"x") + tok(CLOSE, k)
        else:
            bad = tok(OPEN, k) + S(b"set-vocab") + enc_int(0) + S(b"tuple") + tok(OPEN, k + 1) + S(b"list") + tok(CLOSE, k + 1) + tok(CLOSE, k)
        mark = len(b.transport.data)
        o2 = r.choice([{3: 4}, [1, {2: 3}], [[1], [2]]])
        o3 = r.choice([[5], {8: 9}])
        b.send(o2)
        b.send(o3)
        s = b"".join(b.transport.data[:mark]) + bad + b"".join(b.transport.data[mark:])
        expect_tail = [["deliver", I.deep_canon(o2)], ["deliver", I.deep_canon(o3)]]
        for cs in chunkings(r, len(s), bytewise_limit=300):
            ev, final, esc = I.run_real(s, cs, I.RealStorageBanana)
            ctx.case(["resync-vocab", list(s), cs], nontrivial=True)
            ctx.hist("kind", "real-resync-vocab")
            got = [list(e) for e in ev if e[0] in ("deliver", "violation", "receive-error", "error-sent", "lose")]
            ok = (not esc and len(got) >= 3 and got[0] == ["deliver", I.deep_canon(o1)] and got[-2:] == expect_tail
                  and all(e == ["violation"] for e in got[1:-2]) and len(got[1:-2]) >= 1)
            if not ok:
                ctx.fail("oracle/vocab-table-after-discarded-object", "after a set-vocab sequence that was discarded part-way (%s) the following "
                         "objects were not decoded with the table in force: expected deliver %r, violation(s), deliver %r, deliver %r; got %r, "
                         "escaped %r; chunks %r" % (kind, o1, o2, o3, got, esc, cs[:12]), replay=dict(stream=list(s), chunks=cs, real=True))
                break


def leaf_second_token(ctx, I):
    """the one-token sequences (unicode, decimal, boolean, none) take exactly one body token: a second one is a protocol violation
    whatever the first one was (empty string, zero, False ...): ERROR is sent, the connection closes, nothing later is delivered"""
    r = ctx.rng
    fams = [(b"unicode", [S(b""), S(b"abc"), S(b"0")], [S(b"def"), S(b"")]),
            (b"decimal", [S(b"0"), S(b"-0.00"), S(b"1.5")], [S(b"2.5"), S(b"0")]),
            (b"boolean", [enc_int(0), enc_int(1)], [enc_int(1), enc_int(0)]),
            (b"none", [], [enc_int(0), S(b"")])]
    for ot, firsts, seconds in fams:
        for f in (firsts or [b""]):
            for g in seconds:
                for nested in (False, True):
                    body = tok(OPEN, 1 if nested else 0) + S(ot) + f + g + tok(CLOSE, 1 if nested else 0)
                    s = (tok(OPEN, 0) + S(b"list") + body + tok(CLOSE, 0)) if nested else body
                    s += tok(OPEN, 5) + S(b"list") + enc_int(7) + enc_int(8) + tok(CLOSE, 5)
                    for cs in chunkings(r, len(s), bytewise_limit=100):
                        ev, final, esc = I.run_real(s, cs)
                        ctx.case(["leaf-second-token", list(s), cs], nontrivial=True)
                        ctx.hist("kind", "real-leaf-second-token")
                        delivered = [e for e in ev if e[0] == "deliver"]
                        if esc or delivered or not final["dead"] or not any(e[0] == "error-sent" for e in ev):
                            ctx.fail("oracle/second-token-in-one-token-sequence", "a second body token inside OPEN %s was not treated as a "
                                     "protocol violation: delivered %r, abandoned=%s, events %r, escaped %r; chunks %r"
                                     % (ot.decode(), delivered, final["dead"], ev[:6], esc, cs[:12]), replay=dict(stream=list(s), chunks=cs, real=True))
                            break


def _ser_many(objs):
    """serialize several objects with ONE real sender (its OPEN numbering runs on across them)"""
    from foolscap import banana

    class W:
        def __init__(self):
            self.data = []
            self.disconnecting = False

        def write(self, d):
            self.data.append(bytes(d))

        def loseConnection(self, *a):
            pass
    from foolscap import storage
    b = storage.StorageBanana()          # its root slicer tracks references (a plain Banana sends shared objects as copies)
    b.transport = W()
    b.connectionMade()
    for o in objs:
        b.send(o)
    return b"".join(b.transport.data)


def _ser(o):
    """serialize one object with the real sender (synchronously)"""
    from foolscap import banana

    class W:
        def __init__(self):
            self.data = []
            self.disconnecting = False

        def write(self, d):
            self.data.append(bytes(d))

        def loseConnection(self, *a):
            pass
    b = banana.Banana()
    b.transport = W()
    b.connectionMade()
    d = b.send(o)
    return b"".join(b.transport.data)


def replay(ctx, data):
    """re-run one recorded case: ./check C07 --replay replays/C07-*.json"""
    from harness import c07_impl as I
    ctx.rule = "replay of one recorded case"
    rp = data.get("replay") or {}
    if rp.get("send_error"):
        unit = dict(SE_UNITS)[rp["unit"]]
        msg = unit * (rp["chars"] // len(unit))
        with I.E_quiet():
            p = I.PolicyBanana("any")
            p.sendError(msg if rp["type"] == "str" else msg.encode("utf-8"))
        t = _error_token(b"".join(e[1] for e in p.vlog if e[0] == "write"))
        print("sendError(%s of %d %s characters, %d bytes) ->" % (rp["type"], len(msg), rp["unit"], len(msg.encode("utf-8"))),
              "not an ERROR token" if t is None else "ERROR token announcing %d bytes, %d follow" % (t[0], len(t[1])))
        ctx.case(["send-error", rp["unit"], rp["type"], rp["chars"]])
        from foolscap import tokens
        if t is None or t[0] != len(t[1]) or t[0] > tokens.SIZE_LIMIT:
            ctx.fail("oracle/error-token-malformed", "sendError wrote %r" % (t and (t[0], len(t[1])),), replay=rp)
        ctx.distinct.add(b"x"); ctx.nontrivial.update([b"a", b"b"])
        return
    if rp.get("error_report"):
        full = bytes(rp["stream"])
        k = rp["error_report"]
        s, tail = full[:-k], full[-k:]
        with I.E_quiet():
            res = [(c, _run_error_report(I, s, tail, c)) for c in ([len(s)], rp["chunks"][:-1])]
        for c, (bad, data, esc) in res:
            print("packets", c[:20], "-> wrote %d bytes %r...; problems: %r; escaped: %r" % (len(data), data[:40], bad, esc))
            ctx.case(["error-report", list(full), c])
            if esc:
                ctx.fail("oracle/exception-escaped", "exception escaped: %s" % esc, replay=rp)
            elif bad:
                ctx.fail("oracle/error-token-malformed", "; ".join(bad), replay=rp)
        ctx.distinct.add(b"x"); ctx.nontrivial.update([b"a", b"b"])
        return
    stream = bytes(rp["stream"])
    cs = rp.get("chunks") or [len(stream)]
    mode = rp.get("rootmode", "any")
    ok, log = ctx.coq_build(["lib/BananaRecv.vo"])
    with I.E_quiet():
        runs = []
        for c in ([len(stream)], cs):
            if rp.get("real"):
                ev, final, esc = I.run_real(stream, c)
                snaps = [dict(final, inopen=False)]
            else:
                ev, snaps, esc = I.run_policy(stream, c, mode)
            runs.append((c, ev, snaps, esc))
            print("chunks", c[:20], "->", ev, snaps[-1] if snaps else None, "escaped:", esc)
            ctx.case([list(stream), c, mode])
    (c1, e1, s1, x1), (c2, e2, s2, x2) = runs
    ctx.sample(dict(stream=list(stream), chunks=cs, rootmode=mode))
    if x1 or x2:
        ctx.fail("oracle/exception-escaped", "exception escaped: %r %r" % (x1, x2), replay=rp)
    norm = lambda s_: None if not s_ else (dict(s_[-1], buf=0, skip=0) if s_[-1]["dead"] else s_[-1])
    if (e1, norm(s1)) != (e2, norm(s2)):
        ctx.fail("oracle/chunk-dependent", "whole %r vs chunked %r" % ((e1, norm(s1)), (e2, norm(s2))), replay=rp)
    if ok and not rp.get("real"):
        correspond(ctx, [(stream, c, mode, e, s_) for (c, e, s_, x) in runs if not x])
    ctx.distinct.add(b"x"); ctx.nontrivial.update([b"a", b"b"])
